#!/bin/bash
# independent re-check of every compiled Props file and everything it depends on (coqchk), listing the axioms of the
# whole loaded context; ~3 min, ~3 GB.  Output: coqchk_summary.txt   (not registered in MANIFEST: run by hand)
cd "$(dirname "$0")/coq"
mods=$(for i in 01 02 03 04 05 06 07 08 09 10 11 12 13 14 15 16 17 18 19 20; do echo OQ.Props.C$i; done)
timeout 3000 coqchk -silent -o -Q theories OQ $mods 2>&1 | grep -v conda > ../coqchk_summary.txt; rc=${PIPESTATUS[0]}
echo "coqchk exit code: $rc" >> ../coqchk_summary.txt
tail -12 ../coqchk_summary.txt
exit $rc
