#!/bin/bash
# false-alarm hunt: every check, several seeds; prints one line per (check, seed) that raised an alarm
# usage: ./sweep.sh <tier> <seed...>
tier=$1; shift
for seed in "$@"; do
  for i in 01 02 03 04 05 06 07 08 09 10 11 12 13 14 15 16 17 18 19 20; do
    out=$(VERIF_SEED=$seed ./check C$i --tier $tier 2>/dev/null)
    rc=$?
    echo "$out" | grep -E "^\[C$i\]" | tail -1
    if [ $rc -ne 0 ] || echo "$out" | grep -q "^VIOLATION"; then echo "ALARM C$i seed=$seed tier=$tier rc=$rc"; echo "$out" | grep -E "failing input|broken|VIOLATION" | cut -c1-600; fi
  done
done
