"""C03 — contracting any process tensor reproduces the exact joint evolution."""
import itertools
import numpy as np
import oqupy

from harness.common import run_cases, ints, gflat, coq_list, float_lit, vec_lit
from harness.impl import gint, InjSystem, rand_intpt, quiet, mat_lit, IntPT
from harness.ref import ref_dynamics, mpo_transformed
from harness import c18

HEADER = c18.HEADER


def rand_complex(rng, shape, scale=1.0):
    n = int(np.prod(shape))
    a = np.array([rng.gauss(0, 1) + 1j * rng.gauss(0, 1) for _ in range(n)]).reshape(shape)
    return a * scale


def float_pt(rng, d, N, maxbond, rank3, transforms):
    d2 = d * d
    tin = tout = None
    din = dout = d2
    if transforms:
        tin, tout = rand_complex(rng, (d2, d2), .6), rand_complex(rng, (d2, d2), .6)
    bonds = [1] + [rng.randint(1, maxbond) for _ in range(N)]
    mpos = [rand_complex(rng, (bonds[k], bonds[k + 1], din) if rank3 else (bonds[k], bonds[k + 1], din, dout), .7)
            for k in range(N)]
    caps = [rand_complex(rng, (bonds[k],)) for k in range(N + 1)]
    return IntPT(d, mpos, caps, tin, tout)


def impl_states(d, pts, props, rho0, N, ctrl=None, record_all=True, start_time=0.0, built=None):
    sysm = InjSystem(d, props)
    dyn = quiet(oqupy.compute_dynamics, sysm, initial_state=np.array(rho0), dt=0.1, num_steps=N, start_time=start_time,
                process_tensor=built if built is not None else [p.build() for p in pts], control=ctrl, record_all=record_all,
                progress_type="silent")
    return [np.array(s).reshape(-1) for s in dyn.states]


def look_at(pt):
    """the read-only accessors of a process tensor (they must not change what it does)"""
    for k in range(len(pt)):
        _ = (pt.get_mpo_tensor(k, transformed=False), pt.get_mpo_tensor(k), pt.get_mpo_tensor(k, transformed=False), pt.get_cap_tensor(k))
    _ = (pt.get_cap_tensor(len(pt)), pt.get_bond_dimensions(), len(pt), str(pt), pt.dt, pt.transform_in, pt.transform_out, pt.hilbert_space_dimension)


def search(chk, n):
    """Property oracle on the implementation: dense joint evolution; order independence."""
    rng = chk.rng
    for it in range(n):
        d = rng.choice([2, 2, 3])
        d2 = d * d
        N = rng.randint(1, 4)
        nenv = (rng.choice([1, 2, 2, 3, 0]) if it != 7 else rng.choice([1, 2])) if it != 5 else 0        # it == 5: no environment at all (every run)
        commuting = rng.random() < 0.5 and it not in (3, 7)
        pts = []
        for j_ in range(nenv):
            # rank-3 (delta) tensors also WITH transforms (then the environments no longer commute); it == 7: such a tensor goes
            # through a file and is used file-backed
            tr_ = not commuting and (rng.random() < 0.4 or (it in (3, 7) and j_ == 0))
            pts.append(float_pt(rng, d, N, 3, rank3=commuting or (tr_ and (rng.random() < 0.4 or it == 7)), transforms=tr_))
        props = [(rand_complex(rng, (d2, d2), .5), rand_complex(rng, (d2, d2), .5)) for _ in range(N)]
        rho0 = rand_complex(rng, (d, d))
        envs = [dict(mpos=[mpo_transformed(m, p.tin, p.tout) for m in p.mpos], caps=p.caps) for p in pts]
        # control operations interleaved with the propagators: at most one per step and side (stacking is C18's subject)
        pre, post, ctrl = {}, {}, None
        start_t = 0.0
        if rng.random() < 0.45:
            ctrl = oqupy.Control(d)
            # all controls of a run are given either as integer steps or as float times (a non-zero start time then)
            as_float = rng.random() < 0.5
            start_t = rng.choice([0.0, 0.5, -1.3]) if as_float else 0.0
            for k in range(N + 1):
                for side, table in ((False, pre), (True, post)):
                    if rng.random() < 0.4 and not (side and k == N):
                        table[k] = rand_complex(rng, (d2, d2), .6)
                        key = float(start_t + (k + rng.choice([0.0, 0.3, -0.3])) * 0.1) if as_float else k
                        ctrl.add_single(key, table[k].copy(), post=side)
        want = ref_dynamics(d2, envs, pre, post, props, rho0.reshape(-1), N)
        rec_all = rng.random() < 0.7 and it != 1           # it == 1: only the final state recorded (forced in every run)
        if it == 1 and ctrl is None and N >= 2:
            ctrl = oqupy.Control(d)
            for side, table in ((False, pre), (True, post)):
                k = rng.randint(1, N - 1)
                table[k] = rand_complex(rng, (d2, d2), .6)
                ctrl.add_single(k, table[k].copy(), post=side)
            want = ref_dynamics(d2, envs, pre, post, props, rho0.reshape(-1), N)
        # the process tensors as objects with a history: every second case they are looked at through their read-only accessors
        # first; every third case one of them has already been used and one of its tensors was replaced afterwards
        built = [p.build() for p in pts]
        history = []
        if it % 3 == 2 and N >= 1 and pts:
            j_ = rng.randrange(len(pts))
            k_ = rng.randrange(N)
            final_tensor = pts[j_].mpos[k_]
            other = rand_complex(rng, final_tensor.shape)
            built[j_].set_mpo_tensor(k_, other)                 # first a different tensor at step k_ ...
            quiet(oqupy.compute_dynamics, InjSystem(d, props), initial_state=np.array(rho0), dt=0.1, num_steps=N, process_tensor=built, progress_type="silent")
            built[j_].set_mpo_tensor(k_, final_tensor)          # ... then the one the oracle knows
            history.append(f"tensor {k_} of environment {j_} replaced after a first computation")
        if it % 2 == 1:
            for b_ in built:
                look_at(b_)
            history.append("read-only accessors called before the computation")
        files = []
        if it % 4 == 3 and pts:
            # every run (it == 3: a process tensor WITH transforms): one process tensor goes through a file and comes back
            # through import_process_tensor as 'simple' or 'file'
            import tempfile, os
            j_ = 0 if it in (3, 7) else rng.randrange(len(pts))
            how = "simple" if (it // 4) % 2 == 0 else "file"
            fn = os.path.join(tempfile.mkdtemp(prefix="c03s_"), "pt.hdf5")
            files.append(fn)
            try:
                built[j_].export(fn, overwrite=True)
                built[j_] = oqupy.import_process_tensor(fn, process_tensor_type=how)
            except Exception as ex:
                chk.fail("export-import-raises:" + how, f"export / import_process_tensor(..., '{how}') raises {ex!r}", {"d": d, "N": N, "seed": chk.seed, "iteration": it})
                continue
            history.append(f"environment {j_} exported and imported as '{how}' (transforms: {pts[j_].tin is not None})")
        got = impl_states(d, pts, props, rho0, N, ctrl=ctrl, record_all=rec_all, start_time=start_t, built=built)
        for fn in files:
            import shutil
            for b_ in built:
                if hasattr(b_, "close"):
                    b_.close()
            shutil.rmtree(os.path.dirname(fn), ignore_errors=True)
        if not rec_all:
            want = want[-1:]
        chk.search_cases += 1
        scale = max(1e-300, max(np.abs(w).max() for w in want))
        err = max(np.abs(g - w).max() for g, w in zip(got, want)) / scale
        if len(got) != len(want) or err > 1e-9:
            chk.fail("joint-evolution", f"compute_dynamics deviates from the dense joint evolution (rel {err:.2e})"
                     + (f"; controls: pre at steps {sorted(pre)}, post at steps {sorted(post)}" if ctrl is not None else ""),
                     {"d": d, "N": N, "nenv": nenv, "seed": chk.seed, "iteration": it, "pre_controls": sorted(pre), "post_controls": sorted(post), "start_time": start_t,
                      "process_tensor_history": history})
        # order independence
        if nenv >= 2:
            perm = list(range(nenv))
            rng.shuffle(perm)
            if perm != list(range(nenv)):
                got2 = impl_states(d, [pts[i] for i in perm], props, rho0, N, ctrl=ctrl, record_all=rec_all, start_time=start_t)
                err2 = max(np.abs(g - w).max() for g, w in zip(got, got2)) / scale
                chk.search_cases += 1
                if err2 > 1e-9:
                    key = "env-order-commuting" if commuting else "env-order-noncommuting"
                    chk.fail(key, f"result depends on the order of the process-tensor list (rel {err2:.2e}); "
                             + ("environments act as commuting (delta) maps" if commuting else "environments do not commute on the system leg"),
                             {"d": d, "N": N, "nenv": nenv, "perm": perm, "seed": chk.seed, "iteration": it})


def caps_search(chk, n):
    """compute_caps(): the cap of step k closes the environment's future - the transformed MPO tensors of the steps k..N-1
    contracted with the trace on both system legs (exact integers; SimpleProcessTensor and its file-backed twin)"""
    import tempfile, os, shutil
    rng = chk.rng
    tmp = tempfile.mkdtemp(prefix="c03_")
    try:
        for it in range(n):
            d = rng.choice([1, 2, 2])
            d2 = d * d
            N = rng.randint(1, 4)
            p = rand_intpt(rng, d, N, maxbond=3, transforms=rng.random() < 0.6, lo=-2, hi=2, last_trivial=True)
            tr = np.eye(d).reshape(-1) / np.sqrt(float(d))          # input: maximally mixed, output: traced (1/sqrt(d) on each leg)
            want = [np.array([1.0 + 0j])]
            for k in reversed(range(N)):
                m4 = mpo_transformed(np.array(p.mpos[k]), p.tin, p.tout)
                want.insert(0, np.einsum("abio,b,i,o->a", m4, want[0], tr, tr))
            info = {"kind": "compute_caps", "d": d, "N": N, "ranks": [x.ndim for x in p.mpos], "transforms": p.tin is not None}
            for which in ("simple", "file"):
                try:
                    pt = p.build()
                    if which == "file":
                        fn = os.path.join(tmp, f"caps_{it}.hdf5")
                        pt.export(fn, overwrite=True)
                        pt = oqupy.process_tensor.FileProcessTensor("read", fn)
                        # a read-mode file cannot be written: recompute on a write-mode copy
                        pt.close()
                        ft = oqupy.process_tensor.FileProcessTensor("overwrite", fn, d, dt=None, transform_in=p.tin, transform_out=p.tout)
                        for k, m in enumerate(p.mpos):
                            # tensors arrive in any memory layout (a transposed view of an array built in another leg order)
                            ft.set_mpo_tensor(k, np.asfortranarray(m) if (k + it) % 2 == 0 else m)
                        pt = ft
                    pt.compute_caps()
                    got = [np.array(pt.get_cap_tensor(k)) for k in range(N + 1)]
                    if which == "file":
                        pt.close()
                except Exception as ex:
                    chk.fail("compute-caps-raises:" + which, f"compute_caps() of a {which} process tensor (ranks {info['ranks']}, transforms {info['transforms']}) raises {ex!r}", info)
                    continue
                chk.search_cases += 1
                chk.count("compute_caps_" + which)
                if len(got) != len(want) or any(g.shape != w.shape or not np.allclose(g, w, rtol=1e-12, atol=1e-12) for g, w in zip(got, want)):
                    chk.fail("compute-caps-wrong:" + which + (":rank3" if 3 in info["ranks"] else ":rank4") + (":transforms" if info["transforms"] else ""), f"compute_caps() of a {which} process tensor (ranks {info['ranks']}, transforms {info['transforms']}) does not give the "
                             "trace closure of the remaining steps", dict(info, storage=which))
            chk.case(info, ("caps", d, N, str(info["ranks"]), info["transforms"], it))
    finally:
        shutil.rmtree(tmp, ignore_errors=True)


def sum_of_baths(chk, n):
    """two baths with the same coupling operator = one bath with the summed spectral density"""
    rng = chk.rng
    sx, sz = oqupy.operators.sigma("x"), oqupy.operators.sigma("z")
    for it in range(n):
        eps = 1e-7
        a1, a2 = rng.choice([0.05, 0.1, 0.3]), rng.choice([0.05, 0.2])
        zeta, wc, T = rng.choice([1, 3]), rng.choice([1.0, 3.0]), rng.choice([0.0, 0.4])
        op = rng.choice([0.5 * sz, 0.5 * sx + 0.3 * sz])
        dkmax = rng.choice([None, 2])
        par = oqupy.TempoParameters(dt=0.1, epsrel=eps, dkmax=dkmax)
        N = rng.randint(3, 5)
        mk = lambda a: quiet(oqupy.pt_tempo_compute, oqupy.Bath(op, oqupy.PowerLawSD(alpha=a, zeta=zeta, cutoff=wc, cutoff_type="exponential", temperature=T)),
                             0.0, N * 0.1, parameters=par, progress_type="silent")
        sysm = oqupy.System(0.4 * sx + 0.2 * sz)
        rho0 = oqupy.operators.spin_dm("y+")
        two = np.array(quiet(oqupy.compute_dynamics, sysm, initial_state=rho0, process_tensor=[mk(a1), mk(a2)], progress_type="silent").states)
        one = np.array(quiet(oqupy.compute_dynamics, sysm, initial_state=rho0, process_tensor=mk(a1 + a2), progress_type="silent").states)
        chk.search_cases += 1
        chk.count("sum_of_baths")
        if np.abs(two - one).max() > 2e3 * eps:
            chk.fail("sum-of-baths", f"two baths (alpha {a1}, {a2}) with the same coupling operator differ from one bath with the summed spectral "
                     f"density by {np.abs(two - one).max():.2e}", {"alpha": [a1, a2], "zeta": zeta, "T": T, "dkmax": dkmax, "N": N})


def run(chk):
    rng = chk.rng
    thorough = chk.tier == "thorough"
    chk.proofs()
    n = 400 if thorough else 120
    exprs, expected, meta = [], [], []
    skipped = 0
    for i in range(n):
        d = rng.choice([1, 2, 2, 2])
        d2 = d * d
        nenv = rng.choice([0, 1, 1, 2, 2, 3])
        N = rng.randint(1, 3 if nenv >= 2 else 4)
        transforms = rng.random() < 0.4 and nenv <= 2
        pts = [rand_intpt(rng, d, N, maxbond=3 if nenv < 3 else 2, transforms=transforms and N <= 2,
                          lo=-1, hi=1, trivial_prob=0.1) for _ in range(nenv)]
        props = [(gint(rng, (d2, d2), -1, 1), gint(rng, (d2, d2), -1, 1)) for _ in range(N)]
        rho0 = gint(rng, (d, d), -2, 2)
        record_all = rng.random() < 0.85
        # control operations (integer steps; pre- and post-measurement) in 40% of the cases
        hist = c18.rand_history(rng, d2, 3, list(range(0, N + 1)), 0.1, 0.0, kinds=("int",), lo=-1, hi=1) if rng.random() < 0.4 else []
        try:
            st = impl_states(d, pts, props, rho0, N, ctrl=c18.build_control(d, hist) if hist else None, record_all=record_all)
        except Exception as ex:
            chk.disagree("compute_dynamics raised", repr(ex))
            continue
        if max(np.abs(s).max() for s in st) > 2 ** 45:
            skipped += 1
            continue
        exp = []
        for s in st:
            exp += gflat(s)
        pl = coq_list([f"({mat_lit(a)}, {mat_lit(b)})" for a, b in props])
        exprs.append(f"dyn_ctl {d2} {coq_list([p.coq(N) for p in pts])} {c18.hist_lit(hist)} {float_lit(0.1)} {float_lit(0.0)} "
                     f"{pl} {'true' if record_all else 'false'} {N} {vec_lit(rho0.reshape(-1))}")
        expected.append(exp)
        kinds = ["T" if p.trivial else ("r3" if p.mpos[0].ndim == 3 else "r4") + ("t" if p.tin is not None else "") for p in pts]
        meta.append({"d": d, "N": N, "envs": kinds, "record_all": record_all, "controls": [(k, p) for k, p, _ in hist],
                     "bonds": [[m.shape[1] for m in p.mpos] for p in pts]})
        chk.count("envs=" + str(nenv))
        for k in kinds:
            chk.count("pt_" + k)
        chk.case(meta[-1], (d, N, tuple(kinds), record_all, str(meta[-1]["bonds"])))
    chk.count("skipped_too_large", skipped)
    vals, errs = run_cases("C03", HEADER, exprs)
    for e in errs:
        chk.disagree("coq evaluation", e)
    for v, exp, m in zip(vals, expected, meta):
        got = ints(v)
        if got != exp:
            chk.disagree("compute_dynamics", {"meta": m, "impl": exp[:60], "model": (got or [])[:60]})

    caps_search(chk, 30 if chk.tier == "thorough" else 10)
    search(chk, 150 if (thorough or chk.disagreements or chk.broken) else 40)
    sum_of_baths(chk, 8 if (thorough or chk.disagreements or chk.broken) else 2)
    return chk.finish(
        level="proof",
        trusted=["model: Model/Dyn.v, Model/PT.v; injected propagators; integer tensors (exact float contraction)",
                 "search oracle: independent dense NumPy joint evolution (harness/ref.py), 1e-9 relative"],
        rule="hand-built Gaussian-integer SimpleProcessTensors (rank 3 / rank 4, with / without transforms, bond dims 1-3, trivial PTs), "
             "0-3 environments, 1-4 steps, record_all on/off; distinct = (d, N, PT kinds, bond profile)",
        assumptions=["'two baths = one bath with the summed spectral density' rests on exponent_additive (Proofs/ShapesSpec.v) and is explored on PT-TEMPO objects here"])
