"""C14 — splitting or repeating compute calls never changes the result."""
import itertools
import numpy as np
import oqupy

from harness.common import run_cases, ints, coq_list
from harness.impl import quiet

HEADER = """From Coq Require Import Arith List Bool.
From OQ Require Import Model.History.
Import ListNotations."""

DT = 0.1
TOL = 1e-7          # separate numerical runs of the same operation sequence (truncation 1e-9)

_corr = oqupy.PowerLawSD(alpha=0.1, zeta=1, cutoff=3.0, cutoff_type="exponential", temperature=0.1)
_bath = oqupy.Bath(0.5 * oqupy.operators.sigma("z"), _corr)
_par = oqupy.TempoParameters(dt=DT, epsrel=1e-9, dkmax=2, subdiv_limit=None)
_rho = oqupy.operators.spin_dm("x+")


class Boom(Exception):
    pass


class Counter:
    """counts evaluations of user callables; raises once at evaluation number `fail_at`."""

    def __init__(self, fail_at=None):
        self.n, self.fail_at, self.armed = 0, fail_at, False

    def tick(self):
        if not self.armed:          # evaluations made by the constructors' input checks
            return
        self.n += 1
        if self.fail_at is not None and self.n == self.fail_at:
            self.fail_at = None
            raise Boom(f"user callable failed at evaluation {self.n}")


def make_tempo(counter=None):
    def ham(t):
        if counter:
            counter.tick()
        return 0.4 * oqupy.operators.sigma("x") + 0.3 * t * oqupy.operators.sigma("z")
    sysm = oqupy.TimeDependentSystem(ham)
    return oqupy.Tempo(sysm, _bath, _par, _rho, 0.0)


def make_tempo_sd(counter=None, kind="sd"):
    """the failing user callable is the bath's spectral density / correlation function (evaluated lazily, inside the quadratures
    of the influence functions, while the computation steps forward)"""
    def j(w):
        if counter:
            counter.tick()
        return 0.1 * w

    def cfun(t):
        if counter:
            counter.tick()
        return 0.05 * np.exp(-t * t) * (1 - 0.3j * t)
    corr = oqupy.CustomSD(j, cutoff=3.0, cutoff_type="exponential", temperature=0.1) if kind == "sd" else oqupy.CustomCorrelations(cfun)
    sysm = oqupy.System(0.4 * oqupy.operators.sigma("x") + 0.2 * oqupy.operators.sigma("z"))
    return oqupy.Tempo(sysm, oqupy.Bath(0.5 * oqupy.operators.sigma("z"), corr), oqupy.TempoParameters(dt=DT, epsrel=1e-6, dkmax=None), _rho, 0.0)


def make_mf(counter=None, where="field", species=1):
    """where: which user callable ticks the failure counter: 'field' (field_eom), 'ham<k>' (Hamiltonian of species k)"""
    def mk_ham(k):
        def ham(t, a):
            if counter and where == "ham%d" % k:
                counter.tick()
            return (0.4 + 0.1 * k) * oqupy.operators.sigma("x") + 0.1 * (a.real) * oqupy.operators.sigma("z") + 0.05 * k * t * oqupy.operators.sigma("y")
        return ham

    def eom(t, states, a):
        if counter and where == "field":
            counter.tick()
        return -0.2 * a + 0.1 * sum(np.trace(x @ oqupy.operators.sigma("z")) for x in states) + 0.05 * t
    ss = [oqupy.TimeDependentSystemWithField(mk_ham(k)) for k in range(species)]
    mfs = oqupy.MeanFieldSystem(ss, field_eom=eom)
    if where.startswith("sd"):
        # the spectral density of species k (evaluated inside the quadratures of ITS influence functions, after the networks of
        # the species before it have been advanced within the step)
        def mk_j(k):
            def j(w):
                if counter and where == "sd%d" % k:
                    counter.tick()
                return (0.1 + 0.05 * k) * w
            return j
        baths = [oqupy.Bath(0.5 * oqupy.operators.sigma("z"), oqupy.CustomSD(mk_j(k), cutoff=3.0, cutoff_type="exponential", temperature=0.1)) for k in range(species)]
        return oqupy.MeanFieldTempo(mfs, baths, oqupy.TempoParameters(dt=DT, epsrel=1e-6, dkmax=None), [_rho] * species, 0.3 + 0j, 0.0)
    return oqupy.MeanFieldTempo(mfs, [_bath] * species, _par, [_rho] * species, 0.3 + 0j, 0.0)


_LOSSY_PT = {}


def lossy_pt(nsteps):
    """a PT-TEMPO process tensor computed with a coarse tolerance: the total trace of a chain carrying it drifts away from one"""
    if nsteps not in _LOSSY_PT:
        corr = oqupy.PowerLawSD(alpha=0.3, zeta=1, cutoff=3.0, cutoff_type="exponential", temperature=0.2)
        _LOSSY_PT[nsteps] = quiet(oqupy.pt_tempo_compute, oqupy.Bath(0.5 * oqupy.operators.sigma("x"), corr), 0.0, nsteps * DT,
                                  parameters=oqupy.TempoParameters(dt=DT, epsrel=3e-3, dkmax=3), progress_type="silent")
    return _LOSSY_PT[nsteps]


def make_tebd(start_mps=None, start_step=0, start_time=0.0, chain_control=None, lossy=None):
    n = 3
    sx, sz = 0.5 * oqupy.operators.sigma("x"), 0.5 * oqupy.operators.sigma("z")
    chain = oqupy.SystemChain([2] * n)
    for i in range(n):
        chain.add_site_hamiltonian(site=i, hamiltonian=(1 + 0.1 * i) * sz)
    for i in range(n - 1):
        chain.add_nn_hamiltonian(site=i, hamiltonian_l=0.8 * sx, hamiltonian_r=sx)
    par = oqupy.PtTebdParameters(dt=DT, order=2, epsrel=1e-9)
    mps = start_mps if start_mps is not None else oqupy.AugmentedMPS([oqupy.operators.spin_dm("z+"), oqupy.operators.spin_dm("x+"), oqupy.operators.spin_dm("z-")])
    if lossy:
        par = oqupy.PtTebdParameters(dt=DT, order=2, epsrel=1e-3)
    return oqupy.PtTebd(initial_augmented_mps=mps, system_chain=chain, process_tensors=[lossy_pt(lossy)] + [None] * (n - 1) if lossy else [None] * n, parameters=par,
                        start_time=start_time, start_step=start_step, dynamics_sites=[0, 1, (1, 2)], chain_control=chain_control)


def run_history(kind, targets, counter=None, observe=False):
    """returns (labels as step indices, list of state arrays) after the calls; Boom propagates.
    observe: call the object's read-only queries between the compute calls (they must not change anything)"""
    if kind == "tempo":
        obj = make_tempo(counter)
        if observe:
            d0 = obj.get_dynamics()         # asking for the (still empty) result before the first compute changes nothing either
            _ = None if d0 is None else list(d0.times)
        for t in targets:
            quiet(obj.compute, t * DT, progress_type="silent")
            if observe:
                d0 = obj.get_dynamics()
                _ = (list(d0.times), [np.array(x) for x in d0.states], str(obj))
        d = obj.get_dynamics()
        return [int(round(x / DT)) for x in d.times], [np.array(s) for s in d.states], obj
    if kind == "meanfield":
        obj = make_mf(counter)
        if observe:
            d0 = obj.get_dynamics()
            _ = None if d0 is None else list(d0.times)
        for t in targets:
            quiet(obj.compute, t * DT, progress_type="silent")
            if observe:
                d0 = obj.get_dynamics()
                _ = (list(d0.times), list(d0.fields), [np.array(x) for x in d0.system_dynamics[0].states])
        d = obj.get_dynamics()
        sd = d.system_dynamics[0]
        return [int(round(x / DT)) for x in d.times], [np.append(np.array(s).reshape(-1), f) for s, f in zip(sd.states, d.fields)], obj
    obj = make_tebd()
    if observe:
        _ = (obj.step, obj.get_augmented_mps())
    for t in targets:
        quiet(obj.compute, t, progress_type="silent")
        if observe:
            _ = (obj.step, obj.time(obj.step), obj.get_results()["norm"], obj.get_current_density_matrix(0),
                 obj.get_current_density_matrix((1, 2)), obj.get_augmented_mps(), obj.get_current_density_matrix(2))
    r = obj.get_results()
    dyn = r["dynamics"]
    states = [np.concatenate([np.array(dyn[s].states[i]).reshape(-1) for s in dyn]) for i in range(len(r["time"]))]
    states = [np.append(x, r["norm"][i]) for i, x in enumerate(states)]
    return [int(round(x / DT)) for x in r["time"]], states, obj


def same(a, b):
    return len(a) == len(b) and all(x.shape == y.shape and np.allclose(x, y, rtol=0, atol=TOL) for x, y in zip(a, b))


def run(chk):
    rng = chk.rng
    thorough = chk.tier == "thorough"
    chk.proofs()
    exprs, expected, meta = [], [], []
    tmax = 4
    hist = [h for r in (1, 2, 3) for h in itertools.product(range(tmax + 1), repeat=r)]
    ref = {}
    for kind in ("tempo", "meanfield", "tebd"):
        hs = hist if (thorough or kind == "tempo") else [h for h in hist if len(h) < 3 or rng.random() < 0.25]
        for T in range(tmax + 1):
            ref[(kind, T)] = run_history(kind, [T])[:2]
        for h in hs:
            # half of the histories with the object's read-only queries between the calls (erased in the model: no-ops)
            observe = h in ((2, 4), (1, 3), (2,)) or rng.random() < 0.5
            info = {"driver": kind, "targets": list(h), "read_only_queries_between_calls": observe}
            T = max(h)
            chk.search_cases += 1
            try:
                labels, states, _ = run_history(kind, list(h), observe=observe)
            except Exception as ex:
                chk.fail("history-raises", f"{kind}: compute targets {list(h)}" + (" with read-only queries between the calls" if observe else "")
                         + f" raise {ex!r} (a single compute to {T} does not)", info)
                continue
            chk.count(kind)
            if observe:
                chk.count(kind + "_with_queries_between_calls")
            rl, rs = ref[(kind, T)]
            if labels != rl or not same(states, rs):
                chk.fail("split-differs", f"{kind}: compute targets {list(h)}" + (" with read-only queries (get_dynamics / get_results / "
                         "get_current_density_matrix / get_augmented_mps) between the calls" if observe else "")
                         + f" leave dynamics different from a single compute to {T}", info)
            exprs.append("let s := fold_left (fun s t => compute (list nat) [] (fun l k => l ++ [k]) t s) "
                         f"{coq_list([str(t) for t in h])} (fresh (list nat) []) in cur _ s :: map fst (dyn _ s)")
            expected.append([T] + labels)
            meta.append(info)
            chk.case(info, (kind, h))

    # ---- fixed-end methods ---------------------------------------------------------------
    for n in ([3, 4, 6] if thorough else [3, 5]):
        pt = oqupy.PtTempo(_bath, 0.0, n * DT, _par)
        chk.search_cases += 1
        info = {"driver": "pttempo", "n": n}
        try:
            quiet(pt.compute, progress_type="silent")
            p1 = pt.get_process_tensor(progress_type="silent")
            t1 = [np.array(p1.get_mpo_tensor(k)) for k in range(len(p1))]
            quiet(pt.compute, progress_type="silent")
            quiet(pt.compute, progress_type="silent")
            p2 = pt.get_process_tensor(progress_type="silent")
            p3 = pt.get_process_tensor(progress_type="silent")
            t2 = [np.array(p3.get_mpo_tensor(k)) for k in range(len(p3))]
            if len(p1) != n or len(p3) != n or not all(np.array_equal(a, b) for a, b in zip(t1, t2)):
                chk.fail("fixed-end-advances", f"PtTempo: repeating compute()/get_process_tensor() changes the process tensor (n={n})", info)
        except Exception as ex:
            chk.fail("fixed-end-raises", f"PtTempo: repeating compute() raises {ex!r}", info)
        exprs.append(f"match fstep _ (f_compute (list nat) [] (fun l k => l ++ [k]) 1 {n} (f_compute (list nat) [] (fun l k => l ++ [k]) 1 {n} (f_fresh _ []))) with Some k => [k] | None => [] end")
        expected.append([n])
        meta.append(info)
        chk.case(info, ("pttempo", n))
        # Gibbs
        gsys = oqupy.System(0.5 * oqupy.operators.sigma("z"))
        # temperatures and slice numbers incl. pairs for which n * (1/(T n)) falls one ulp below 1/T in binary64
        for gT, gn in ((1.0, n + 1), (0.7, [5, 9, 10, 15, 18][n % 5]), (0.2, [7, 14, 17][n % 3])):
            gcorr = oqupy.PowerLawSD(alpha=0.1, zeta=1, cutoff=3.0, cutoff_type="exponential", temperature=gT)
            gbath = oqupy.Bath(np.array([[1.0, 0.0], [0.0, 0.0]]), gcorr)
            g = oqupy.GibbsTempo(gsys, gbath, oqupy.GibbsParameters(n_steps=gn, epsrel=1e-9))
            info = {"driver": "gibbs", "n_steps": gn, "temperature": gT}
            chk.search_cases += 1
            try:
                quiet(g.compute, progress_type="silent")
                s1, n1 = g.get_state(), len(g.get_dynamics().times)
                quiet(g.compute, progress_type="silent")
                s2, n2 = g.get_state(), len(g.get_dynamics().times)
                quiet(g.compute, progress_type="silent")
                s3, n3 = g.get_state(), len(g.get_dynamics().times)
                if n1 != n2 or n1 != n3 or n1 != gn + 1 or not np.array_equal(s1, s2) or not np.array_equal(s1, s3):
                    chk.fail("fixed-end-advances", f"GibbsTempo(n_steps={gn}, T={gT}): a repeated compute() changes the state (|d|={np.abs(s1 - s2).max():.2e}) or the "
                             f"number of recorded slices {n1} -> {n2} -> {n3} (n_steps + 1 = {gn + 1})", info)
            except Exception as ex:
                chk.fail("fixed-end-raises", f"GibbsTempo(n_steps={gn}, T={gT}): repeating compute() raises {ex!r}", info)
            chk.case(info, ("gibbs", gn, gT))

    # ---- restart of a chain computation ------------------------------------------------------
    from oqupy.control import ChainControl

    def mk_cc(with_controls, k, T):
        """controls scheduled strictly after the restart step (absolute step numbers), pre and post"""
        if not with_controls:
            return None
        cc = ChainControl([2, 2, 2])
        sxm = np.kron(oqupy.operators.sigma("x"), oqupy.operators.sigma("x").conj())
        hlf = 0.5 * np.eye(4)
        if k + 1 <= T:
            cc.add_single_site_control(sxm, 0, k + 1, False)
        if k + 1 < T:
            cc.add_single_site_control(hlf, 1, k + 1, True)
        if k + 2 <= T:
            cc.add_single_site_control(sxm, 2, k + 2, False)
        return cc
    for ci, (k, T, wc) in enumerate([(1, 3, False), (2, 4, True), (0, 2, False), (3, 3, False), (1, 4, True), (0, 3, True)] if thorough else [(1, 3, False), (2, 4, True), (1, 4, True)]):
        # every second case: a lossy process tensor and a coarse chain tolerance (the total trace drifts: the exported state
        # must be handed over as it is)
        lossy = T if ci % 2 == 1 else None
        full = make_tebd(chain_control=mk_cc(wc, k, T), lossy=lossy)
        quiet(full.compute, T, progress_type="silent")
        rf = full.get_results()
        a = make_tebd(chain_control=mk_cc(wc, k, T), lossy=lossy)
        quiet(a.compute, k, progress_type="silent")
        b = make_tebd(start_mps=a.get_augmented_mps(), start_step=k, start_time=a.time(k), chain_control=mk_cc(wc, k, T), lossy=lossy)
        quiet(b.compute, T, progress_type="silent")
        rb = b.get_results()
        chk.search_cases += 1
        info = {"driver": "tebd-restart", "k": k, "T": T, "chain_controls_after_restart": wc, "lossy_process_tensor": bool(lossy),
                "norm_at_restart": float(np.real(rf["norm"][k]))}
        ok = np.allclose(rb["time"], rf["time"][k:], rtol=0, atol=1e-12) and np.allclose(rb["norm"], np.array(rf["norm"])[k:], rtol=0, atol=TOL)
        for s in rf["dynamics"]:
            ok = ok and np.allclose(np.array(rb["dynamics"][s].states), np.array(rf["dynamics"][s].states)[k:], rtol=0, atol=TOL)
        if not ok:
            chk.fail("restart-differs", f"PtTebd restarted from step {k} does not continue like the uninterrupted run to {T}", info)
        # a pre-measurement control ON the restart step: the exported state already contains it (it acted before step k was
        # recorded); the restarted object must not apply it a second time
        if ci == 0 and k >= 1:
            filt = np.kron(np.diag([1.0, 0.5]), np.diag([1.0, 0.5]))          # not idempotent, not trace preserving

            def cc_at(times_):
                c_ = ChainControl([2, 2, 2])
                for _ in range(times_):
                    c_.add_single_site_control(filt, 0, k, False)
                return c_
            f1 = make_tebd(chain_control=cc_at(1))
            quiet(f1.compute, T, progress_type="silent")
            a1 = make_tebd(chain_control=cc_at(1))
            quiet(a1.compute, k, progress_type="silent")
            b1 = make_tebd(start_mps=a1.get_augmented_mps(), start_step=k, start_time=a1.time(k), chain_control=cc_at(1))
            quiet(b1.compute, T, progress_type="silent")
            f2 = make_tebd(chain_control=cc_at(2))
            quiet(f2.compute, T, progress_type="silent")
            chk.search_cases += 1
            st_ = lambda o_, lo: np.array([np.array(o_.get_results()["dynamics"][0].states)[lo:]])
            info1 = {"driver": "tebd-restart", "k": k, "T": T, "pre_control_on_restart_step": True}
            if not np.allclose(st_(b1, 0), st_(f1, k), rtol=0, atol=TOL):
                twice = np.allclose(st_(b1, 0), st_(f2, k), rtol=0, atol=TOL)
                chk.fail("restart-reapplies-pre-control" if twice else "restart-differs",
                         f"PtTebd restarted from step {k}, which carries a pre-measurement control: the restarted run " +
                         ("applies that control a second time" if twice else "does not continue like the uninterrupted run"), info1)
        exprs.append(f"let s0 := compute (list nat) [] (fun l k => l ++ [k]) {k} (fresh _ []) in "
                     f"map fst (dyn _ (compute (list nat) [] (fun l k => l ++ [k]) {T} (restart_from _ s0)))")
        expected.append([int(round(x / DT)) for x in rb["time"]])
        meta.append(info)
        chk.case(info, ("restart", k, T, wc))

    # ---- transient failure of a user callable at every evaluation index --------------------
    T = 3

    def mf_result(obj):
        d = obj.get_dynamics()
        labels = [int(round(x / DT)) for x in d.times]
        states = [np.append(np.concatenate([np.array(sd.states[i]).reshape(-1) for sd in d.system_dynamics]), d.fields[i]) for i in range(len(d.times))]
        return labels, states

    scenarios = [("tempo", None, 1), ("tempo", "spectral density", 1), ("tempo", "correlation function", 1), ("meanfield", "field", 1), ("meanfield", "ham0", 2), ("meanfield", "ham1", 2), ("meanfield", "field", 2),
                 ("meanfield", "sd1", 2)]
    for kind, where, species in scenarios:
        mk = (lambda c: make_tempo(c)) if kind == "tempo" else (lambda c, where=where, species=species: make_mf(c, where, species))
        if kind == "tempo" and where is not None:
            mk = (lambda c, where=where: make_tempo_sd(c, "sd" if where == "spectral density" else "corr"))
        probe = Counter()
        obj = mk(probe)
        probe.armed = True
        quiet(obj.compute, T * DT, progress_type="silent")
        n_eval = probe.n
        if kind == "tempo" and where is None:
            rl, rs = ref[(kind, T)]
        elif kind == "tempo":
            d_ = obj.get_dynamics()
            rl, rs = [int(round(x / DT)) for x in d_.times], [np.array(x) for x in d_.states]
        else:
            rl, rs = mf_result(obj)
        idx = list(range(1, n_eval + 1))
        if (kind == "tempo" and where is not None) or (where or "").startswith("sd"):
            # thousands of evaluations inside the quadratures: the first, the last and sampled ones in between
            idx = sorted(set([1, 2, n_eval // 3, n_eval // 2, n_eval - 1, n_eval] + rng.sample(range(1, n_eval + 1), 6 if thorough else 2)))
            idx = [j_ for j_ in idx if 1 <= j_ <= n_eval]
        if species > 1 and not thorough and len(idx) > 8:
            idx = idx[:4] + rng.sample(idx[4:], 4)            # several species: sampled in the quick tier
        for j in idx:
            c = Counter(fail_at=j)
            obj = mk(c)
            c.armed = True
            chk.search_cases += 1
            info = {"driver": kind, "failing_callable": where or "hamiltonian", "species": species, "fail_at_evaluation": j, "of": n_eval}
            try:
                quiet(obj.compute, T * DT, progress_type="silent")
                chk.disagree("failure injection", f"{kind}: no exception at evaluation {j}")
                continue
            except Boom:
                pass
            try:
                quiet(obj.compute, T * DT, progress_type="silent")
                if kind == "tempo":
                    d = obj.get_dynamics()
                    labels, states = [int(round(x / DT)) for x in d.times], [np.array(x) for x in d.states]
                else:
                    labels, states = mf_result(obj)
                outcome = "same" if labels == rl and same(states, rs) else "different"
            except Exception as ex:
                outcome = "fails again: " + repr(ex)[:80]
            chk.count(f"{kind}_{where or 'ham'}_retry_{outcome.split(':')[0]}")
            chk.case(dict(info, outcome=outcome), (kind, where, species, "fail", j))
            if outcome == "different":
                # recorded finding: the Runge-Kutta stages evaluate the FIELD equation after the networks advanced;
                # a failing Hamiltonian / rate callable must leave the object unchanged
                late = kind == "meanfield" and where == "field"
                chk.fail("meanfield-failure-after-advance" if late else "retry-differs",
                         f"{kind}: the user callable '{where or 'hamiltonian'}' raises at its evaluation {j} ({species} species); the repeated compute() "
                         "silently returns different dynamics", info)

    # ---- the same clause for the methods with a fixed end: the bath's spectral density raises (once) while PtTempo.compute /
    # GibbsTempo.compute run; the repeated call gives the failure-free process tensor / state or fails again --------------------
    def fixed_end(kind, counter):
        def j(w):
            counter.tick()
            return 0.1 * w
        if kind == "pttempo":
            corr = oqupy.CustomSD(j, cutoff=3.0, cutoff_type="exponential", temperature=0.1)
            ob = oqupy.PtTempo(oqupy.Bath(0.5 * oqupy.operators.sigma("z"), corr), 0.0, 4 * DT, oqupy.TempoParameters(dt=DT, epsrel=1e-6, dkmax=None))
            res = lambda: np.array(quiet(oqupy.compute_dynamics, oqupy.System(0.4 * oqupy.operators.sigma("x")), initial_state=_rho,
                                         process_tensor=ob.get_process_tensor(progress_type="silent"), progress_type="silent").states)
        else:
            corr = oqupy.CustomSD(j, cutoff=3.0, cutoff_type="exponential", temperature=0.7)
            ob = oqupy.GibbsTempo(oqupy.System(0.4 * oqupy.operators.sigma("x") + 0.2 * oqupy.operators.sigma("z")), oqupy.Bath(np.diag([1.0, -0.5]), corr),
                                  oqupy.GibbsParameters(n_steps=6, epsrel=1e-9))
            res = lambda: np.array(ob.get_state())
        return ob, res
    for kind in ("pttempo", "gibbs"):
        probe = Counter()
        ob, res = fixed_end(kind, probe)
        probe.armed = True
        quiet(ob.compute, progress_type="silent")
        n_eval, want = probe.n, res()
        for j_ in sorted(set([1, n_eval // 2, n_eval] + rng.sample(range(1, n_eval + 1), 4 if thorough else 1))):
            c = Counter(fail_at=j_)
            ob, res = fixed_end(kind, c)
            c.armed = True
            chk.search_cases += 1
            info = {"driver": kind, "failing_callable": "spectral density", "fail_at_evaluation": j_, "of": n_eval}
            try:
                quiet(ob.compute, progress_type="silent")
                chk.disagree("failure injection", f"{kind}: no exception at evaluation {j_}")
                continue
            except Boom:
                pass
            try:
                quiet(ob.compute, progress_type="silent")
                got = res()
                outcome = "same" if got.shape == want.shape and np.abs(got - want).max() < 1e-7 else "different"
            except Exception as ex:
                outcome = "fails again: " + repr(ex)[:80]
            chk.count(f"{kind}_sd_retry_{outcome.split(':')[0]}")
            chk.case(dict(info, outcome=outcome), (kind, "sd", "fail", j_))
            if outcome == "different":
                chk.fail("retry-differs", f"{kind}: the bath's spectral density raises at its evaluation {j_}; the repeated compute() silently gives a different result", info)

    vals, errs = run_cases("C14", HEADER, exprs)
    for e in errs:
        chk.disagree("coq evaluation", e)
    for v, exp, m in zip(vals, expected, meta):
        got = ints(v)
        if got != exp:
            chk.disagree("history", {"meta": m, "impl": exp, "model": got})

    return chk.finish(
        level="proof",
        trusted=["model: Model/History.v (drivers over an opaque deterministic back-end)",
                 "states of separate runs are compared with tolerance 1e-7 (truncation 1e-9): separate numerical runs"],
        rule="every history of 1-3 compute targets in 0..4 (tempo exhaustive; others sampled in quick, exhaustive in thorough) on Tempo, "
             "MeanFieldTempo, PtTebd with real baths; repeated compute/get on PtTempo and GibbsTempo; PtTebd restart; a transient failure "
             "at every evaluation index of the user's Hamiltonian (Tempo) / field equation (MeanFieldTempo); distinct = distinct history",
        assumptions=["the back-end step is deterministic (same operation sequence -> same result up to 1e-7)"])
