"""C17 — an interrupted process-tensor file is never mistaken for a complete one."""
import json
import os
import shutil
import subprocess
import sys
import tempfile
import warnings
from concurrent.futures import ThreadPoolExecutor
import numpy as np
from oqupy import process_tensor as ptm

from harness.common import run_cases, ints, REPO, coq_list
from harness.impl import rand_intpt
from harness import c16

HEADER = c16.HEADER

CHILD = r'''
import os, sys, json
import numpy as np
import h5py
import oqupy
from oqupy import process_tensor as ptm
spec = json.loads(sys.argv[1])
kill_at, flush = spec["kill_at"], spec["flush"]
count = [0]
class Died(BaseException): pass
orig_set = ptm._set_data_and_shape
def counted_set(step, data, shape, tensor):
    orig_set(step, data, shape, tensor)
    count[0] += 1
    if count[0] == kill_at:
        if spec.get("death") == "raise":
            # the writer dies through a Python exception (KeyboardInterrupt, MemoryError, disk full ...): the stack
            # unwinds through the library, the interpreter shuts down normally (h5py flushes what is open)
            raise Died()
        if flush:
            data.file.flush()
        os._exit(9)
ptm._set_data_and_shape = counted_set
if spec.get("kill_after_init"):
    # the writer dies right after the file object has been constructed (file created, nothing written by the caller yet)
    orig_init = ptm.FileProcessTensor.__init__
    def init_then_die(self, mode, *a, **k):
        orig_init(self, mode, *a, **k)
        if mode != "read":
            f_ = getattr(self, "_f", None)
            if flush and f_ is not None:
                f_.flush()
            os._exit(9)
    ptm.FileProcessTensor.__init__ = init_then_die
orig_close = h5py.File.close
def counted_close(self):
    # dying inside close(): before the library's close has returned
    if spec.get("kill_in_close"):
        if flush:
            self.flush()
        os._exit(9)
    return orig_close(self)
if spec["writer"] == "export":
    pt = ptm.SimpleProcessTensor(spec["d"], dt=0.1)
    rng = np.random.default_rng(0)
    bonds = spec["bonds"]
    for k in range(len(bonds) - 1):
        pt.set_mpo_tensor(k, rng.integers(-2, 3, (bonds[k], bonds[k + 1], spec["d"] ** 2, spec["d"] ** 2)).astype(complex))
    for k in range(len(bonds)):
        pt.set_cap_tensor(k, np.ones(bonds[k], dtype=complex))
    h5py.File.close = counted_close
    pt.export(spec["file"])
elif spec["writer"] == "handfill":
    # a write-mode file filled by hand; the object is given its name / description while the file is being written
    pt = ptm.FileProcessTensor("write", spec["file"], 2, dt=0.1, name="first", description="initial")
    rng = np.random.default_rng(0)
    bonds = spec["bonds"]
    renamed = [False]
    def maybe_rename():
        if not renamed[0] and count[0] >= spec["rename_after"]:
            renamed[0] = True
            if spec["rename"] in ("name", "both"):
                pt.name = "renamed"
            if spec["rename"] in ("description", "both"):
                pt.description = "described later"
    maybe_rename()
    for k in range(len(bonds) - 1):
        pt.set_mpo_tensor(k, rng.integers(-2, 3, (bonds[k], bonds[k + 1], 4, 4)).astype(complex))
        maybe_rename()
    for k in range(len(bonds)):
        pt.set_cap_tensor(k, np.ones(bonds[k], dtype=complex))
        maybe_rename()
    h5py.File.close = counted_close
    pt.close()
else:
    corr = oqupy.PowerLawSD(alpha=0.1, zeta=1, cutoff=3.0, cutoff_type="exponential")
    bath = oqupy.Bath(0.5 * oqupy.operators.sigma("z"), corr)
    par = oqupy.TempoParameters(dt=0.1, epsrel=1e-5, dkmax=2)
    pt = oqupy.pt_tempo_compute(bath, 0.0, spec["end"], parameters=par, process_tensor_file=spec["file"], progress_type="silent")
    h5py.File.close = counted_close
    pt.close()
print("OPS", count[0])
'''


def run_child(spec):
    env = dict(os.environ, PYTHONPATH=REPO, PYTHONHASHSEED="0")
    p = subprocess.run([sys.executable, "-c", CHILD, json.dumps(spec)], env=env,
                       stdout=subprocess.PIPE, stderr=subprocess.PIPE, text=True, timeout=300)
    ops = None
    for l in p.stdout.splitlines():
        if l.startswith("OPS"):
            ops = int(l.split()[1])
    return p.returncode, ops, p.stderr[-500:]


def read_or_none(fn):
    try:
        return open(fn, "rb").read()
    except OSError:
        return None


OBSERVED_NAMES = {}
NAME_IDS = {"first": 1, "initial": 2, "renamed": 3, "described later": 4}


def handfill_codes(j):
    """the operations a hand-filling writer has completed when it dies in its kill_at-th write operation (0: it completes),
    coded for Glue.handfill_flat: (0,k) set_mpo k, (1,k) set_cap k, (2,n) name := n, (3,n) description := n, (9,0) close()"""
    bonds, ra, what, kill = j["bonds"], j["rename_after"], j["rename"], j["kill_at"]
    codes, st = [], {"count": 1, "renamed": False}
    if kill == 1 or j.get("kill_after_init"):
        return codes

    def maybe():
        if not st["renamed"] and st["count"] >= ra:
            st["renamed"] = True
            if what in ("name", "both"):
                codes.append((2, NAME_IDS["renamed"]))
            if what in ("description", "both"):
                codes.append((3, NAME_IDS["described later"]))
    maybe()
    for kind, num in [(0, len(bonds) - 1), (1, len(bonds))]:
        for k in range(num):
            codes.append((kind, k))
            st["count"] += 1
            if st["count"] == kill:
                return codes
            maybe()
    codes.append((9, 0))
    return codes


def observe(fn):
    """Open the survivor the way a user would -- as a file-backed and as an in-memory ('simple') process tensor; classify.
    'clean' if EITHER way of opening it gives an object without the warning (OPENED_CLEAN_AS tells which), else 'warned' if
    either warns, else 'failed'."""
    if not os.path.exists(fn):
        return "missing", None
    outcomes, content = {}, None
    for kind in ("file", "simple"):
        try:
            with warnings.catch_warnings(record=True) as w:
                warnings.simplefilter("always")
                pt = ptm.import_process_tensor(fn, kind)
                warned = any("corrupt" in str(x.message) for x in w)
                try:
                    n = len(pt)
                    ncaps = 0
                    while pt.get_cap_tensor(ncaps) is not None:
                        ncaps += 1
                    c_ = [n, ncaps]
                except Exception:
                    c_ = None
                if kind == "file":
                    OBSERVED_NAMES[fn] = (pt.name, pt.description)
                    pt.close()
            outcomes[kind] = ("warned" if warned else "clean", c_)
        except Exception as ex:
            outcomes[kind] = ("failed", repr(ex)[:100])
    for want in ("clean", "warned", "failed"):
        for kind in ("file", "simple"):
            if outcomes[kind][0] == want:
                OPENED_AS[fn] = {k: v[0] for k, v in outcomes.items()}
                return want, outcomes[kind][1]


OPENED_AS = {}


def decision_table(chk, tmp):
    """modes x {existing, missing} x filename given; remove()"""
    out = []
    for mode in ("read", "write", "overwrite"):
        for exists in (False, True):
            fn = os.path.join(tmp, f"tab_{mode}_{exists}.hdf5")
            marker = None
            if exists:
                seed = ptm.FileProcessTensor("write", fn, 2, name="ORIGINAL")
                seed.close()
                marker = os.path.getsize(fn), open(fn, "rb").read()
            try:
                obj = ptm.FileProcessTensor(mode, fn, 3 if mode != "read" else None, name="NEW")
                if mode == "read":
                    res = 2
                else:
                    res = 1 if exists else 0
                obj.close()
                if exists and mode != "overwrite" and (not os.path.exists(fn) or open(fn, "rb").read() != marker[1]):
                    chk.fail("clobbered", f"mode '{mode}' modified (or deleted) an existing file", {"mode": mode})
                if exists and mode == "overwrite":
                    chk.search_cases += 1
                    back = ptm.FileProcessTensor("read", fn)
                    if back.name != "NEW":
                        res = -1
                    back.close()
            except Exception:
                res = 3
                if exists and (not os.path.exists(fn) or open(fn, "rb").read() != marker[1]):
                    chk.fail("clobbered", f"mode '{mode}' refused but {'deleted' if not os.path.exists(fn) else 'modified'} the existing file", {"mode": mode})
                if not exists and os.path.exists(fn) and mode == "read":
                    chk.fail("read-creates", "mode 'read' created a file", {})
            out.append(res)
            chk.case({"kind": "mode-table", "mode": mode, "exists": exists}, ("mode", mode, exists))
    for mode in ("read", "write", "overwrite"):
        for given in (False, True):
            fn = os.path.join(tmp, f"rm_{mode}_{given}.hdf5")
            if mode == "read":
                seed = ptm.FileProcessTensor("write", fn, 2)
                seed.close()
                if not given:           # read mode requires a filename: not constructible
                    out.append(0)
                    continue
                obj = ptm.FileProcessTensor("read", fn)
            else:
                obj = ptm.FileProcessTensor(mode, fn if given else None, 2)
            path = obj.filename
            try:
                obj.remove()
                res = 1
                if os.path.exists(path):
                    chk.fail("remove-noop", "remove() returned but the file is still there", {"mode": mode, "given": given})
            except FileExistsError:
                res = 0
                if not os.path.exists(path):
                    chk.fail("remove-refused-but-deleted", "remove() refused but deleted the file", {"mode": mode, "given": given})
            except Exception as ex:
                res = -1
                chk.fail("remove-crashes", f"remove() raised {ex!r}", {"mode": mode, "given": given})
            if os.path.exists(path) and not path.startswith(tmp):
                os.remove(path)
            out.append(res)
            chk.case({"kind": "remove-table", "mode": mode, "filename_given": given}, ("rm", mode, given))
            # the same entitlement after the object has been closed (close(); remove()): still refused / still granted
            fn2 = os.path.join(tmp, f"rmc_{mode}_{given}.hdf5")
            try:
                if mode == "read":
                    seed = ptm.FileProcessTensor("write", fn2, 2)
                    seed.close()
                    obj = ptm.FileProcessTensor("read", fn2)
                else:
                    obj = ptm.FileProcessTensor(mode, fn2 if given else None, 2)
                path = obj.filename
                obj.close()
                chk.search_cases += 1
                try:
                    obj.remove()
                    res2 = 1
                except FileExistsError:
                    res2 = 0
                gone = not os.path.exists(path)
                if res2 != res or gone != (res == 1):
                    chk.fail("remove-after-close", f"close(); remove() on a mode '{mode}' object ({'named' if given else 'temporary'} file): "
                             f"{'granted' if res2 else 'refused'}, file {'deleted' if gone else 'kept'}; on the open object remove() is {'granted' if res else 'refused'}",
                             {"mode": mode, "given": given})
                if os.path.exists(path) and not path.startswith(tmp):
                    os.remove(path)
            except Exception as ex:
                chk.fail("remove-crashes", f"close(); remove() raised {ex!r}", {"mode": mode, "given": given})
    return out


def close_remove_sequences(chk, tmp, exprs, expected, meta):
    """every sequence of up to three close() / remove() calls on a file object of every mode (named / temporary file): which
    calls are refused and whether the file exists afterwards, against Glue.fobj_flat (Model/PTFile.fo_run)"""
    import itertools
    n = 0
    for mi, mode in enumerate(("read", "write", "overwrite")):
        for given in (False, True):
            if mode == "read" and not given:
                continue
            for L in (1, 2, 3):
                for ops in itertools.product((0, 1), repeat=L):
                    fn = os.path.join(tmp, f"seq_{mode}_{int(given)}_{n}.hdf5")
                    n += 1
                    if mode == "read":
                        seed = ptm.FileProcessTensor("write", fn, 2)
                        seed.close()
                        obj = ptm.FileProcessTensor("read", fn)
                    else:
                        obj = ptm.FileProcessTensor(mode, fn if given else None, 2)
                    path = obj.filename
                    obs = []
                    for op in ops:
                        refused = 0
                        try:
                            obj.close() if op == 0 else obj.remove()
                        except FileExistsError:
                            refused = 1
                        except Exception as ex:
                            if not os.path.exists(path) and op == 1:
                                refused = 0           # removing a file that is already gone: not a refusal (FileNotFoundError)
                            else:
                                refused = 2
                        obs += [refused, 1 if os.path.exists(path) else 0]
                    if os.path.exists(path) and not path.startswith(tmp):
                        os.remove(path)
                    info = {"kind": "close-remove", "mode": mode, "filename_given": given, "ops": ["close" if o == 0 else "remove" for o in ops]}
                    exprs.append(f"fobj_flat {mi} {'true' if given else 'false'} {coq_list([str(o) for o in ops])}")
                    expected.append(obs)
                    meta.append(info)
                    chk.case(info, ("close-remove", mode, given, ops))
                    chk.search_cases += 1
                    # the property's own reading: never deleted unless entitled
                    entitled = mode == "overwrite" or (mode == "write" and not given)
                    if not entitled and 0 in obs[1::2]:
                        chk.fail("remove-after-close", f"a mode '{mode}' object ({'named' if given else 'temporary'} file) deleted its file in the sequence {info['ops']} "
                                 "although it is not entitled to", info)
    chk.count("close_remove_sequences", n)


def api_table(chk, tmp):
    """the same guards through the PT-TEMPO entry points (pt_tempo_compute, PtTempo): existing file x overwrite x unique"""
    import oqupy
    corr = oqupy.PowerLawSD(alpha=0.1, zeta=1, cutoff=3.0, cutoff_type="exponential")
    bath = oqupy.Bath(0.5 * oqupy.operators.sigma("z"), corr)
    par = oqupy.TempoParameters(dt=0.1, epsrel=1e-4, dkmax=2)
    k = 0
    tables = {}
    for entry in ("pt_tempo_compute", "PtTempo"):
        tables[entry] = []
        for unique in (False, True):
            for overwrite in (False, True):
                for exists in (False, True):
                    k += 1
                    fn = os.path.join(tmp, f"api_{k}.hdf5")
                    marker = None
                    if exists:
                        seed = ptm.FileProcessTensor("write", fn, 2, name="ORIGINAL")
                        seed.close()
                        marker = open(fn, "rb").read()
                    info = {"kind": "api-table", "entry": entry, "unique": unique, "overwrite": overwrite, "file_exists": exists}
                    chk.search_cases += 1
                    chk.count("api_table")
                    chk.case(info, ("api", entry, unique, overwrite, exists))
                    pt = None
                    try:
                        if entry == "pt_tempo_compute":
                            pt = oqupy.pt_tempo_compute(bath, 0.0, 0.2, parameters=par, unique=unique, process_tensor_file=fn, overwrite=overwrite,
                                                        progress_type="silent")
                        else:
                            pt = oqupy.PtTempo(bath, 0.0, 0.2, par, unique=unique, process_tensor_file=fn, overwrite=overwrite).get_process_tensor(progress_type="silent")
                        raised = False
                    except FileExistsError:
                        raised = True
                    except Exception as ex:
                        chk.fail("api-table-raises", f"{entry}(unique={unique}, overwrite={overwrite}) on {'an existing' if exists else 'a new'} file raises {ex!r}", info)
                        continue
                    code = 3 if raised else (0 if not exists else (1 if read_or_none(fn) != marker else 2))
                    tables[entry] += [code, -1]
                    if exists and not overwrite:
                        if not raised or read_or_none(fn) != marker:
                            chk.fail("clobbered", f"{entry}(unique={unique}, overwrite=False, process_tensor_file=<existing file>) "
                                     + ("did not refuse" if not raised else "refused") + " and the existing file "
                                     + ("was replaced" if read_or_none(fn) != marker else "is unchanged"), info)
                    elif raised:
                        chk.fail("api-table-raises", f"{entry}(unique={unique}, overwrite={overwrite}) refuses although "
                                 + ("overwriting was requested" if exists else "the file does not exist"), info)
                    if pt is not None:
                        # remove(): entitled only if the object may overwrite (or owns a temporary file)
                        try:
                            pt.remove()
                            removed = True
                        except FileExistsError:
                            removed = False
                            pt.close()
                        except Exception as ex:
                            chk.fail("remove-crashes", f"remove() raised {ex!r}", info)
                            continue
                        tables[entry][-1] = 1 if removed else 0
                        if removed != overwrite or (removed == os.path.exists(fn)):
                            chk.fail("remove-guard", f"{entry}(unique={unique}, overwrite={overwrite}): remove() "
                                     + ("deleted a file the object was not entitled to delete" if removed and not overwrite else
                                        "was refused although overwriting was requested" if not removed and overwrite else "is inconsistent with the file system"), info)
    return tables


def leftover_files(chk, tmp):
    """'creating a file never overwrites an existing one unless overwriting was requested', whatever the existing file is:
    a file left behind by an interrupted writer (flag still set, buffers flushed: it opens with the warning), a file that is not
    HDF5 at all, a complete file.  Every non-overwriting creation must refuse and leave the bytes alone."""
    import oqupy
    from harness.impl import quiet
    corr = oqupy.PowerLawSD(alpha=0.05, zeta=1, cutoff=3.0, cutoff_type="exponential")
    bath = oqupy.Bath(0.5 * oqupy.operators.sigma("z"), corr)
    par = oqupy.TempoParameters(dt=0.1, epsrel=1e-4, dkmax=2)
    src = os.path.join(tmp, "leftover_src.hdf5")
    w = ptm.FileProcessTensor("write", src, 2, name="INTERRUPTED")
    w.set_mpo_tensor(0, np.ones((1, 2, 4, 4), dtype=complex))
    w.set_cap_tensor(0, np.ones(1, dtype=complex))
    w._f.flush()
    interrupted = open(src, "rb").read()          # what is on disk while the writer is still at work
    w.close()
    complete = open(src, "rb").read()
    kinds = {"interrupted-writer": interrupted, "not-hdf5": b"this is not an HDF5 file\n" * 20, "complete": complete}

    def simple():
        pt = ptm.SimpleProcessTensor(2, dt=0.1)
        pt.set_mpo_tensor(0, np.ones((1, 1, 4), dtype=complex))
        pt.set_cap_tensor(0, np.ones(1, dtype=complex))
        pt.set_cap_tensor(1, np.ones(1, dtype=complex))
        return pt
    creators = {
        "FileProcessTensor('write')": lambda fn: ptm.FileProcessTensor("write", fn, 2),
        "SimpleProcessTensor.export(overwrite=False)": lambda fn: simple().export(fn, overwrite=False),
        "pt_tempo_compute(process_tensor_file, overwrite=False)": lambda fn: oqupy.pt_tempo_compute(bath, 0.0, 0.2, parameters=par, process_tensor_file=fn,
                                                                                                overwrite=False, progress_type="silent"),
        "PtTempo(process_tensor_file, overwrite=False)": lambda fn: oqupy.PtTempo(bath, 0.0, 0.2, par, process_tensor_file=fn, overwrite=False),
        # "not requested" in the other ways a caller can say it: the default, a numpy boolean (a flag computed from or read out of an array),
        # None, 0
        "SimpleProcessTensor.export()": lambda fn: simple().export(fn),
        "SimpleProcessTensor.export(overwrite=numpy.False_)": lambda fn: simple().export(fn, overwrite=np.False_),
        "SimpleProcessTensor.export(overwrite=numpy.all([True, False]))": lambda fn: simple().export(fn, overwrite=np.all([True, False])),
        "SimpleProcessTensor.export(overwrite=None)": lambda fn: simple().export(fn, overwrite=None),
        "SimpleProcessTensor.export(overwrite=0)": lambda fn: simple().export(fn, overwrite=0),
        "pt_tempo_compute(process_tensor_file)": lambda fn: oqupy.pt_tempo_compute(bath, 0.0, 0.2, parameters=par, process_tensor_file=fn, progress_type="silent"),
        "pt_tempo_compute(process_tensor_file, overwrite=numpy.False_)": lambda fn: oqupy.pt_tempo_compute(bath, 0.0, 0.2, parameters=par, process_tensor_file=fn,
                                                                                                        overwrite=np.False_, progress_type="silent"),
    }
    k = 0
    for kind, content in kinds.items():
        for cname, create in creators.items():
            k += 1
            fn = os.path.join(tmp, f"leftover_{k}.hdf5")
            open(fn, "wb").write(content)
            info = {"kind": "leftover-file", "existing_file": kind, "creator": cname}
            chk.search_cases += 1
            chk.count("leftover_files")
            chk.case(info, ("leftover", kind, cname))
            raised = None
            try:
                with warnings.catch_warnings():
                    warnings.simplefilter("ignore")
                    obj = quiet(create, fn)
                try:
                    obj.close()
                except Exception:
                    pass
            except Exception as ex:
                raised = ex
            if read_or_none(fn) != content:
                chk.fail("clobbered", f"{cname} on an existing file ({kind}) changed it although overwriting was not requested"
                         + ("" if raised is None else f" (and raised {raised!r})"), info)
            elif raised is None:
                chk.fail("create-on-existing-succeeds", f"{cname} on an existing file ({kind}) neither raised nor touched the file", info)


def clean_closes(chk, tmp):
    """'a file that was closed normally opens without such a warning and with complete content', whatever it contains: no cap
    tensors yet, fewer caps than MPO tensors + 1, nothing at all"""
    k = 0
    for variant in ("mpos-only", "empty", "one-cap", "export-without-caps", "export-one-cap"):
        k += 1
        fn = os.path.join(tmp, f"clean_{k}.hdf5")
        nm, nc = {"mpos-only": (2, 0), "empty": (0, 0), "one-cap": (2, 1), "export-without-caps": (2, 0), "export-one-cap": (2, 1)}[variant]
        if variant.startswith("export"):
            w = ptm.SimpleProcessTensor(2, dt=0.1)
        else:
            w = ptm.FileProcessTensor("write", fn, 2, dt=0.1)
        for j in range(nm):
            w.set_mpo_tensor(j, np.ones((1, 1, 4), dtype=complex) * (j + 1))
        for j in range(nc):
            w.set_cap_tensor(j, np.ones(1, dtype=complex))
        if variant.startswith("export"):
            w.export(fn)
        else:
            w.close()
        for kind in ("file", "simple"):
            info = {"kind": "clean-close", "content": variant, "import_type": kind}
            chk.search_cases += 1
            chk.count("clean_closes")
            chk.case(info, ("clean-close", variant, kind))
            try:
                with warnings.catch_warnings(record=True) as rec:
                    warnings.simplefilter("always")
                    back = ptm.import_process_tensor(fn, kind)
                n_back = len(back)
                vals_ok = all(np.array_equal(back.get_mpo_tensor(j, transformed=False).reshape(-1)[:1], [j + 1.0]) for j in range(n_back))
                if kind == "file":
                    back.close()
            except Exception as ex:
                chk.fail("clean-file-unreadable", f"a normally closed file ({variant}) cannot be imported as '{kind}': {ex!r}", info)
                continue
            if any("corrupt" in str(r_.message) or "writing" in str(r_.message) for r_ in rec):
                chk.fail("clean-file-warns", f"a normally closed file ({variant}) opens with the interrupted-writer warning ('{kind}' import)", info)
            if n_back != nm or not vals_ok:
                chk.fail("clean-file-incomplete", f"a normally closed file ({variant}) comes back with {n_back} of {nm} MPO tensors", info)


def run(chk):
    rng = chk.rng
    thorough = chk.tier == "thorough"
    chk.proofs()
    tmp = tempfile.mkdtemp(prefix="c17_")
    exprs, expected, meta = [], [], []
    try:
        # (a) decision tables, exhaustive
        exprs.append("mode_table")
        expected.append(decision_table(chk, tmp))
        meta.append({"kind": "tables"})

        for entry, tab in api_table(chk, tmp).items():
            # where the entry point refused there is no object to call remove() on: the model's grant is what a user would get
            exprs.append("api_table")
            expected.append(("api", tab))
            meta.append({"kind": "api-table", "entry": entry})

        leftover_files(chk, tmp)
        clean_closes(chk, tmp)
        close_remove_sequences(chk, tmp, exprs, expected, meta)

        # (b) crash enumeration on the real writers
        jobs = []
        shapes = [[1, 2, 1]] + ([[1, 3, 2, 1], [1, 1]] if thorough else [])
        for bonds in shapes:
            nops = 2 + (len(bonds) - 1) + len(bonds)       # create, set_initial, mpos, caps
            for flush in (True, False):
                for k in range(1, nops + 1):
                    jobs.append({"writer": "export", "d": 2, "bonds": bonds, "kill_at": k, "flush": flush})
                jobs.append({"writer": "export", "d": 2, "bonds": bonds, "kill_at": 0, "flush": flush, "kill_in_close": True})
            jobs.append({"writer": "export", "d": 2, "bonds": bonds, "kill_at": 0, "flush": False})   # completes
            for k in range(1, nops - 1):
                jobs.append({"writer": "export", "d": 2, "bonds": bonds, "kill_at": k, "flush": False, "death": "raise"})
        end = 0.4 if thorough else 0.3
        # a file-backed PT-TEMPO run: count its operations first, then kill at each
        probe = {"writer": "pttempo", "end": end, "kill_at": 0, "flush": False, "file": os.path.join(tmp, "probe.hdf5")}
        rc, nops_t, err = run_child(probe)
        full_t = observe(probe["file"])[1]
        if rc != 0 or not nops_t:
            chk.disagree("crash harness", f"probe PT-TEMPO run failed rc={rc} {err}")
            nops_t = 0
        for k in range(1, nops_t + 1):
            jobs.append({"writer": "pttempo", "end": end, "kill_at": k, "flush": True})
            if thorough:
                jobs.append({"writer": "pttempo", "end": end, "kill_at": k, "flush": False})
        if nops_t:
            jobs.append({"writer": "pttempo", "end": end, "kill_at": 0, "flush": True, "kill_in_close": True})
            for k in sorted(set([1, 2, nops_t // 2, nops_t - 1]) if not thorough else range(1, nops_t)):
                if 1 <= k < nops_t:
                    jobs.append({"writer": "pttempo", "end": end, "kill_at": k, "flush": False, "death": "raise"})
        # a write-mode file filled by hand and renamed / described at some point while it is being written, killed afterwards
        hb = [1, 2, 2, 1]
        probe_h = {"writer": "handfill", "bonds": hb, "rename_after": 2, "rename": "both", "kill_at": 0, "flush": False, "file": os.path.join(tmp, "probe_h.hdf5")}
        rc, nops_h, err = run_child(probe_h)
        if rc != 0 or not nops_h or observe(probe_h["file"])[0] != "clean":
            chk.disagree("crash harness", f"probe hand-filled file run failed rc={rc} {err} {observe(probe_h['file'])}")
            nops_h = 0
        for ra in ([0, 1, 3] if not thorough else range(0, max(1, nops_h - 1))):
            for what in (["both"] if not thorough else ["name", "description", "both"]):
                if ra == 1 and not thorough:
                    what = rng.choice(["name", "description"])
                for k in range(max(1, ra + 1), nops_h + 1):
                    jobs.append({"writer": "handfill", "bonds": hb, "rename_after": ra, "rename": what, "kill_at": k, "flush": True})
                    if thorough:
                        jobs.append({"writer": "handfill", "bonds": hb, "rename_after": ra, "rename": what, "kill_at": k, "flush": False})
                if nops_h:
                    jobs.append({"writer": "handfill", "bonds": hb, "rename_after": ra, "rename": what, "kill_at": 0, "flush": False})     # completes
        # every writer dying right after the file object has been constructed (between the creation of the file and the first
        # tensor written into it; for PT-TEMPO this window spans the whole propagation)
        for flush in (True, False):
            jobs.append({"writer": "export", "d": 2, "bonds": [1, 2, 1], "kill_at": -1, "flush": flush, "kill_after_init": True})
            jobs.append({"writer": "handfill", "bonds": hb, "rename_after": 99, "rename": "both", "kill_at": -1, "flush": flush, "kill_after_init": True})
            jobs.append({"writer": "pttempo", "end": end, "kill_at": -1, "flush": flush, "kill_after_init": True})
        for i, j in enumerate(jobs):
            j["file"] = os.path.join(tmp, f"crash_{i}.hdf5")
        with ThreadPoolExecutor(12) as ex:
            results = list(ex.map(run_child, jobs))
        for j, (rc, ops, err) in zip(jobs, results):
            outcome, content = observe(j["file"])
            completed = (j["kill_at"] == 0 and not j.get("kill_in_close"))
            chk.search_cases += 1
            rec = dict(j, outcome=outcome, content=content, rc=rc, opened_as=OPENED_AS.get(j["file"]))
            rec.pop("file")
            chk.count(f"{j['writer']}:{outcome}")
            chk.case(rec, (j["writer"], j["kill_at"], j["flush"], str(j.get("bonds")), bool(j.get("kill_in_close")), j.get("death", "kill"), j.get("rename_after"), j.get("rename")))
            # model (Glue.handfill_flat): what a flushed prefix of the hand-filling writer leaves -- flag, attributes, slots
            if j["writer"] == "handfill" and (j["flush"] or completed) and outcome in ("warned", "clean") and content is not None:
                nm_, ds_ = OBSERVED_NAMES.get(j["file"], (None, None))
                exprs.append(f"handfill_flat {NAME_IDS['first']} {NAME_IDS['initial']} " + coq_list([f"({a}, {b})%Z" for a, b in handfill_codes(j)]))
                expected.append([1 if outcome == "warned" else 0, NAME_IDS.get(nm_, -1), NAME_IDS.get(ds_, -1)] + content)
                meta.append({"kind": "handfill", "job": rec})
            if completed:
                if rc != 0:
                    chk.disagree("crash harness", f"uninterrupted writer failed: {err}")
                elif outcome != "clean":
                    chk.fail("clean-file-warns", f"a normally closed file opens as '{outcome}'", rec)
            else:
                if rc != (1 if j.get("death") == "raise" else 9) or (j.get("death") == "raise" and "Died" not in err):
                    chk.disagree("crash harness", f"child did not die where asked: rc={rc} {err}")
                elif outcome == "clean" and j.get("kill_in_close") and \
                        content == ([len(j["bonds"]) - 1, len(j["bonds"])] if j["writer"] == "export" else full_t):
                    pass    # died inside h5py's own close after the flag was reset: complete content, nothing missing
                elif outcome == "clean":
                    chk.fail("crash-undetected" if j.get("death") != "raise" else "exception-death-undetected",
                             ((f"writer killed after operation {j['kill_at']}" if not j.get("kill_after_init") else "writer killed right after the file object was constructed")
                              + f" ({'flushed' if j['flush'] else 'unflushed'}"
                              + (f"; {j['rename']} set after operation {j['rename_after']}" if j["writer"] == "handfill" else "") + "); " if j.get("death") != "raise" else
                              f"writer dies through an exception raised in write operation {j['kill_at']}; ")
                             + f"the file opens without error or warning (content {content})", rec)
                # model: flushed prefix of export must read back as the model's prefix state
                if j["writer"] == "export" and j["flush"] and outcome == "warned" and j["kill_at"] >= 1:
                    nm = max(0, min(len(j["bonds"]) - 1, j["kill_at"] - 2))
                    nc = max(0, j["kill_at"] - 2 - (len(j["bonds"]) - 1))
                    if content != [nm, nc]:
                        chk.disagree("crash prefix content", {"job": rec, "model": [nm, nc]})
    finally:
        shutil.rmtree(tmp, ignore_errors=True)

    vals, errs = run_cases("C17", HEADER, exprs)
    for e in errs:
        chk.disagree("coq evaluation", e)
    for v, exp, m in zip(vals, expected, meta):
        got = ints(v)
        if isinstance(exp, tuple):
            # API table: compare open outcomes everywhere, remove() grants where an object was returned (-1: none)
            tab = exp[1]
            ok = got is not None and len(got) == len(tab) and all(t == g or (i % 2 == 1 and t == -1) for i, (t, g) in enumerate(zip(tab, got)))
            if not ok:
                chk.disagree("api decision table", {"meta": m, "impl": tab, "model": got})
            continue
        if m.get("kind") == "close-remove":
            if got != exp:
                chk.disagree("close / remove sequence", {"case": m, "impl [refused, exists]*": exp, "model": got})
            continue
        if m.get("kind") == "handfill":
            if got != exp:
                chk.disagree("hand-filled file prefix", {"job": m["job"], "impl [flag, name, description, mpos, caps]": exp, "model": got})
            continue
        if got != exp:
            chk.disagree("decision table", {"impl": exp, "model": got})
            chk.fail("mode-table", f"file mode / remove decision table differs from the documented one: impl {exp} vs model {got}", {"impl": exp, "model": got})

    return chk.finish(
        level="proof",
        trusted=["model: Model/PTFile.v writer protocol; crash semantics 'Unreadable or any earlier state with the flag set' is an assumption about HDF5, "
                 "checked on the real library by killing the writer at every operation",
                 "os._exit in a child interpreter stands for process death"],
        rule="exhaustive mode x existence x filename tables; real export() and file-backed PT-TEMPO writers killed after every "
             "_set_data_and_shape call and inside close(), flushed and unflushed; distinct = (writer, kill point, flush, shape)",
        assumptions=["what HDF5 leaves on disk at a kill is observed, not modelled (runtime behaviour outside the model)"])
