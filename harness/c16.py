"""C16 — process tensors survive export, import and file-backed computation unchanged."""
import math
import os
import shutil
import tempfile
import warnings
import numpy as np
import oqupy
from oqupy import process_tensor as ptm

from harness.common import run_cases, ints, coq_list, zlit, glit, fbits
from harness.impl import gint, InjSystem, rand_intpt, quiet, IntPT

HEADER = """From Coq Require Import ZArith List Bool.
From OQ Require Import Lib.RingSum Model.PTFile Model.Glue.
Import ListNotations. Open Scope Z_scope."""

NAMES = [None, "pt", "a name", "x" * 30, " padded name ", "two lines\nsecond line\n", "\u00fcn\u00efc\u00f6d\u00e9 \u00b5\u2192\u03c1", "\ttab"]


# ---------------------------------------------------------------- flat printers (python side)

def flat_val(z):
    z = complex(z)
    if math.isnan(z.real) or math.isnan(z.imag):
        return [0, 0, 0]
    return [1, int(z.real), int(z.imag)]


def flat_tensor(t):
    t = np.asarray(t)
    out = [t.ndim] + list(t.shape)
    for z in t.reshape(-1):
        out += flat_val(z)
    return out


def flat_otensor(t):
    return [0] if t is None else [1] + flat_tensor(t)


def undelta(t, want_rank):
    """SimpleProcessTensor.get_mpo_tensor(transformed=False) expands a stored rank-3 tensor to
    rank 4 with a delta; undo that (only if it really is delta-shaped)."""
    t = np.asarray(t)
    if want_rank == 3 and t.ndim == 4 and t.shape[2] == t.shape[3]:
        diag = np.einsum("abii->abi", t)
        if np.array_equal(np.einsum("abi,io->abio", diag, np.eye(t.shape[2])), t):
            return diag
    return t


def flat_pt(pt, name_id, desc_id, ranks, nmax=50):
    """flatten what the public getters of a process tensor object return."""
    out = [1, pt.hilbert_space_dimension]
    out += [0] if pt.dt is None else [1] + fbits(pt.dt)
    out += flat_otensor(pt.transform_in) + flat_otensor(pt.transform_out)
    out += [name_id, desc_id]
    out += flat_otensor(pt.get_initial_tensor())
    n = len(pt)
    out += [n]
    for k in range(n):
        out += flat_tensor(undelta(pt.get_mpo_tensor(k, transformed=False), ranks[k] if k < len(ranks) else 4))
    caps = []
    for k in range(nmax):
        c = pt.get_cap_tensor(k)
        if c is None:
            break
        caps.append(c)
    out += [len(caps)]
    for c in caps:
        out += flat_tensor(c)
    return out


# ---------------------------------------------------------------- Coq literals

def val_lit(z):
    z = complex(z)
    if math.isnan(z.real) or math.isnan(z.imag):
        return "None"
    return f"Some {glit(z)}"


def ftensor_lit(t):
    t = np.asarray(t)
    shape = coq_list([str(s) for s in t.shape])
    data = coq_list([val_lit(z) for z in t.reshape(-1)])
    return f"({shape}%nat, {data})"


def oft_lit(t):
    return "None" if t is None else f"(Some {ftensor_lit(t)})"


def spt_lit(p, name_id, desc_id):
    dt = "None" if p.dt is None else "(Some (%s, %s, %s))" % tuple(zlit(x) for x in fbits(p.dt))
    return (f"(mkspt {p.hs_dim} {dt} {oft_lit(p.tin)} {oft_lit(p.tout)} {name_id} {desc_id} {oft_lit(getattr(p, 'init', None))} "
            f"{coq_list([ftensor_lit(m) for m in p.mpos])} {coq_list([ftensor_lit(c) for c in p.caps])})")


def build_named(p, name, desc, fortran=False):
    """fortran: tensors and transforms are handed over in Fortran memory order (same values)"""
    lay = (lambda x: np.asfortranarray(x) if x is not None else None) if fortran else (lambda x: x)
    pt = ptm.SimpleProcessTensor(p.hs_dim, dt=p.dt, transform_in=lay(p.tin), transform_out=lay(p.tout),
                                 name=name, description=desc)
    for k, m in enumerate(p.mpos):
        pt.set_mpo_tensor(k, lay(m))
    for k, c in enumerate(p.caps):
        pt.set_cap_tensor(k, c)
    if getattr(p, "init", None) is not None:
        pt.set_initial_tensor(lay(p.init))
    return pt


def states_of(d, pt, props, rho0, N):
    dyn = quiet(oqupy.compute_dynamics, InjSystem(d, props), initial_state=rho0.copy(),
                dt=(0.1 if pt.dt is None else None),
                num_steps=N, process_tensor=pt, progress_type="silent")
    return np.array(dyn.states)


def run(chk):
    rng = chk.rng
    thorough = chk.tier == "thorough"
    chk.proofs()
    n = 150 if thorough else 50
    tmp = tempfile.mkdtemp(prefix="c16_", dir="/dev/shm" if os.path.isdir("/dev/shm") else None)
    exprs, expected, meta = [], [], []
    try:
        for i in range(n):
            d = rng.choice([1, 2, 2])
            N = rng.randint(1, 4)
            # transforms: none / both / only on the input leg / only on the output leg (the last two forced in every run)
            tr = ["in", "out", True, False][i] if i < 4 else rng.choice([False, False, False, True, True, "in", "out"])
            p = rand_intpt(rng, d, N, maxbond=3, transforms=tr, lo=-2, hi=2)
            p.dt = rng.choice([None, 0.1, 0.25, 1 / 3])
            # an initial tensor (the initial state encoded in the process tensor) in a third of the cases, forced for i == 4, 5
            p.init = gint(rng, (p.mpos[0].shape[0], d * d), -2, 2) if (i in (4, 5) or rng.random() < 0.3) else None
            # malformed stream: a cap tensor equal to the 1-element NaN array (the sentinel)
            sentinel = rng.random() < 0.1
            if sentinel:
                k = rng.randrange(len(p.caps))
                if p.caps[k].shape == (1,):
                    p.caps[k] = np.array([np.nan + 0j])
                else:
                    sentinel = False
            name, desc = rng.choice(NAMES), rng.choice(NAMES)
            nid = 1 + NAMES.index(name)
            did = 10 + NAMES.index(desc)
            pt = build_named(p, name, desc, fortran=(i % 3 == 1))
            # a small pool of file names, re-used with overwrite=True: what is imported must be what was exported LAST
            fn = os.path.join(tmp, f"pt_{i % 3}.hdf5")
            m = {"d": d, "N": N, "dt": p.dt, "ranks": [x.ndim for x in p.mpos], "transforms": {True: "both", False: "none"}.get(tr, tr),
                 "bonds": [x.shape[1] for x in p.mpos], "sentinel_cap": sentinel, "initial_tensor": p.init is not None}
            try:
                pt.export(fn, overwrite=i >= 3)
            except Exception as ex:
                chk.search_cases += 1
                chk.fail("export-raises", f"export() of a well-formed process tensor (transforms: {m['transforms']}) raises {ex!r}", m)
                continue
            for kind in ("file", "simple"):
                try:
                    with warnings.catch_warnings(record=True) as w:
                        warnings.simplefilter("always")
                        imp = ptm.import_process_tensor(fn, kind)
                    names_ok = (imp.name == (name if name is not None else "__unnamed__")
                                and imp.description == (desc if desc is not None else "__no_description__"))
                    flat = flat_pt(imp, nid if names_ok else -1, did if names_ok else -1, m['ranks'])
                    exprs.append(f"roundtrip_flat {spt_lit(p, nid, did)}")
                    expected.append(flat)
                    meta.append(dict(m, import_type=kind))
                    chk.case(meta[-1], (kind, d, N, str(m["ranks"]), str(m["bonds"]), m["transforms"], p.dt is None, sentinel))
                    chk.count("import_" + kind)
                    chk.search_cases += 1
                    if w:
                        chk.fail("clean-file-warns", f"import of a normally closed file warns: {w[0].message}", dict(m, import_type=kind))
                    # property oracle on the implementation: same object, usable with identical results
                    if not sentinel:
                        ok = (len(imp) == len(pt) and imp.dt == pt.dt and imp.hilbert_space_dimension == d
                              and np.array_equal(imp.get_bond_dimensions(), pt.get_bond_dimensions())
                              and all(np.array_equal(imp.get_mpo_tensor(k), pt.get_mpo_tensor(k)) for k in range(N))
                              and all(np.array_equal(imp.get_cap_tensor(k), pt.get_cap_tensor(k)) for k in range(N + 1))
                              and (imp.get_initial_tensor() is None) == (p.init is None)
                              and (p.init is None or np.array_equal(imp.get_initial_tensor(), pt.get_initial_tensor()))
                              and (imp.transform_in is None) == (pt.transform_in is None)
                              and (imp.transform_out is None) == (pt.transform_out is None)
                              and (pt.transform_in is None or np.array_equal(imp.transform_in, pt.transform_in))
                              and (pt.transform_out is None or np.array_equal(imp.transform_out, pt.transform_out)))
                        if not ok:
                            chk.fail("roundtrip-differs", f"import_process_tensor(..., '{kind}') differs from the exported object", dict(m, import_type=kind))
                        d2 = d * d
                        props = [(gint(rng, (d2, d2), -1, 1), gint(rng, (d2, d2), -1, 1)) for _ in range(N)]
                        rho0 = gint(rng, (d, d), -2, 2)
                        try:
                            # (compute_dynamics does not take process tensors that carry an initial tensor)
                            a = states_of(d, pt, props, rho0, N) if p.init is None else np.zeros(1)
                            b = states_of(d, imp, props, rho0, N) if p.init is None else np.zeros(1)
                            if not np.array_equal(a, b):
                                chk.fail("imported-results-differ", f"compute_dynamics on the imported ('{kind}') process tensor differs", dict(m, import_type=kind))
                        except Exception as ex:
                            chk.fail("imported-unusable", f"compute_dynamics rejects the imported ('{kind}') process tensor: {ex!r}", dict(m, import_type=kind))
                    if kind == "file":
                        imp.close()
                except Exception as ex:
                    chk.search_cases += 1
                    chk.fail("imported-raises", f"using the process tensor imported as '{kind}' raises {ex!r} (the exported object does not)", dict(m, import_type=kind))
            chk.count("sentinel" if sentinel else "regular", 1)

        # ---- every consumer gives identical results on the imported object: correlations, gradient, PT-TEBD ------------
        from harness.c08 import InjParamSystem
        for i in range(18 if thorough else 6):
            d, d2 = 2, 4
            N = rng.randint(2, 3)
            p = rand_intpt(rng, d, N, maxbond=2, transforms=rng.random() < 0.5, lo=-1, hi=1, last_trivial=True)
            p.dt = 0.1
            pt = p.build()
            fn = os.path.join(tmp, f"cons_{i % 2}.hdf5")
            try:
                pt.export(fn, overwrite=True)
            except Exception as ex:
                chk.fail("export-raises", f"export() of a well-formed process tensor raises {ex!r}", {"kind": "consumers", "N": N, "transforms": p.tin is not None})
                continue
            props = [(gint(rng, (d2, d2), -1, 1), gint(rng, (d2, d2), -1, 1)) for _ in range(N)]
            dprops = [([gint(rng, (d2, d2), -1, 1)], [gint(rng, (d2, d2), -1, 1)]) for _ in range(N)]
            rho0, tgt = gint(rng, (d, d), -2, 2), gint(rng, (d, d), -1, 1)
            opa, opb = gint(rng, (d, d), -1, 1), gint(rng, (d, d), -1, 1)

            def consumers(obj):
                out = {}
                cr = quiet(oqupy.compute_correlations, InjSystem(d, props), obj, opa, opb, times_a=slice(0, N), times_b=slice(0, N + 1),
                           time_order="ordered", initial_state=rho0.copy(), progress_type="silent")
                out["correlations"] = np.nan_to_num(np.array(cr[1]), nan=-777.0)
                g = quiet(oqupy.state_gradient, system=InjParamSystem(d, props, dprops), initial_state=rho0.copy(), target_derivative=tgt.copy(),
                          process_tensors=[obj], parameters=np.zeros((2 * N, 1)), progress_type="silent")
                out["gradient"] = np.array(g["gradient"])
                chain = oqupy.SystemChain([d, d])
                chain.add_site_hamiltonian(0, 0.3 * oqupy.operators.sigma("x"))
                chain.add_nn_hamiltonian(0, 0.5 * oqupy.operators.sigma("z"), oqupy.operators.sigma("z"))
                tb = oqupy.PtTebd(oqupy.AugmentedMPS([np.eye(2) / 2 + 0.2 * oqupy.operators.sigma("x"), oqupy.operators.spin_dm("z+")]), chain, [obj, None],
                                  oqupy.PtTebdParameters(dt=0.1, order=1, epsrel=1e-10), dynamics_sites=[0, 1])
                r_ = quiet(tb.compute, N, progress_type="silent")
                out["pt-tebd"] = np.concatenate([np.array(r_["dynamics"][k].states).reshape(-1) for k in (0, 1)])
                return out
            info = {"kind": "consumers", "N": N, "transforms": p.tin is not None, "ranks": [x.ndim for x in p.mpos]}
            try:
                base = consumers(pt)
                for kind in ("file", "simple"):
                    imp = ptm.import_process_tensor(fn, kind)
                    got = consumers(imp)
                    if kind == "file":
                        imp.close()
                    chk.search_cases += 1
                    chk.count("consumers_" + kind)
                    for name in base:
                        if base[name].shape != got[name].shape or not np.allclose(base[name], got[name], rtol=0, atol=1e-9 * max(1.0, np.abs(base[name]).max())):
                            chk.fail("imported-results-differ", f"{name} on the imported ('{kind}') process tensor differs from the original by "
                                     f"{np.abs(base[name] - got[name]).max() if base[name].shape == got[name].shape else float('nan'):.2e}", dict(info, import_type=kind, consumer=name))
            except Exception as ex:
                chk.fail("imported-raises", f"a consumer of the imported process tensor raises {ex!r}", info)
            chk.case(info, ("consumers", N, p.tin is not None, str(info["ranks"]), i))

        # ---- name / description given to a file-backed process tensor AFTER its file was created (default 'write' mode, and
        # 'overwrite'): what is imported later carries the names the object had when it was closed -------------------------------
        for j, (mode_, via) in enumerate([("write", "FileProcessTensor"), ("overwrite", "FileProcessTensor"), ("write", "pt_tempo_compute")]):
            fn_ = os.path.join(tmp, f"renamed_{j}.hdf5")
            info = {"kind": "renamed-after-creation", "mode": mode_, "created_by": via}
            chk.search_cases += 1
            chk.count("renamed_after_creation")
            chk.case(info, ("renamed", mode_, via))
            try:
                if via == "FileProcessTensor":
                    fpt = ptm.FileProcessTensor(mode_, fn_, 2, dt=0.1, name="first name", description="first description")
                    fpt.set_mpo_tensor(0, np.ones((1, 1, 4), dtype=complex))
                    fpt.set_cap_tensor(0, np.ones(1, dtype=complex))
                    fpt.set_cap_tensor(1, np.ones(1, dtype=complex))
                else:
                    corr_ = oqupy.PowerLawSD(alpha=0.1, zeta=1, cutoff=3.0, cutoff_type="exponential")
                    fpt = quiet(oqupy.pt_tempo_compute, oqupy.Bath(0.5 * oqupy.operators.sigma("z"), corr_), 0.0, 0.2,
                                parameters=oqupy.TempoParameters(dt=0.1, epsrel=1e-5, dkmax=2), process_tensor_file=fn_, progress_type="silent")
                fpt.name = "renamed \u03c1"
                fpt.description = "described after the computation\n"
                live = (fpt.name, fpt.description)
                fpt.close()
                got_names = []
                for kind in ("file", "simple"):
                    with warnings.catch_warnings():
                        warnings.simplefilter("ignore")
                        back = ptm.import_process_tensor(fn_, kind)
                    got_names.append((back.name, back.description))
                    if kind == "file":
                        back.close()
            except Exception as ex:
                chk.fail("imported-raises", f"renaming a file-backed process tensor ({via}, mode '{mode_}') raises {ex!r}", info)
                continue
            if live != ("renamed \u03c1", "described after the computation\n") or any(g_ != live for g_ in got_names):
                chk.fail("roundtrip-differs", f"a file-backed process tensor ({via}, mode '{mode_}') renamed after its creation comes back as {got_names} "
                         f"(the object said {live})", info)

        # ---- a process tensor filled by hand into a write-mode file vs the same tensors in memory: both close their own caps
        # (compute_caps), then the file is closed and imported again; caps and dynamics agree throughout ------------------------
        for j in range(12 if thorough else 5):
            d = 2 if j < 4 else rng.choice([1, 2])
            N = rng.randint(2, 4)
            tr = [True, "in", "out", False][j % 4]                 # j == 0: rank-4 tensors with (non-unitary) transforms on both legs
            p = rand_intpt(rng, d, N, maxbond=3, transforms=tr, lo=-2, hi=2, last_trivial=True)
            if j == 0:
                while not any(x.ndim == 4 for x in p.mpos):
                    p = rand_intpt(rng, d, N, maxbond=3, transforms=tr, lo=-2, hi=2, last_trivial=True)
            fn_ = os.path.join(tmp, f"hand_{j}.hdf5")
            info = {"kind": "hand-filled-file", "d": d, "N": N, "ranks": [x.ndim for x in p.mpos], "transforms": {True: "both", False: "none"}.get(tr, tr)}
            chk.search_cases += 1
            chk.count("hand_filled_file")
            chk.case(info, ("hand", d, N, str(info["ranks"]), info["transforms"], j))
            try:
                mem_ = ptm.SimpleProcessTensor(d, dt=0.1, transform_in=p.tin, transform_out=p.tout)
                fil_ = ptm.FileProcessTensor("write", fn_, d, dt=0.1, transform_in=p.tin, transform_out=p.tout)
                for k_, m_ in enumerate(p.mpos):
                    mem_.set_mpo_tensor(k_, m_)
                    fil_.set_mpo_tensor(k_, m_)
                mem_.compute_caps()
                fil_.compute_caps()
                d2 = d * d
                props = [(gint(rng, (d2, d2), -1, 1), gint(rng, (d2, d2), -1, 1)) for _ in range(N)]
                rho0 = gint(rng, (d, d), -2, 2)
                ref_caps = [np.array(mem_.get_cap_tensor(k_)) for k_ in range(N + 1)]
                ref_dyn = states_of(d, mem_, props, rho0, N)
                def differs(ob_):
                    caps_ = [ob_.get_cap_tensor(k_) for k_ in range(N + 1)]
                    if any(c_ is None or np.array(c_).shape != r_.shape or not np.allclose(c_, r_, rtol=1e-9, atol=1e-9) for c_, r_ in zip(caps_, ref_caps)):
                        return "cap tensors"
                    dy_ = states_of(d, ob_, props, rho0, N)
                    if dy_.shape != ref_dyn.shape or not np.allclose(dy_, ref_dyn, rtol=1e-9, atol=1e-9):
                        return "dynamics"
                    return None
                bad = differs(fil_)
                where = "the write-mode file object"
                fil_.close()
                for kind in ("file", "simple"):
                    if bad is None:
                        back_ = ptm.import_process_tensor(fn_, kind)
                        bad, where = differs(back_), f"the file imported as '{kind}'"
                        if kind == "file":
                            back_.close()
            except Exception as ex:
                chk.fail("imported-raises", f"a hand-filled file-backed process tensor raises {ex!r}", info)
                continue
            if bad:
                chk.fail("file-backed-caps-differ", f"hand-filled process tensor (ranks {info['ranks']}, transforms {info['transforms']}): {bad} of {where} differ from "
                         "those of the in-memory process tensor holding the same tensors (both after compute_caps())", info)

        # ---- large bond dimensions (above 127, 255 and, in the thorough tier, beyond 32767 entries per leg is out of reach; 130 / 200 /
        # 300): lengths, bond dimensions, tensors and caps come back identical ----------------------------------------------------
        for j in range(3 if thorough else 1):
            d = 1 if j % 2 == 0 else 2
            bonds = [1] + rng.sample([130, 200, 300, 128, 257], 2) + [1]
            g_ = np.random.default_rng(chk.seed + j)
            big = ptm.SimpleProcessTensor(d, dt=0.1, name="large bonds")
            for k_ in range(3):
                big.set_mpo_tensor(k_, g_.integers(-2, 3, (bonds[k_], bonds[k_ + 1], d * d)).astype(complex))
            for k_ in range(4):
                big.set_cap_tensor(k_, g_.integers(-2, 3, (bonds[k_],)).astype(complex))
            fn_ = os.path.join(tmp, f"big_{j}.hdf5")
            info = {"kind": "large-bonds", "d": d, "bonds": bonds}
            chk.search_cases += 1
            chk.count("large_bonds")
            chk.case(info, ("big", d, tuple(bonds)))
            try:
                big.export(fn_, overwrite=True)
                for kind in ("file", "simple"):
                    back_ = ptm.import_process_tensor(fn_, kind)
                    ok_ = (len(back_) == 3 and list(back_.get_bond_dimensions()) == list(big.get_bond_dimensions())
                           and all(np.array_equal(back_.get_mpo_tensor(k_), big.get_mpo_tensor(k_)) for k_ in range(3))
                           and all(np.array_equal(back_.get_cap_tensor(k_), big.get_cap_tensor(k_)) for k_ in range(4)))
                    if kind == "file":
                        back_.close()
                    if not ok_:
                        chk.fail("roundtrip-differs", f"a process tensor with bond dimensions {bonds} comes back different from import_process_tensor(..., '{kind}')", dict(info, import_type=kind))
                        break
            except Exception as ex:
                chk.fail("imported-raises", f"export / import of a process tensor with bond dimensions {bonds} raises {ex!r}", info)

        # ---- file-backed PT-TEMPO vs in-memory (same float operations) ----------
        sx_, sy_, sz_ = (oqupy.operators.sigma(a) for a in "xyz")
        for j in list(range(6 if thorough else 3)) + [100, 101]:
            corr = oqupy.PowerLawSD(alpha=0.1 + 0.1 * (j % 3), zeta=1, cutoff=3.0, cutoff_type="exponential", temperature=0.2 * (j % 3))
            # diagonal (no transforms), complex eigenbasis, real non-diagonal eigenbasis, generic Hermitian 3x3, ...
            if j >= 100:
                # every run: coupling operators that are ALMOST diagonal (off-diagonal elements of 5e-8 / 1e-3 beside a level
                # splitting of 10 / 1): both routes must take the same decision about basis transforms
                op = (np.diag([-5.0, 5.0]) + 5e-8 * sx_) if j == 100 else (np.diag([-0.5, 0.5]) + 1e-3 * (sx_ + sy_))
                op = 2 * op.astype(complex)
            elif j % 6 == 3:
                z = np.array([[rng.gauss(0, 1) + 1j * rng.gauss(0, 1) for _ in range(3)] for _ in range(3)])
                q, _ = np.linalg.qr(z)
                op = q @ np.diag([1.0, 0.0, -0.5]) @ q.conj().T
                op = (op + op.conj().T)
            else:
                op = [sz_, 0.6 * sx_ + 0.8 * sy_, sx_ + 0.3 * sz_, None, sy_ + 0.2 * sz_, sz_][j % 6]
            bath = oqupy.Bath(0.5 * op, corr)
            par = oqupy.TempoParameters(dt=0.1, epsrel=1e-6, dkmax=3)  # tolerance below: 1e3*epsrel
            fn = os.path.join(tmp, f"tempo_{j}.hdf5")
            mem = quiet(oqupy.pt_tempo_compute, bath, 0.0, 0.5, parameters=par, progress_type="silent")
            fil = quiet(oqupy.pt_tempo_compute, bath, 0.0, 0.5, parameters=par, process_tensor_file=fn, progress_type="silent")
            chk.search_cases += 1
            # The two computations are separate numerical runs: tensors may differ by an SVD gauge /
            # truncation-level amount, so compare gauge-invariant content: metadata and the dynamics
            # both process tensors produce for a test system (tolerance 1e3 * epsrel).
            dd = op.shape[0]
            hh = np.array([[rng.gauss(0, 1) + 1j * rng.gauss(0, 1) for _ in range(dd)] for _ in range(dd)])
            sysm = oqupy.System((hh + hh.conj().T) / 3)
            rr = hh @ hh.conj().T
            rho0 = rr / np.trace(rr)
            dm = quiet(oqupy.compute_dynamics, sysm, initial_state=rho0, process_tensor=mem, progress_type="silent")
            df = quiet(oqupy.compute_dynamics, sysm, initial_state=rho0, process_tensor=fil, progress_type="silent")
            same = (len(mem) == len(fil) and mem.dt == fil.dt
                    and (mem.transform_in is None) == (fil.transform_in is None)
                    and (mem.transform_in is None or np.allclose(mem.transform_in, fil.transform_in, atol=1e-12))
                    and (mem.transform_out is None) == (fil.transform_out is None)
                    and (mem.transform_out is None or np.allclose(mem.transform_out, fil.transform_out, atol=1e-12))
                    and mem.hilbert_space_dimension == fil.hilbert_space_dimension
                    and np.allclose(np.array(dm.states), np.array(df.states), rtol=0, atol=1e-3))
            if not same:
                chk.fail("file-backed-pttempo-differs", "PT-TEMPO writing to a file differs from the in-memory computation "
                         f"(max state difference {np.abs(np.array(dm.states) - np.array(df.states)).max():.2e})", {"case": j})
            # pure I/O: what the file object holds before close() is what is read back afterwards (exact)
            held = [fil.get_mpo_tensor(k, transformed=False) for k in range(len(fil))]
            held_caps = [fil.get_cap_tensor(k) for k in range(len(fil) + 1)]
            fil.close()
            with warnings.catch_warnings(record=True) as w:
                warnings.simplefilter("always")
                back = ptm.import_process_tensor(fn, "file")
            ok = (not w) and len(back) == len(held) and all(np.array_equal(back.get_mpo_tensor(k, transformed=False), held[k]) for k in range(len(held))) \
                and all(np.array_equal(back.get_cap_tensor(k), held_caps[k]) for k in range(len(held_caps)))
            back.close()
            if not ok:
                chk.fail("file-backed-pttempo-reimport", "re-imported PT-TEMPO file differs from what was written / warns", {"case": j, "warn": [str(x.message) for x in w]})
    finally:
        shutil.rmtree(tmp, ignore_errors=True)

    vals, errs = run_cases("C16", HEADER, exprs, chunk=40)
    for e in errs:
        chk.disagree("coq evaluation", e)
    for v, exp, m in zip(vals, expected, meta):
        got = ints(v)
        if got != exp:
            chk.disagree("export/import", {"meta": m, "impl": exp[:60], "model": (got or [])[:60]})
            if not m["sentinel_cap"]:
                chk.fail("roundtrip-differs", f"import_process_tensor(..., '{m['import_type']}') is not the identity on the exported object", m)

    return chk.finish(
        level="proof",
        trusted=["model: Model/PTFile.v (abstract HDF5 container: slots, sentinel, export/import loops)",
                 "h5py / HDF5 themselves are not modelled; the correspondence runs through the real h5py"],
        rule="hand-built integer process tensors (lengths 1-4, rank 3/4, bond dims 1-3, with/without dt, transforms, names) exported and "
             "re-imported as 'file' and 'simple'; 10% carry a sentinel (NaN) cap tensor; distinct = (type, d, N, ranks, bonds, transforms, dt, sentinel)",
        assumptions=["consumers other than compute_dynamics (correlations, gradient, PT-TEBD) receive the same tensors through the same getters; "
                     "they are exercised on imported objects in the thorough tier of C07/C08/C10"])
