"""C10 — PT-TEBD chain dynamics are exact where checkable, in every execution mode."""
import json
import os
import subprocess
import sys
import numpy as np
from scipy.linalg import expm
import oqupy
from oqupy.mps_mpo import compute_tebd_propagator

from harness.common import run_cases, ints, coq_list, REPO
from harness.impl import quiet

HEADER = """From Coq Require Import Arith List Bool.
From OQ Require Import Model.Chain.
Import ListNotations."""

SX, SY, SZ = (oqupy.operators.sigma(a) for a in "xyz")
SM = oqupy.operators.sigma("-")

CHILD = r'''
import sys, json, random, time
import numpy as np
import oqupy
import oqupy.backends.pt_tebd_backend as be
mode, delay = sys.argv[1], sys.argv[2] == "delay"
if delay:
    orig = be.apply_nn_gate
    rnd = random.Random(5)
    def slow(data):
        time.sleep(rnd.choice([0.0, 0.002, 0.006]))
        return orig(data)
    be.apply_nn_gate = slow
sx, sz = oqupy.operators.sigma("x"), oqupy.operators.sigma("z")
L = int(sys.argv[3])
chain = oqupy.SystemChain([2] * L)
for i in range(L):
    chain.add_site_hamiltonian(i, (0.5 + 0.1 * i) * sz)
for i in range(L - 1):
    chain.add_nn_hamiltonian(i, 0.7 * sx, sx)
    chain.add_nn_hamiltonian(i, 0.2 * sz, sz)
mps = oqupy.AugmentedMPS([oqupy.operators.spin_dm(["z+", "x+", "z-", "y+", "x-", "y-"][i % 6]) for i in range(L)])
cfg = {} if mode == "none" else {"parallel": mode}
p = oqupy.PtTebd(mps, chain, [None] * L, oqupy.PtTebdParameters(dt=0.1, order=2, epsrel=1e-9), dynamics_sites=list(range(L)) + [(L - 2, L - 1)], backend_config=cfg)
r = p.compute(3, progress_type="silent")
out = []
for k in r["dynamics"]:
    for s in r["dynamics"][k].states:
        out += [float(x) for x in np.array(s).reshape(-1).real] + [float(x) for x in np.array(s).reshape(-1).imag]
print("RESULT " + json.dumps(out))
'''


def run_mode(mode, delay=False, L=4):
    env = dict(os.environ, PYTHONPATH=REPO, PYTHONHASHSEED="0")
    p = subprocess.run([sys.executable, "-c", CHILD, mode, "delay" if delay else "no", str(L)], env=env, stdout=subprocess.PIPE,
                       stderr=subprocess.PIPE, text=True, timeout=600)
    for l in p.stdout.splitlines():
        if l.startswith("RESULT "):
            return np.array(json.loads(l[7:])), None
    return None, (p.stderr or p.stdout)[-600:]


def ptrace(rho, keep, n):
    """partial trace of an n-qubit density matrix keeping the sites in `keep`"""
    t = rho.reshape([2] * (2 * n))
    drop = [i for i in range(n) if i not in keep]
    for cnt, i in enumerate(sorted(drop, reverse=True)):
        m = t.ndim // 2
        t = np.trace(t, axis1=i, axis2=i + m)
    k = len(keep)
    return t.reshape(2 ** k, 2 ** k)


def run(chk):
    rng = chk.rng
    thorough = chk.tier == "thorough"
    chk.proofs()
    exprs, expected, meta = [], [], []
    # ---- (a) gate layers and (b) site weights, exactly ------------------------------------------
    for n in range(2, 9 if thorough else 7):
        chain = oqupy.SystemChain([2] * n)
        cs = [3 + 2 * i for i in range(n)]
        for i in range(n):
            chain.add_site_hamiltonian(i, cs[i] * SZ)
        for order in (1, 2):
            prop = compute_tebd_propagator(chain, 0.1, 1e-9, order)
            got = []
            for layer in prop.gate_layers:
                sites = [g.sites[0] for g in layer.gates]
                if any(list(g.sites) != [g.sites[0], g.sites[0] + 1] for g in layer.gates):
                    chk.fail("gate-sites", "a nearest-neighbour gate does not act on (l, l+1)", {"n": n, "order": order})
                got += [len(sites)] + sites
            exprs.append(f"flat_map (fun l => length l :: l) (layers {n} {order})")
            expected.append(got)
            meta.append({"kind": "layers", "n": n, "order": order})
            chk.case(meta[-1], ("layers", n, order))
        Lz = -1j * oqupy.operators.commutator(SZ)
        full = chain.get_nn_full_liouvillians()
        got = []
        for b in range(n - 1):
            A = np.stack([np.kron(Lz, np.eye(4)).reshape(-1), np.kron(np.eye(4), Lz).reshape(-1)], axis=1)
            sol = np.linalg.lstsq(A, np.array(full[b]).reshape(-1), rcond=None)[0]
            wl, wr = 2 * sol[0] / cs[b], 2 * sol[1] / cs[b + 1]
            row = [0] * n
            row[b], row[b + 1] = int(round(wl.real)), int(round(wr.real))
            if abs(wl - row[b]) > 1e-9 or abs(wr - row[b + 1]) > 1e-9:
                chk.fail("site-weight", "get_nn_full_liouvillians: site term with a weight that is not 1/2 or 1", {"n": n, "bond": b})
            got += row
        exprs.append(f"flat_map (fun b => map (fun i => weight2 {n} b i) (seq 0 {n})) (bonds {n})")
        expected.append(got)
        meta.append({"kind": "weights", "n": n})
        chk.case(meta[-1], ("weights", n))
        chk.search_cases += 1
        tot = np.array(got).reshape(n - 1, n).sum(axis=0)
        if list(tot) != [2] * n:
            chk.fail("site-weight-total", f"a site Liouvillian is counted with total weight {list(tot / 2)} (chain length {n})", {"n": n})

    vals, errs = run_cases("C10", HEADER, exprs)
    for e in errs:
        chk.disagree("coq evaluation", e)
    for v, exp, m in zip(vals, expected, meta):
        got = ints(v)
        if got != exp:
            chk.disagree(m["kind"], {"meta": m, "impl": exp, "model": got})

    # ---- (b2) the gate of the uncoupled chain is the product gate of Props/C10 uncoupled_factorises -----------
    # gate on bond b in a layer of fraction f: exp(dt f/4 w(b,b)/2 L_b) (x) exp(dt f/4 w(b,b+1)/2 L_{b+1}); weights and
    # fractions are the model's (tied exactly above), the single-site propagators are scipy's expm of the site Liouvillian
    from scipy.linalg import expm
    w2 = lambda n, b, i: (2 if b == 0 else 1) if i == b else (2 if b == n - 2 else 1) if i == b + 1 else 0
    for n in range(2, 6):
        hs = [rng.uniform(-1, 1) * SZ + rng.uniform(-1, 1) * SX + rng.uniform(-1, 1) * oqupy.operators.sigma("y") for _ in range(n)]
        chain = oqupy.SystemChain([2] * n)
        for i in range(n):
            chain.add_site_hamiltonian(i, hs[i])
        Ls = [-1j * oqupy.operators.commutator(h) for h in hs]
        for order in (1, 2):
            dt = rng.choice([0.1, 0.3])
            prop = compute_tebd_propagator(chain, dt, 1e-12, order)
            frac = {1: 4, 2: 2}[order]
            chk.search_cases += 1
            for layer in prop.gate_layers:
                for g in layer.gates:
                    b = g.sites[0]
                    tl, tr = g.tensors
                    G = np.einsum("abc,cde->adbe", tl, tr).reshape(16, 16)       # (lo, ro), (li, ri)
                    want = np.kron(expm(dt * frac / 4 * w2(n, b, b) / 2 * Ls[b]), expm(dt * frac / 4 * w2(n, b, b + 1) / 2 * Ls[b + 1]))
                    if not np.allclose(G, want, atol=1e-9, rtol=0):
                        chk.fail("uncoupled-gate", "a gate of an uncoupled chain is not the product of the single-site propagators for "
                                 "(site weight) x (layer fraction) of the time step", {"n": n, "order": order, "bond": b, "dt": dt,
                                                                                   "err": float(np.max(np.abs(G - want)))})
    chk.count("uncoupled_gates_checked")
    # ---- (b3) a two-site chain: its only gate is the exact pair propagator J of Props/C10 two_site_exact: exp(dt f/4 L) with
    # L the full Lindbladian of the pair (both site terms with weight one, coupling, site and nearest-neighbour dissipators)
    for it2 in range(4 if thorough else 2):
        h0, h1 = [rng.uniform(-1, 1) * SZ + rng.uniform(-1, 1) * SX + rng.uniform(-1, 1) * oqupy.operators.sigma("y") for _ in range(2)]
        a, b = rng.choice([SX, SZ, oqupy.operators.sigma("y")]), rng.choice([SX, SZ, oqupy.operators.sigma("-")])
        l0, g0 = rng.choice([oqupy.operators.sigma("-"), 1j * oqupy.operators.sigma("-") + 0.2 * SZ]), rng.uniform(0.1, 0.5)
        chain = oqupy.SystemChain([2, 2])
        chain.add_site_hamiltonian(0, h0)
        chain.add_site_hamiltonian(1, h1)
        chain.add_nn_hamiltonian(0, a, b)
        chain.add_site_dissipation(1, l0, g0)
        Hp = np.kron(h0, np.eye(2)) + np.kron(np.eye(2), h1) + np.kron(a, b)
        Lp = np.kron(np.eye(2), l0)
        I4 = np.eye(4)
        # row-major vectorisation of the pair density matrix: vec(A rho B) = (A (x) B^T) vec(rho)
        Lfull = -1j * (np.kron(Hp, I4) - np.kron(I4, Hp.T)) + g0 * (np.kron(Lp, Lp.conj()) - 0.5 * np.kron(Lp.conj().T @ Lp, I4)
                                                                    - 0.5 * np.kron(I4, (Lp.conj().T @ Lp).T))
        for order in (1, 2):
            dt = rng.choice([0.1, 0.3])
            prop = compute_tebd_propagator(chain, dt, 1e-13, order)
            frac = {1: 4, 2: 2}[order]
            gates = [g for layer in prop.gate_layers for g in layer.gates]
            chk.search_cases += 1
            want = expm(dt * frac / 4 * Lfull).reshape(2, 2, 2, 2, 2, 2, 2, 2)      # (i0 i1 j0 j1 ; i0' i1' j0' j1')
            # library layout: site-major Liouville indices ((i0 j0), (i1 j1))
            want = want.transpose(0, 2, 1, 3, 4, 6, 5, 7).reshape(16, 16)
            bad = len(gates) != {1: 1, 2: 2}[order]
            for g in gates:
                tl, tr = g.tensors
                G = np.einsum("abc,cde->adbe", tl, tr).reshape(16, 16)
                bad = bad or not np.allclose(G, want, atol=1e-9, rtol=0)
            if bad:
                chk.fail("two-site-gate", "the gate(s) of a two-site chain are not the exact pair propagator for (layer fraction) x dt",
                         {"order": order, "dt": dt, "gates": len(gates)})
    chk.count("two_site_gates_checked")

    # ---- (c) exactness where checkable ----------------------------------------------------------
    eps = 1e-8
    corr = oqupy.PowerLawSD(alpha=0.1, zeta=1, cutoff=2.0, cutoff_type="exponential", temperature=0.1)
    for it in range(10 if (thorough or chk.disagreements or chk.broken) else 4):
        L = rng.randint(2, 5 if thorough else 4)
        order = rng.choice([1, 2])
        dt, N = 0.1, 3
        hs = [rng.uniform(-1, 1) * SZ + rng.uniform(-1, 1) * SX for _ in range(L)]
        diss = [rng.random() < 0.4 for _ in range(L)]
        # Lindblad operators with complex entries as well (i sigma_-, a phase times sigma_+, sigma_y + a real part)
        lops = [rng.choice([SM, 1j * SM, np.exp(0.7j) * SM.T, oqupy.operators.sigma("y") + 0.3 * SM]) for _ in range(L)]
        if it == 1:
            diss[-1], lops[-1] = True, 1j * SM + 0.2 * SZ
        rhos = [oqupy.operators.spin_dm(rng.choice(["z+", "x+", "y-", "z-"])) for _ in range(L)]
        with_pt = [rng.random() < 0.5 for _ in range(L)]
        par = oqupy.TempoParameters(dt=dt, epsrel=eps, dkmax=2)
        # coupling operators along z, x and along a direction with a complex eigenbasis ((sx + sy)/sqrt 2: conj(O) != +-O);
        # the first site of every run carries the latter, with a Hamiltonian that has a y component
        SYc = oqupy.operators.sigma("y")
        cops = [0.5 * (SX + SYc) / np.sqrt(2) if (i == 0 or rng.random() < 0.3) else 0.5 * (SZ if i % 2 == 0 else SX) for i in range(L)]
        with_pt[0] = True
        hs[0] = hs[0] + rng.uniform(0.3, 1) * SYc
        # environments of different strength on different sites (the process tensors then differ in their tensors and caps, not
        # only in their basis transforms); the first case of every run has them on neighbouring sites
        cops = [c_ * [1.0, 1.6, 0.6, 1.3, 0.8][i] for i, c_ in enumerate(cops)]
        if it == 0:
            with_pt[1] = True
        pts = [quiet(oqupy.pt_tempo_compute, oqupy.Bath(cops[i], corr), 0.0, N * dt, parameters=par, progress_type="silent")
               if with_pt[i] else None for i in range(L)]
        # uncoupled chain = independent single sites
        chain = oqupy.SystemChain([2] * L)
        # every second case: homogeneous dephasing handed over as ONE superoperator array, given to every (still empty) site through
        # add_site_liouvillian before the other terms are added
        shared_deph = it % 2 == 1
        if shared_deph:
            Lsh = (0.1 * (np.kron(SZ, SZ.conj()) - np.eye(4))).astype(complex)
            for i in range(L):
                chain.add_site_liouvillian(i, Lsh)
        for i in range(L):
            chain.add_site_hamiltonian(i, hs[i])
            if diss[i]:
                chain.add_site_dissipation(i, lops[i], 0.3)
        info = {"kind": "uncoupled", "L": L, "order": order, "pts": with_pt, "dissipation": diss, "shared_dephasing_array": shared_deph}
        try:
            p = oqupy.PtTebd(oqupy.AugmentedMPS(rhos), chain, pts, oqupy.PtTebdParameters(dt=dt, order=order, epsrel=eps),
                             dynamics_sites=list(range(L)))
            res = quiet(p.compute, N, progress_type="silent")
        except Exception as ex:
            chk.fail("tebd-raises", f"PtTebd raises {ex!r}", info)
            continue
        chk.search_cases += 1
        chk.count("uncoupled")
        chk.case(info, ("uncoupled", L, order, tuple(with_pt), tuple(diss)))
        worst = 0.0
        for i in range(L):
            sysm = oqupy.System(hs[i], gammas=([0.3] if diss[i] else []) + ([0.1] if shared_deph else []),
                                lindblad_operators=([lops[i]] if diss[i] else []) + ([SZ] if shared_deph else []))
            ref = quiet(oqupy.compute_dynamics, sysm, initial_state=rhos[i], dt=dt, num_steps=N, process_tensor=pts[i], progress_type="silent")
            worst = max(worst, np.abs(np.array(res["dynamics"][i].states) - np.array(ref.states)).max())
        if worst > 1e3 * eps or np.abs(np.array(res["norm"]) - 1).max() > 1e3 * eps:
            chk.fail("uncoupled-chain", f"an uncoupled chain deviates from the single-site computations by {worst:.2e} (norm {res['norm'][-1]:.6f})", info)

        # two sites (and chains of commuting gates): exact propagator of the full Liouvillian
        J = rng.uniform(0.3, 1.0)
        commuting = (rng.random() < 0.5 or it == 0) and it != 1          # it == 1: a dissipative two-site chain in every run
        L2 = 2 if not commuting else rng.choice([2, 3, 4, 4, 5])
        if it == 0:
            L2 = rng.choice([4, 5])          # every run has a chain long enough for subsets with several sites traced out in between
        chain = oqupy.SystemChain([2] * L2)
        Hfull = np.zeros((2 ** L2, 2 ** L2), dtype=complex)

        def emb(op, i):
            mats = [np.eye(2)] * L2
            mats[i] = op
            out = mats[0]
            for m in mats[1:]:
                out = np.kron(out, m)
            return out
        for i in range(L2):
            hi = rng.uniform(-1, 1) * SZ + (0 if commuting else rng.uniform(-1, 1)) * SX
            chain.add_site_hamiltonian(i, hi)
            Hfull += emb(hi, i)
        SY_ = oqupy.operators.sigma("y")
        for i in range(L2 - 1):
            chain.add_nn_hamiltonian(i, J * (SZ if commuting else SX), SZ if commuting else SX)
            Hfull += J * emb(SZ if commuting else SX, i) @ emb(SZ if commuting else SX, i + 1)
            if not commuting:
                # couplings whose factors are not all symmetric matrices (sx x sy, a Dzyaloshinskii-Moriya term, sz x sy)
                for cl, cr, cj in rng.choice([[(SX, SY_, 0.4)], [(SX, SY_, 0.3), (SY_, SX, -0.3)], [(SZ, SY_, 0.5)], []]):
                    chain.add_nn_hamiltonian(i, cj * cl, cr)
                    Hfull += cj * emb(cl, i) @ emb(cr, i + 1)
        # two-site chains: also single-site and nearest-neighbour dissipators with rates different from one
        jumps = []
        if L2 == 2 and (rng.random() < 0.6 or it == 1):
            g1, g2 = rng.choice([0.3, 0.7, 2.5]), rng.choice([0.4, 1.0, 1.8])
            l1_ = rng.choice([SM, 1j * SM + 0.2 * SZ, oqupy.operators.sigma("y") + 0.3 * SM])
            chain.add_site_dissipation(0, l1_, gamma=g1)
            jumps.append((g1, emb(l1_, 0)))
            A_, B_ = rng.choice([SM, SZ, SX]), rng.choice([SM, SM.T, SZ])
            if it == 1:
                # both factors of the two-site jump operator non-normal (A A^+ != A^+ A): the anticommutator term needs A^+ A on each site
                A_, B_ = SM + 0.3 * SZ, SM.T
            chain.add_nn_dissipation(0, A_, B_, gamma=g2)
            jumps.append((g2, np.kron(A_, B_)))
        r0s = [oqupy.operators.spin_dm(rng.choice(["x+", "y+", "z+"])) for _ in range(L2)]
        # recorded subsets: neighbours, the two ends (all sites in between traced out), random subsets with gaps
        sites = list(range(L2)) + [(0, 1)]
        if L2 >= 3:
            extra = {(0, L2 - 1)}
            for _ in range(3):
                k_ = rng.randint(2, min(3, L2))
                extra.add(tuple(sorted(rng.sample(range(L2), k_))))
            sites += sorted(extra - {(0, 1)})
        info = {"kind": "exact", "L": L2, "order": order, "commuting_gates": commuting, "recorded_subsets": [s_ for s_ in sites if not isinstance(s_, int)]}
        try:
            p = oqupy.PtTebd(oqupy.AugmentedMPS(r0s), chain, [None] * L2, oqupy.PtTebdParameters(dt=dt, order=order, epsrel=eps), dynamics_sites=sites)
            res = quiet(p.compute, N, progress_type="silent")
        except Exception as ex:
            chk.search_cases += 1
            chk.fail("chain-raises", f"PtTebd on a {L2}-site chain recording the subsets {info['recorded_subsets']} raises {ex!r}", info)
            continue
        rho = r0s[0]
        for r in r0s[1:]:
            rho = np.kron(rho, r)
        DD = 2 ** L2
        Lfull = -1j * (np.kron(Hfull, np.eye(DD)) - np.kron(np.eye(DD), Hfull.T))
        for g_, C_ in jumps:
            CdC = C_.conj().T @ C_
            Lfull = Lfull + g_ * (np.kron(C_, C_.conj()) - 0.5 * np.kron(CdC, np.eye(DD)) - 0.5 * np.kron(np.eye(DD), CdC.T))
        P = expm(Lfull * dt)
        worst = 0.0
        for k in range(N + 1):
            for s in sites:
                keep = [s] if isinstance(s, int) else list(s)
                worst = max(worst, np.abs(np.array(res["dynamics"][s].states[k]) - ptrace(rho, keep, L2)).max())
            rho = (P @ rho.reshape(-1)).reshape(DD, DD)
        if jumps:
            info["dissipators"] = [g_ for g_, _ in jumps]
            worst = max(worst, np.abs(np.array(res["norm"]) - 1).max())
        # mutual consistency of the recorded subsets
        for k in range(N + 1):
            worst = max(worst, np.abs(ptrace(np.array(res["dynamics"][(0, 1)].states[k]), [0], 2) - np.array(res["dynamics"][0].states[k])).max())
        chk.search_cases += 1
        chk.count("exact_commuting" if commuting else "exact_two_site")
        chk.case(info, ("exact", L2, order, commuting, it))
        if worst > 1e3 * eps:
            chk.fail("chain-not-exact", f"{'commuting-gate chain' if commuting else 'two-site chain'}: deviation {worst:.2e} from the exact propagator / partial traces", info)

    # ---- (c2) sites of DIFFERENT Hilbert-space dimensions; a read-only query between two compute calls -----------------
    def herm(dd):
        a_ = np.array([[rng.gauss(0, 1) + 1j * rng.gauss(0, 1) for _ in range(dd)] for _ in range(dd)])
        return (a_ + a_.conj().T) / 2

    def ptrace_d(rho_, keep, dims):
        nd = len(dims)
        t_ = rho_.reshape(list(dims) + list(dims))
        cur = list(range(nd))
        for q in sorted(set(range(nd)) - set(keep), reverse=True):
            pos = cur.index(q)
            t_ = np.trace(t_, axis1=pos, axis2=pos + len(cur))
            cur.pop(pos)
        dk_ = int(np.prod([dims[q] for q in keep]))
        return t_.reshape(dk_, dk_)
    for it in range(4 if thorough else 2):
        dims = [[2, 3], [3, 2], [3, 2], [2, 4]][it]
        order = rng.choice([1, 2])
        dt, N = 0.1, 3
        hs = [herm(dd) for dd in dims]
        A_, B_ = herm(dims[0]), herm(dims[1])
        Lop = np.diag(np.sqrt(np.arange(1, dims[1])), 1).astype(complex)        # lowering operator on the second site
        g_ = rng.choice([0.3, 1.4])
        chain = oqupy.SystemChain(dims)
        for i in range(2):
            chain.add_site_hamiltonian(i, hs[i])
        chain.add_nn_hamiltonian(0, A_, B_)
        chain.add_site_dissipation(1, Lop, g_)
        r0s = []
        for dd in dims:
            b_ = np.array([[rng.gauss(0, 1) + 1j * rng.gauss(0, 1) for _ in range(dd)] for _ in range(dd)])
            r_ = b_ @ b_.conj().T
            r0s.append(r_ / np.trace(r_))
        peek = it % 2 == 0
        info = {"kind": "mixed-dimensions", "dims": dims, "order": order, "query_between_computes": peek}
        chk.search_cases += 1
        chk.count("mixed_dimension_chains")
        chk.case(info, ("mixed", tuple(dims), order, peek))
        try:
            p = oqupy.PtTebd(oqupy.AugmentedMPS(r0s), chain, [None, None], oqupy.PtTebdParameters(dt=dt, order=order, epsrel=eps), dynamics_sites=[0, 1, (0, 1)])
            if peek:
                quiet(p.compute, 1, progress_type="silent")
                mid = np.array(p.get_current_density_matrix(0))
                res = quiet(p.compute, N, progress_type="silent")
            else:
                res = quiet(p.compute, N, progress_type="silent")
        except Exception as ex:
            chk.fail("chain-raises", f"PtTebd on a chain of dimensions {dims} raises {ex!r}", info)
            continue
        DD = dims[0] * dims[1]
        Hf = np.kron(hs[0], np.eye(dims[1])) + np.kron(np.eye(dims[0]), hs[1]) + np.kron(A_, B_)
        C_ = np.kron(np.eye(dims[0]), Lop)
        CdC = C_.conj().T @ C_
        Lf = -1j * (np.kron(Hf, np.eye(DD)) - np.kron(np.eye(DD), Hf.T)) + g_ * (np.kron(C_, C_.conj()) - 0.5 * np.kron(CdC, np.eye(DD)) - 0.5 * np.kron(np.eye(DD), CdC.T))
        P = expm(Lf * dt)
        rho = np.kron(r0s[0], r0s[1])
        worst = 0.0
        for k in range(N + 1):
            worst = max(worst, np.abs(np.array(res["dynamics"][(0, 1)].states[k]) - rho).max(),
                        np.abs(np.array(res["dynamics"][0].states[k]) - ptrace_d(rho, [0], dims)).max(),
                        np.abs(np.array(res["dynamics"][1].states[k]) - ptrace_d(rho, [1], dims)).max())
            if peek and k == 1:
                worst = max(worst, np.abs(mid - ptrace_d(rho, [0], dims)).max())
            rho = (P @ rho.reshape(-1)).reshape(DD, DD)
        worst = max(worst, np.abs(np.array(res["norm"]) - 1).max())
        if worst > 1e3 * eps:
            chk.fail("chain-not-exact", f"two-site chain of dimensions {dims}{' with a density-matrix query between two compute calls' if peek else ''}: "
                     f"deviation {worst:.2e} from the exact propagator / partial traces / norm one", info)

    # ---- (c3) a chain object that is extended after it has been used: the second computation sees the terms added since ----
    for it in range(2 if thorough else 1):
        order, dt, N = rng.choice([1, 2]), 0.1, 2
        h0, h1 = herm(2), herm(2)
        A_, B_ = herm(2), herm(2)
        extra_site, extra_l, extra_r = herm(2), herm(2), herm(2)
        r0s = [oqupy.operators.spin_dm("x+"), oqupy.operators.spin_dm("y-")]
        info = {"kind": "chain-extended-after-use", "order": order}
        chk.search_cases += 1
        chk.count("chain_extended_after_use")
        chk.case(info, ("chain-extended", order, it))

        def build(full):
            c_ = oqupy.SystemChain([2, 2])
            c_.add_site_hamiltonian(0, h0)
            c_.add_site_hamiltonian(1, h1)
            c_.add_nn_hamiltonian(0, A_, B_)
            if full:
                c_.add_site_hamiltonian(1, extra_site)
                c_.add_nn_hamiltonian(0, extra_l, extra_r)
            return c_

        def tebd_states(c_):
            p_ = oqupy.PtTebd(oqupy.AugmentedMPS(r0s), c_, [None, None], oqupy.PtTebdParameters(dt=dt, order=order, epsrel=eps), dynamics_sites=[(0, 1)])
            return np.array(quiet(p_.compute, N, progress_type="silent")["dynamics"][(0, 1)].states)
        try:
            shared = build(False)
            first = tebd_states(shared)
            shared.add_site_hamiltonian(1, extra_site)
            shared.add_nn_hamiltonian(0, extra_l, extra_r)
            second = tebd_states(shared)
            fresh1, fresh2 = tebd_states(build(False)), tebd_states(build(True))
        except Exception as ex:
            chk.fail("chain-raises", f"PtTebd on a re-used chain raises {ex!r}", info)
            continue
        if np.abs(first - fresh1).max() > 1e3 * eps or np.abs(second - fresh2).max() > 1e3 * eps:
            chk.fail("chain-stale-after-extension", f"a SystemChain used in one PT-TEBD computation and then extended by further terms: the next computation differs "
                     f"from the one on a freshly built equal chain by {np.abs(second - fresh2).max():.2e}", info)

    # ---- (d) execution modes, each in a fresh interpreter --------------------------------------
    # chain length 4 in every mode (also with delayed completion); the shortest chains (2: one of the two gate layers is EMPTY; 3)
    # and, in the thorough tier, 5 and 6 in both parallel modes
    plan = [(4, [("multithread", False), ("multiprocess", False), ("multithread", True)] + ([("multiprocess", True)] if thorough else [])),
            (2, [("multithread", False), ("multiprocess", False)]), (3, [("multithread", False)] + ([("multiprocess", False)] if thorough else []))]
    if thorough:
        plan += [(5, [("multithread", False)]), (6, [("multiprocess", False)])]
    for L_, modes in plan:
        base, err = run_mode("none", L=L_)
        if base is None:
            chk.disagree("execution-mode harness", f"sequential child failed (chain length {L_}): {err}")
            continue
        for mode, delay in modes:
            got, err = run_mode(mode, delay, L=L_)
            chk.search_cases += 1
            chk.count("mode_" + mode)
            info = {"kind": "execution-mode", "mode": mode, "random_completion_order": delay, "chain_length": L_}
            chk.case(info, ("mode", mode, delay, L_))
            if got is None:
                chk.fail("execution-mode-unusable:" + mode, f"backend_config={{'parallel': '{mode}'}} fails in a fresh interpreter: {err.strip().splitlines()[-1] if err else ''}", info)
            elif got.shape != base.shape or np.abs(got - base).max() > 1e-7:
                chk.fail("execution-mode-differs:" + mode, f"'{mode}' differs from the sequential mode by {np.abs(got - base).max():.2e}", info)

    return chk.finish(
        level="proof",
        trusted=["model: Model/Chain.v (layers, site weights, gate footprint on an abstract chain state)",
                 "that the footprint model covers everything a gate reads and writes is argued from _apply_nn_gate_get_data / "
                 "_apply_nn_gate_replace_gam_lam_gam and exercised by the execution-mode runs"],
        rule="gate layers for chain lengths 2-6 (8) and orders 1, 2 and site weights extracted from get_nn_full_liouvillians (exact); uncoupled chains "
             "with PT-TEMPO process tensors and site dissipation vs single-site compute_dynamics; two-site and commuting-gate chains vs dense "
             "expm incl. partial-trace consistency and norm; sequential / multithread / multiprocess in fresh interpreters, also with random "
             "gate completion delays; distinct = distinct configuration",
        assumptions=["whether worker pools can start on the host is a runtime fact outside the model",
                     "Trotter error of genuinely non-commuting chains longer than two sites is not checked (no closed form)"])
