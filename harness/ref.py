"""Independent dense references (NumPy) used as property oracles by the searches."""
import numpy as np


def mpo_transformed(m, tin, tout):
    """stored tensor -> rank-4 [a,a',i',o'] in the system basis."""
    if m.ndim == 3:
        d = m.shape[2]
        m4 = np.einsum("abi,io->abio", m, np.eye(d))
    else:
        m4 = m
    if tin is not None:
        m4 = np.einsum("xi,abio->abxo", tin, m4)
    if tout is not None:
        m4 = np.einsum("abio,oy->abiy", m4, tout)
    return m4


def ref_dynamics(d2, envs, pre, post, props, rho0, N):
    """envs: list of dict(mpos=[rank4 transformed per step or None], caps=[vector per step]).
    pre/post: dict step->matrix.  Returns list of N+1 vectors (states)."""
    m = len(envs)
    letters = "abcdefgh"[:m]
    cur = np.asarray(rho0, dtype=complex).reshape([1] * m + [d2])
    out = []

    def sysop(cur, S):
        return np.einsum("...i,oi->...o", cur, S)

    def readout(cur, k):
        t = cur
        for j in range(m):
            t = np.tensordot(envs[j]["caps"][k], t, axes=([0], [0]))
        return t
    for k in range(N + 1):
        if k in pre:
            cur = sysop(cur, pre[k])
        out.append(readout(cur, k))
        if k == N:
            break
        if k in post:
            cur = sysop(cur, post[k])
        cur = sysop(cur, props[k][0])
        for j in range(m):
            M = envs[j]["mpos"][k]
            if M is None:
                continue
            cur = np.moveaxis(cur, j, 0)                 # [a, ..., i]
            cur = np.einsum("a...i,abio->b...o", cur, M)
            cur = np.moveaxis(cur, 0, j)
        cur = sysop(cur, props[k][1])
    return out
