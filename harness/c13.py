"""C13 — computations cover exactly the requested time grid and label states correctly."""
from fractions import Fraction
import math
import warnings
import numpy as np
import oqupy
from oqupy.dynamics import Dynamics

from harness.common import run_cases, ints, coq_list, zlit, float_lit, fbits
from harness.impl import InjSystem, quiet

HEADER = """From Coq Require Import ZArith List Bool PrimFloat.
From OQ Require Import Lib.PyFloat Model.TimeGrid Model.Glue.
Import ListNotations. Open Scope Z_scope."""

# time steps as a user types them, and time steps that come out of a computation (1/3, 1/15, 0.1+0.2, pi/10, 2/7: all 16-17
# significant digits are part of the value)
DT_COMPUTED = [repr(1 / 3), repr(1 / 15), repr(0.1 + 0.2), repr(3.141592653589793 / 10), repr(2 / 7)]
DT_LITS = ["0.1", "0.05", "0.01", "0.2", "0.25", "0.3", "0.07", "0.13", "0.5", "0.99", "1.0", "0.002", "0.125"] + DT_COMPUTED
START_LITS = ["0.0", "0.3", "-0.3", "1.0", "2.5", "-7.1", "100.3"]

_corr = oqupy.PowerLawSD(alpha=0.0, zeta=1, cutoff=1.0, cutoff_type="exponential")
_bath = oqupy.Bath(oqupy.operators.sigma("z"), _corr)
_sys = oqupy.System(0.0 * oqupy.operators.sigma("x"))
_rho = np.eye(2) / 2


def lit_sum(start, dt, m, theta=Fraction(0)):
    """decimal literal of start + (m+theta)*dt as the user would type it."""
    v = Fraction(start) + (m + theta) * Fraction(dt)
    # exact decimal expansion exists (all inputs are decimals)
    s = format(float(v), ".17g")
    # use exact decimal string
    from decimal import Decimal, getcontext
    getcontext().prec = 60
    d = Decimal(v.numerator) / Decimal(v.denominator)
    return str(d)


def expected_steps(start, end, dt):
    """The property's reading on the float values: whole steps that fit, an end time that is a grid point
    up to floating-point rounding being INCLUDED.  x = (end-start)/dt exactly (on the float values):
      - x within the rounding of the inputs of an integer r (|x-r| <= 2^-50 (|start|+|end|)/dt + 2^-50 |x|: end is a
        grid point up to rounding)  ->  exactly r steps;
      - otherwise floor(x); within 1e-9 of a step below the next grid point either count is admissible.
    Returns the set of admissible counts."""
    fs, fe, fd = Fraction(start), Fraction(end), Fraction(dt)
    x = (fe - fs) / fd
    r = round(x)
    slack = Fraction(1, 2 ** 50) * ((abs(fs) + abs(fe)) / fd + abs(x))
    if abs(x - r) <= slack:
        return {max(0, r)}
    n = math.floor(x)
    adm = {max(0, n)}
    if (n + 1) - x < Fraction(1, 10 ** 9):
        adm.add(n + 1)
    return adm


def tempo_times(start, end, dt, mid=None):
    """mid: an earlier target computed first (a continued computation must cover the same grid)"""
    par = oqupy.TempoParameters(dt=dt, epsrel=1e-3, dkmax=1)
    t = oqupy.Tempo(_sys, _bath, par, _rho, start)
    if mid is not None:
        t.compute(mid, progress_type="silent")
    t.compute(end, progress_type="silent")
    return list(t.get_dynamics().times)


def mf_times(start, end, dt, mid=None):
    par = oqupy.TempoParameters(dt=dt, epsrel=1e-3, dkmax=1)
    s = oqupy.TimeDependentSystemWithField(lambda t, a: 0.0 * oqupy.operators.sigma("x"))
    mfs = oqupy.MeanFieldSystem([s], field_eom=lambda t, states, a: 0.0)
    t = oqupy.MeanFieldTempo(mfs, [_bath], par, [_rho], 0.0 + 0j, start)
    if mid is not None:
        t.compute(mid, progress_type="silent")
    t.compute(end, progress_type="silent")
    d = t.get_dynamics()
    times = list(d.times)
    # the per-system dynamics and the fields carry the same grid
    if list(d.system_dynamics[0].times) != times or len(d.fields) != len(times):
        return times + ["system/field times differ"]
    return times


def pt_len(start, end, dt):
    par = oqupy.TempoParameters(dt=dt, epsrel=1e-3, dkmax=1)
    pt = oqupy.PtTempo(_bath, start, end, par)
    return len(pt.get_process_tensor(progress_type="silent"))


def run(chk):
    rng = chk.rng
    thorough = chk.tier == "thorough"
    chk.proofs()
    exprs, expected, meta = [], [], []

    def add(expr, exp, m, key):
        exprs.append(expr)
        expected.append(exp)
        meta.append(m)
        chk.case(m, key)

    # ---- (a) number of steps / time labels through the public drivers ------------------
    n_a = 150 if thorough else 50
    # adversarial grid points, chosen without looking at the implementation: decimal literals start + m*dt whose
    # binary64 quotient (end-start)/dt falls BELOW m (they are grid points only "up to floating-point rounding")
    adv = []
    for dts_ in DT_LITS:
        for sts_ in START_LITS:
            for m_ in (2, 3, 5, 7, 10, 11, 30, 60, 97, 120):
                x_ = (float(lit_sum(sts_, dts_, m_)) - float(sts_)) / float(dts_)
                if x_ < m_:
                    adv.append((m_ - x_, (m_ - x_) / m_, dts_, sts_, m_))
    hard = sorted(adv, reverse=True)[:3] + sorted(adv, key=lambda a_: -a_[1])[:3] + rng.sample(adv, min(len(adv), 9 if thorough else 6))
    # every run: computed time steps (full mantissa), one per driver
    full = [(rng.choice(DT_COMPUTED + ["0.03333333333333333", "0.031415926535897934", "0.07777777777777778"]), rng.choice(START_LITS), rng.randint(1, 40))
            for _ in range(12)]
    plan = [(a_[2], a_[3], a_[4]) for a_ in hard] + full + [None] * n_a
    chk.count("adversarial_grid_points_available", len(adv))
    for i, forced in enumerate(plan):
        dts, sts = rng.choice(DT_LITS), rng.choice(START_LITS)
        mmax = 1000 if thorough and rng.random() < 0.1 else 120
        m = rng.choice([0, 1, 2, 3, 3, 5, 7, 10, 11, 30, rng.randint(2, mmax)])
        kind = rng.choice(["literal", "literal", "computed", "offgrid", "random"])
        driver = rng.choice(["tempo", "tempo", "meanfield", "pttempo"])
        if forced:
            (dts, sts, m), kind, driver = forced, "literal", ["tempo", "meanfield", "pttempo"][i % 3]
        dt, start = float(dts), float(sts)
        if kind == "literal":
            end = float(lit_sum(sts, dts, m))
        elif kind == "computed":
            end = start + m * dt
        elif kind == "offgrid":
            end = float(lit_sum(sts, dts, m, Fraction(rng.randint(1, 9), 10)))
        else:
            end = start + rng.uniform(0, m + 1) * dt
        adm = expected_steps(start, end, dt)
        m_info = {"driver": driver, "start": sts, "dt": dts, "end": repr(end), "kind": kind, "m": m}
        try:
            # a third of the runs reach the end time in two compute calls (the first to an earlier grid point)
            mid = None
            if m >= 2 and kind in ("literal", "computed") and rng.random() < 0.35:
                mid = float(lit_sum(sts, dts, rng.randint(1, m - 1)))
                m_info["continued_from"] = repr(mid)
            elif m >= 1 and kind in ("literal", "computed") and (rng.random() < 0.25 or (forced and i % 2 == 0)):
                # ... or a first call that takes no step at all (to the start time itself, or to less than one step beyond it)
                mid = rng.choice([start, start + 0.4 * dt])
                m_info["continued_from"] = repr(mid) + " (no step)"
            if driver == "tempo":
                times = quiet(tempo_times, start, end, dt, mid)
                n = len(times) - 1
            elif driver == "meanfield":
                times = quiet(mf_times, start, end, dt, mid)
                n = len(times) - 1
            else:
                if min(adm) < 2:
                    continue
                n = quiet(pt_len, start, end, dt)
                times = None
        except Exception as ex:
            chk.fail("driver-raises", f"{driver} raised {ex!r}", m_info)
            continue
        chk.search_cases += 1
        chk.count(driver)
        chk.count("end_" + kind)
        if n not in adm:
            chk.fail("step-count", f"{driver}: start={sts} dt={dts} end={end!r}: {n} steps computed, "
                     f"{sorted(adm)} whole steps fit", m_info)
        if times is not None:
            want = [start + float(k) * dt for k in range(n + 1)]
            if times != want or any(b <= a for a, b in zip(times, times[1:])):
                chk.fail("grid-labels", f"{driver}: returned times are not start + k*dt, k=0..n", m_info)
        # model: the step count and the labels, bit for bit
        exp = [n]
        expr = f"[end_step {float_lit(start)} {float_lit(end)} {float_lit(dt)}]"
        if times is not None and n <= 40:
            for t in times:
                exp += fbits(t)
            expr = (f"end_step {float_lit(start)} {float_lit(end)} {float_lit(dt)} :: "
                    f"flat_map (fun t => let '(s,m,e) := fbits t in [s;m;e]) (times_all {float_lit(start)} {float_lit(dt)} {n})")
        add(expr, exp, m_info, (driver, kind, sts, dts, min(m, 12)))

    # ---- (a2) the convenience drivers with GUESSED parameters (parameters=None, tolerance given): the grid is the one
    # of the guessed time step, starting at the start time -----------------------------------------------------------
    corr_g = oqupy.PowerLawSD(alpha=0.1, zeta=1, cutoff=3.0, cutoff_type="exponential", temperature=0.1)
    bath_g = oqupy.Bath(0.5 * oqupy.operators.sigma("z"), corr_g)
    sys_g = oqupy.System(0.5 * oqupy.operators.sigma("x"))
    for i in range(6 if thorough else 3):
        start = float(rng.choice(START_LITS))
        span = rng.choice([0.5, 1.0, 1.3])
        end = start + span
        tol = rng.choice([0.05, 0.1])
        info = {"driver": "guessed-parameters", "start": start, "end": repr(end), "tolerance": tol}
        try:
            with warnings.catch_warnings():
                warnings.simplefilter("ignore")
                gp = quiet(oqupy.guess_tempo_parameters, bath_g, start, end, sys_g, tol)
                d = quiet(oqupy.tempo_compute, sys_g, bath_g, _rho, start, end, tolerance=tol, progress_type="silent")
                gp2 = quiet(oqupy.guess_tempo_parameters, bath_g, start, end, None, tol)
                pt = quiet(oqupy.pt_tempo_compute, bath_g, start, end, tolerance=tol, progress_type="silent")
        except Exception as ex:
            chk.fail("driver-raises", f"tempo_compute / pt_tempo_compute with guessed parameters raise {ex!r}", info)
            continue
        chk.search_cases += 1
        chk.count("guessed_parameters")
        times = list(d.times)
        n = len(times) - 1
        if n not in expected_steps(start, end, gp.dt) or times != [start + float(k) * gp.dt for k in range(n + 1)]:
            chk.fail("grid-labels", f"tempo_compute(parameters=None): times {times[:3]}..{times[-1]} are not start + k*dt for the guessed dt={gp.dt}", info)
        if pt.dt != gp2.dt or len(pt) not in expected_steps(start, end, gp2.dt):
            chk.fail("step-count", f"pt_tempo_compute(parameters=None): {len(pt)} steps of {pt.dt}, guessed dt={gp2.dt}", info)

    # ---- (b) compute_dynamics / with_field / gradient labels, record_all on and off -------
    n_b = 90 if thorough else 30
    for i in range(n_b):
        dt, start = float(rng.choice(DT_LITS)), float(rng.choice(START_LITS))
        N = rng.randint(1, 12)
        record_all = rng.random() < 0.5
        api = rng.choice(["compute_dynamics", "compute_dynamics_with_field", "compute_gradient_and_dynamics", "state_gradient"])
        if i in (4, 5):
            api, record_all = "state_gradient", True        # the public wrapper (records everything)
        if api == "state_gradient":
            record_all = True
        if i < 4:
            # every run: the empty propagation (num_steps = 0: the grid is the start time alone), with a process tensor that is longer
            api, N, record_all = ["compute_dynamics", "compute_dynamics_with_field"][i % 2], 0, i < 2
        ident = np.identity(4, dtype=complex)
        long_pt = None
        if N == 0:
            long_pt = oqupy.process_tensor.SimpleProcessTensor(2, dt=dt)
            for kk in range(4):
                long_pt.set_mpo_tensor(kk, np.ones((1, 1, 4), dtype=complex))
            for kk in range(5):
                long_pt.set_cap_tensor(kk, np.ones(1, dtype=complex))
        if api == "compute_dynamics":
            dyn = quiet(oqupy.compute_dynamics, InjSystem(2, [(ident, ident)]), initial_state=_rho, dt=dt, process_tensor=long_pt,
                        num_steps=N, start_time=start, record_all=record_all, progress_type="silent")
            times, nstates = list(dyn.times), len(dyn.states)
        elif api == "compute_dynamics_with_field":
            s = oqupy.TimeDependentSystemWithField(lambda t, a: 0.0 * oqupy.operators.sigma("x"))
            mfs = oqupy.MeanFieldSystem([s], field_eom=lambda t, states, a: 0.0)
            dyn = quiet(oqupy.compute_dynamics_with_field, mfs, 0.0, dt=dt, num_steps=N, start_time=start, process_tensor_list=[long_pt] if long_pt is not None else None,
                        initial_state_list=[_rho], record_all=record_all, progress_type="silent")
            times, nstates = list(dyn.times), len(dyn.fields)
        else:
            from oqupy.gradient import compute_gradient_and_dynamics
            psys = oqupy.ParameterizedSystem(lambda x: x * oqupy.operators.sigma("x"))
            pt = oqupy.process_tensor.SimpleProcessTensor(2)
            for kk in range(N):
                pt.set_mpo_tensor(kk, np.ones((1, 1, 4), dtype=complex))
            for kk in range(N + 1):
                pt.set_cap_tensor(kk, np.ones(1, dtype=complex))
            if api == "state_gradient":
                pt2 = oqupy.process_tensor.SimpleProcessTensor(2, dt=dt)       # the wrapper takes the time step from the process tensor
                for kk in range(N):
                    pt2.set_mpo_tensor(kk, np.ones((1, 1, 4), dtype=complex))
                for kk in range(N + 1):
                    pt2.set_cap_tensor(kk, np.ones(1, dtype=complex))
                res = quiet(oqupy.state_gradient, system=psys, initial_state=_rho, target_derivative=np.eye(2), process_tensors=[pt2], parameters=np.zeros((2 * N, 1)),
                            start_time=start, progress_type="silent")
                res = (res["gradient"], res["dynamics"]) if isinstance(res, dict) else res
            else:
              res = quiet(compute_gradient_and_dynamics, system=psys, parameters=np.zeros((2 * N, 1)), initial_state=_rho,
                        target_derivative=np.eye(2), process_tensors=[pt], dt=dt, num_steps=N, start_time=start,
                        record_all=record_all, progress_type="silent")
            dyn = res[1]
            times, nstates = list(dyn.times), len(dyn.states)
        chk.search_cases += 1
        chk.count(api)
        info = {"api": api, "dt": dt, "start": start, "N": N, "record_all": record_all}
        want = [start + k * dt for k in range(N + 1)] if record_all else [start + N * dt]
        if times != want or nstates != len(want):
            chk.fail("state-labels", f"{api}(record_all={record_all}, num_steps={N}) labels its states {times[:3]}..., "
                     f"expected {want[:3]}...", info)
        exp = []
        for t in times:
            exp += fbits(t)
        fn = "times_all" if record_all else "times_final"
        add(f"flat_map (fun t => let '(s,m,e) := fbits t in [s;m;e]) ({fn} {float_lit(start)} {float_lit(dt)} {N})",
            exp, info, (api, record_all, N))

    # ---- (c) Dynamics.add: arbitrary insertion order, repeated times -----------------------
    n_c = 150 if thorough else 50
    for i in range(n_c):
        k = rng.randint(1, 9)
        ts = [rng.randint(-3, 6) for _ in range(k)]
        dyn = Dynamics()
        for j, t in enumerate(ts):
            dyn.add(float(t) / 4, np.array([[j]], dtype=complex))
        got_t = [int(round(t * 4)) for t in dyn.times]
        got_s = [int(s[0, 0].real) for s in dyn.states]
        chk.search_cases += 1
        if got_t != sorted(ts) or any(ts[s] != t for t, s in zip(got_t, got_s)) or sorted(got_s) != list(range(k)):
            chk.fail("dynamics-unsorted", "Dynamics.add: times not sorted or a state detached from its time", {"times": ts})
        # derived read-outs stay aligned with the times: expectations(op)[k] = Tr(op rho(t_k)), also for the trace (op = None)
        et, ev = dyn.expectations(np.array([[3.0]]))
        tt, tv = dyn.expectations()
        if list(et) != list(dyn.times) or [int(round(x.real / 3)) for x in ev] != got_s or list(tt) != list(dyn.times) \
                or [int(round(x.real)) for x in tv] != got_s:
            chk.fail("expectations-misaligned", "Dynamics.expectations: values are not Tr(op rho(t_k)) at the returned times", {"times": ts})
        pairs = coq_list([f"({zlit(t)}, {j})" for j, t in enumerate(ts)])
        add(f"let d := dyn_of Z Z Z.leb {pairs} in fst d ++ snd d", got_t + got_s, {"kind": "Dynamics.add", "times": ts},
            ("dyn", tuple(ts)))
        chk.count("Dynamics.add")
        # the same (time, state) pairs handed to the constructor as two lists (e.g. two consecutive runs merged, the later first)
        try:
            dyn2 = Dynamics([float(t) / 4 for t in ts], [np.array([[j]], dtype=complex) for j in range(k)])
            c_t, c_s = [int(round(t * 4)) for t in dyn2.times], [int(s[0, 0].real) for s in dyn2.states]
        except Exception as ex:
            chk.fail("dynamics-unsorted", f"Dynamics(times, states) raises {ex!r}", {"times": ts})
            continue
        chk.search_cases += 1
        if c_t != sorted(ts) or any(ts[s] != t for t, s in zip(c_t, c_s)) or sorted(c_s) != list(range(k)):
            chk.fail("dynamics-unsorted", "Dynamics(times, states): times not sorted or a state detached from its time", {"times": ts, "constructor": True})
        add(f"let d := dyn_of Z Z Z.leb {pairs} in fst d ++ snd d", c_t + c_s, {"kind": "Dynamics(times, states)", "times": ts},
            ("dyn-ctor", tuple(ts)))

    # ---- (c2) MeanFieldDynamics.add: the same rule for every system and for the field ------------------
    from oqupy.dynamics import MeanFieldDynamics
    for i in range(60 if thorough else 20):
        k, nsys = rng.randint(1, 8), rng.randint(1, 3)
        ts = [rng.randint(-3, 6) for _ in range(k)]
        mfd = MeanFieldDynamics()
        for j, t in enumerate(ts):
            mfd.add(float(t) / 4, [np.array([[j + 100 * q]], dtype=complex) for q in range(nsys)], complex(j, -j))
        chk.search_cases += 1
        got_t = [int(round(t * 4)) for t in mfd.times]
        got_f = [int(round(f.real)) for f in mfd.fields]
        ft, fv = mfd.field_expectations()
        ok = got_t == sorted(ts) and all(ts[j] == t for t, j in zip(got_t, got_f)) and sorted(got_f) == list(range(k)) \
            and all(abs(f.imag + f.real) < 1e-12 for f in mfd.fields) and list(ft) == list(mfd.times) and list(fv) == list(mfd.fields) \
            and len(mfd) == k and len(mfd.system_dynamics) == nsys
        for q, sd in enumerate(mfd.system_dynamics):
            ok = ok and [int(round(t * 4)) for t in sd.times] == got_t and [int(round(s_[0, 0].real)) - 100 * q for s_ in sd.states] == got_f
        if not ok:
            chk.fail("meanfield-dynamics-unsorted", "MeanFieldDynamics.add: times not sorted, or a field / a system's state detached from its time, "
                     "or field_expectations() not aligned with times", {"times": ts, "systems": nsys})
        try:
            mfd2 = MeanFieldDynamics([float(t) / 4 for t in ts], [[np.array([[j + 100 * q]], dtype=complex) for q in range(nsys)] for j in range(k)],
                                     [complex(j, -j) for j in range(k)])
            c_t, c_f = [int(round(t * 4)) for t in mfd2.times], [int(round(f.real)) for f in mfd2.fields]
            ok2 = c_t == got_t and all(ts[j] == t for t, j in zip(c_t, c_f)) and sorted(c_f) == list(range(k))
            for q, sd in enumerate(mfd2.system_dynamics):
                ok2 = ok2 and [int(round(t * 4)) for t in sd.times] == c_t and [int(round(s_[0, 0].real)) - 100 * q for s_ in sd.states] == c_f
        except Exception as ex:
            ok2 = False
        chk.search_cases += 1
        if not ok2:
            chk.fail("meanfield-dynamics-unsorted", "MeanFieldDynamics(times, states, fields): times not sorted, or a field / a system's state detached from its time",
                     {"times": ts, "systems": nsys, "constructor": True})
        pairs = coq_list([f"({zlit(t)}, {j})" for j, t in enumerate(ts)])
        add(f"let d := dyn_of Z Z Z.leb {pairs} in fst d ++ snd d", got_t + got_f, {"kind": "MeanFieldDynamics.add", "times": ts, "systems": nsys},
            ("mfdyn", tuple(ts), nsys))
        # the whole record against the model of the object (Model/TimeGrid.v mfd_of: own time/field lists, one Dynamics per system,
        # each with its own insertion index): times ++ fields ++ (times_q ++ states_q for every system q)
        rows = coq_list([f"(({zlit(t)}, {j}), {coq_list([str(j + 100 * q) for q in range(nsys)])})" for j, t in enumerate(ts)])
        flat = got_t + got_f
        for sd in mfd.system_dynamics:
            flat += [int(round(t * 4)) for t in sd.times] + [int(round(s_[0, 0].real)) for s_ in sd.states]
        add(f"let m := mfd_of Z Z Z Z.leb {rows} in fst (fst m) ++ snd (fst m) ++ flat_map (fun d => fst d ++ snd d) (snd m)", flat,
            {"kind": "MeanFieldDynamics.add (whole record)", "times": ts, "systems": nsys}, ("mfdrec", tuple(ts), nsys))
        if ok2:
            # the same rows handed to the constructor as three lists: the record is the one mfd_of builds from the rows in list order
            flat2 = c_t + c_f
            for sd in mfd2.system_dynamics:
                flat2 += [int(round(t * 4)) for t in sd.times] + [int(round(s_[0, 0].real)) for s_ in sd.states]
            add(f"let m := mfd_of Z Z Z Z.leb {rows} in fst (fst m) ++ snd (fst m) ++ flat_map (fun d => fst d ++ snd d) (snd m)", flat2,
                {"kind": "MeanFieldDynamics(times, states, fields) (whole record)", "times": ts, "systems": nsys}, ("mfdrec-ctor", tuple(ts), nsys))
        chk.count("MeanFieldDynamics.add")

    # ---- (c3) the time axes of compute_correlations / compute_correlations_nt: an interval given as a pair of floats, in either
    # direction, covers exactly the grid points start_time + k dt between its end points, both included; a list or a slice of steps
    # gives exactly those steps --------------------------------------------------------------------------------------------
    from oqupy.process_tensor import SimpleProcessTensor
    for i in range(10 if thorough else 5):
        Nc = rng.randint(4, 7)
        dtc = rng.choice([0.1, 0.25, 1.0 / 3.0])
        t0c = rng.choice([0.0, 0.5, -1.3])
        ptc = SimpleProcessTensor(2, dt=dtc)
        for k_ in range(Nc):
            ptc.set_mpo_tensor(k_, np.ones((1, 1, 4), dtype=complex))
        for k_ in range(Nc + 1):
            ptc.set_cap_tensor(k_, np.ones(1, dtype=complex))
        a_, b_ = sorted(rng.sample(range(Nc + 1), 2))
        c_, d_ = sorted(rng.sample(range(Nc + 1), 2))
        descending_a = (i % 2 == 0)
        ta = (t0c + b_ * dtc, t0c + a_ * dtc) if descending_a else (t0c + a_ * dtc, t0c + b_ * dtc)
        want_a = list(range(b_, a_ - 1, -1)) if descending_a else list(range(a_, b_ + 1))
        spec_b, want_b = rng.choice([((t0c + d_ * dtc, t0c + c_ * dtc), list(range(d_, c_ - 1, -1))), ([d_, c_], [d_, c_]),
                                     (slice(c_, d_ + 1), list(range(c_, d_ + 1))), ((t0c + c_ * dtc, t0c + d_ * dtc), list(range(c_, d_ + 1)))])
        info = {"kind": "correlation time axes", "dt": dtc, "start": t0c, "N": Nc, "times_a": repr(ta), "times_b": repr(spec_b)}
        chk.search_cases += 1
        chk.count("correlation_axes")
        chk.case(info, ("corr-axes", Nc, dtc, t0c, repr(ta), repr(spec_b)))
        sx_ = oqupy.operators.sigma("x")
        try:
            tt, cc = quiet(oqupy.compute_correlations, oqupy.System(0.3 * sx_), ptc, sx_, oqupy.operators.sigma("z"), ta, spec_b, time_order="ordered",
                           initial_state=oqupy.operators.spin_dm("y+"), start_time=t0c, progress_type="silent")
            got_a = [int(round((t_ - t0c) / dtc)) for t_ in tt[0]]
            got_b = [int(round((t_ - t0c) / dtc)) for t_ in tt[1]]
            exact = all(abs(t_ - (t0c + k_ * dtc)) < 1e-12 for t_, k_ in zip(tt[0], got_a)) and all(abs(t_ - (t0c + k_ * dtc)) < 1e-12 for t_, k_ in zip(tt[1], got_b))
            shape_ok = tuple(np.shape(cc)) == (len(want_a), len(want_b))
        except Exception as ex:
            chk.fail("correlation-axes-raise", f"compute_correlations with times {ta!r} / {spec_b!r} raises {ex!r}", info)
            continue
        if got_a != want_a or got_b != want_b or not exact or not shape_ok:
            chk.fail("correlation-axes", f"compute_correlations: the returned time axes are steps {got_a} / {got_b} (array shape {tuple(np.shape(cc))}); requested "
                     f"{want_a} / {want_b} (every grid point between the end points, both included, in the direction given)", info)

    # ---- (d) tcut <-> dkmax, PtTebd.time ---------------------------------------------------
    for i in range(60 if thorough else 25):
        dts = rng.choice(DT_LITS)
        dt = float(dts)
        k = rng.randint(0, 1000)
        tcut = rng.choice([k * dt, float(lit_sum("0.0", dts, k)), (k + rng.choice([0.3, -0.3, 0.49])) * dt])
        if tcut < 0:
            continue
        par = oqupy.TempoParameters(dt=dt, epsrel=1e-3, tcut=tcut)
        add(f"[dkmax_of_tcut {float_lit(tcut)} {float_lit(dt)}]", [par.dkmax], {"kind": "tcut", "dt": dts, "tcut": repr(tcut)},
            ("tcut", dts, min(k, 20)))
        par2 = oqupy.TempoParameters(dt=dt, epsrel=1e-3, dkmax=k)
        add(f"let '(s,m,e) := fbits (tcut_of_dkmax {k} {float_lit(dt)}) in [s;m;e]", fbits(par2.tcut),
            {"kind": "dkmax->tcut", "dt": dts, "dkmax": k}, ("dkmax", dts, min(k, 20)))
        chk.search_cases += 1
        x = Fraction(tcut) / Fraction(dt)
        if abs(par.dkmax - x) > Fraction(1, 2) + Fraction(1, 10 ** 9):
            chk.fail("tcut-dkmax", f"tcut={tcut!r}, dt={dts}: dkmax={par.dkmax} is not the nearest number of steps", {"dt": dts, "tcut": repr(tcut)})

    # ---- (e) PT-TEBD: times of a run that starts part-way into the process tensors (start_step != 0) ----------
    for i in range(24 if thorough else 8):
        dts, sts = rng.choice(DT_LITS), rng.choice(START_LITS)
        dt, start = float(dts), float(sts)
        s0 = rng.choice([0, 1, 3, 7])
        n = rng.randint(1, 5) if i % 2 == 0 else rng.randint(2, 5)
        chain = oqupy.SystemChain([2, 2])
        chain.add_site_hamiltonian(0, 0.5 * oqupy.operators.sigma("z"))
        info = {"kind": "pttebd-times", "dt": dts, "start": sts, "start_step": s0, "n": n}
        try:
            tb = oqupy.PtTebd(initial_augmented_mps=oqupy.AugmentedMPS([_rho, _rho]), system_chain=chain, process_tensors=[None, None],
                              parameters=oqupy.PtTebdParameters(dt=dt, order=1, epsrel=1e-6), dynamics_sites=[0],
                              start_time=start, start_step=s0)
            rops = ["RInit"]          # the operations on the object's recorder (Model/TimeGrid.v, r_apply): the constructor initialises
            # half of the runs reach the end step in two compute calls and ask for it a second time
            if i % 2 == 1 and n >= 2:
                info["continued_from"] = s0 + rng.randint(1, n - 1)
                quiet(tb.compute, info["continued_from"], progress_type="silent")
                quiet(tb.compute, s0 + n, progress_type="silent")
                rops += ["RStep"] * n
            if i % 4 == 2:
                # every run: the same object started over (initialize()) after a finished run -- the second run's grid is a fresh one
                info["restarted"] = True
                quiet(tb.compute, s0 + n, progress_type="silent")
                handed_out = tb.get_results()
                quiet(tb.initialize)
                rops += ["RStep"] * n + ["RInit"]
            res = quiet(tb.compute, s0 + n, progress_type="silent")
            if "continued_from" not in info:
                rops += ["RStep"] * n
            times = [float(t) for t in res["time"]]
            dtimes = [float(t) for t in res["dynamics"][0].times]
        except Exception as ex:
            chk.fail("driver-raises", f"PtTebd raised {ex!r}", info)
            continue
        chk.search_cases += 1
        chk.count("pttebd_start_step_%d" % min(s0, 1))
        want = [start + float(k) * dt for k in range(n + 1)]
        if times != want or dtimes != want:
            chk.fail("grid-labels", f"PtTebd(start_time={sts}, start_step={s0}, dt={dts}).compute({s0 + n}): reported times {times[:3]}... "
                     f"({len(times)} entries) and the times of the recorded dynamics {dtimes[:3]}... ({len(dtimes)} entries) are not both start_time + k*dt, "
                     f"k=0..{n} ({want[:3]}...)" + (" after initialize() on a finished run" if info.get("restarted") else ""), info)
        exp = []
        for t in times:
            exp += fbits(t)
        add(f"flat_map (fun k => let '(s,m,e) := fbits (tebd_time {float_lit(start)} {float_lit(dt)} (Z.of_nat k + {s0}) {s0}) in [s;m;e]) (seq 0 {n + 1})",
            exp, info, ("tebd", dts, sts, s0, n))
        # the recorded dynamics of the site against the recorder model under the operations the object went through (initialisations,
        # steps): theorem restart_records_fresh_grid speaks about this list
        expd = []
        for t in dtimes:
            expd += fbits(t)
        add(f"flat_map (fun k => let '(s,m,e) := fbits (tebd_time {float_lit(start)} {float_lit(dt)} (Z.of_nat k + {s0}) {s0}) in [s;m;e]) "
            f"(rec_labels false [{'; '.join(rops)}])", expd, dict(info, recorder_ops=len(rops)), ("tebd-rec", dts, sts, s0, n, len(rops)))

    vals, errs = run_cases("C13", HEADER, exprs)
    for e in errs:
        chk.disagree("coq evaluation", e)
    for v, exp, m in zip(vals, expected, meta):
        got = ints(v)
        if got != exp:
            chk.disagree("time grid", {"meta": m, "impl": exp[:30], "model": (got or [])[:30]})

    return chk.finish(
        level="proof",
        trusted=["model: Model/TimeGrid.v on Coq primitive floats (IEEE-754 binary64, same arithmetic as CPython floats)",
                 "float literals are passed to Coq in hexadecimal (exact)",
                 "lattice theorems are finite sweeps (vm_compute) with the lattice in the statement; list/label theorems are unbounded"],
        rule="decimal-literal lattice (13 dt x 7 start literals, m up to 120/1000) with literal / computed / off-grid / random end times through "
             "Tempo, MeanFieldTempo, PtTempo; record_all on/off through compute_dynamics, compute_dynamics_with_field, "
             "compute_gradient_and_dynamics; random Dynamics.add insertion orders; tcut/dkmax; distinct = (driver, end kind, literals, size class)",
        assumptions=["int() of an integral float is exact (the theorems state the float before conversion)"])
