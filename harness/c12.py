"""C12 — bath correlation functions and their 2D integrals are consistent and correct."""
import os
import subprocess
from fractions import Fraction
import numpy as np
from scipy import integrate
import oqupy

from harness.common import run_cases, ints, coq_list, zlit, CASES, COQ
from harness.impl import quiet

HEADER = """From Coq Require Import ZArith List Bool.
From OQ Require Import Lib.RingSum Model.Shapes Model.Glue.
Import ListNotations. Open Scope Z_scope.
Definition cell (kind : nat) (g : list Z) (t1 t2 : nat) : Z :=
  let G := fun k => nth k g 0 in
  match kind with
  | 0%nat => @tri_cell ZRing G t1
  | 1%nat => @sq_cell ZRing G t1
  | _ => @rect_cell ZRing G t1 t2
  end."""


class PolyEta(oqupy.CustomSD):
    """CustomSD whose eta_function is an exact dyadic polynomial on the grid of step 1/8 (so that the
    shape branch of correlation_2d_integral is exercised with exact arithmetic)"""

    def __init__(self, coeffs):
        super().__init__(lambda w: w, cutoff=1.0)
        self._coeffs = coeffs

    def eta_function(self, tau, epsrel=None, subdiv_limit=None, matsubara=False):
        a, b, c = self._coeffs
        return complex(a * tau * tau + b * tau * tau * tau, c * tau)


def interval_goals(chk, samples):
    """closed forms of eta_function / correlation for the ohmic exponential-cutoff density at T = 0,
    each sample discharged by the `interval` tactic: a kernel-checked numeric correspondence"""
    lines = ["From Coq Require Import Reals.", "From Interval Require Import Tactic.", "Open Scope R_scope."]

    def q(x):
        f = Fraction(float(x)).limit_denominator(10 ** 15)
        return f"({f.numerator} / {f.denominator})"
    for i, (alpha, wc, tau, eta, corr) in enumerate(samples):
        x = f"({q(wc)} * {q(tau)})"
        tol = q(1e-6 * max(1.0, abs(eta)))          # the tolerance of the search oracle: 1e-6, relative for values above one
        lines.append(f"Goal Rabs ({q(alpha)} * ln (1 + {x} * {x}) - {q(eta.real)}) <= {tol}. Proof. interval. Qed.")
        lines.append(f"Goal Rabs (2 * {q(alpha)} * (atan {x} - {x}) - {q(eta.imag)}) <= {tol}. Proof. interval. Qed.")
        den = f"((1 + {x} * {x}) * (1 + {x} * {x}))"
        tolc = q(1e-5 * max(1.0, 2 * alpha * wc * wc))          # 1e-5, relative to C(0) = 2 alpha wc^2 where that is above one
        lines.append(f"Goal Rabs (2 * {q(alpha)} * {q(wc)} * {q(wc)} * (1 - {x} * {x}) / {den} - {q(corr.real)}) <= {tolc}. Proof. interval. Qed.")
        lines.append(f"Goal Rabs (2 * {q(alpha)} * {q(wc)} * {q(wc)} * (- 2 * {x}) / {den} - {q(corr.imag)}) <= {tolc}. Proof. interval. Qed.")
    os.makedirs(CASES, exist_ok=True)
    path = os.path.join(CASES, "C12_interval.v")
    open(path, "w").write("\n".join(lines) + "\n")
    p = subprocess.run(["timeout", "600", "coqc", "-w", "-all", path], cwd=CASES, stdout=subprocess.PIPE, stderr=subprocess.STDOUT, text=True)
    if p.returncode != 0:
        chk.disagree("closed form (interval)", p.stdout[-1500:])
    return 4 * len(samples)


def run(chk):
    rng = chk.rng
    thorough = chk.tier == "thorough"
    chk.proofs()
    exprs, expected, meta = [], [], []
    # ---- (a) the shape branch of CustomSD.correlation_2d_integral, exactly -------------------------
    dl = 0.125
    for it in range(150 if thorough else 60):
        a, b, c = rng.randint(-3, 3), rng.randint(-2, 2), rng.randint(-3, 3)
        corr = PolyEta((a, b, c))
        shape = rng.choice(["upper-triangle", "square", "rectangle"])
        if shape == "upper-triangle":
            t1, t2 = 0, None
        elif shape == "square":
            t1, t2 = rng.choice([0, 0, 1, 1, 2, 3, 4, 5, 6, 7, 8]), None        # t1 = 0: the cell on the diagonal (needs eta at -delta)
        else:
            t1 = rng.choice([0, 1, 1, 2, 3, 4, 5, 6, 7, 8])
            t2 = t1 + rng.randint(1, 6)
        val = corr.correlation_2d_integral(dl, t1 * dl, None if t2 is None else t2 * dl, shape=shape)
        kind = {"upper-triangle": 0, "square": 1, "rectangle": 2}[shape]
        scale = 512            # eta(k/8) * 512 is an integer for cubic polynomials with integer coefficients
        # the model's cells depend on index differences only: a cell touching the diagonal is evaluated on the table
        # shifted by one entry (which then starts at eta(-delta))
        sh = 1 if (t1 == 0 and shape != "upper-triangle") else 0
        gre = [a * k * k * 8 + b * k * k * k for k in range(-sh, 16)]
        gim = [c * k * 64 for k in range(-sh, 16)]
        for part, g, v in (("re", gre, val.real), ("im", gim, val.imag)):
            exprs.append(f"[cell {kind} {coq_list([zlit(x) for x in g])} {t1 + sh} {(t2 + sh) if t2 is not None else 0}]")
            expected.append([int(round(v * scale))] if abs(v * scale - round(v * scale)) < 1e-9 else ["non-integer", v])
            meta.append({"kind": "shape", "shape": shape, "t1": t1, "t2": t2, "part": part, "coeffs": [a, b, c]})
        chk.count("shape_" + shape)
        chk.case(meta[-1], ("shape", shape, t1, t2, a, b, c))

    vals, errs = run_cases("C12", HEADER, exprs)
    for e in errs:
        chk.disagree("coq evaluation", e)
    for v, exp, m in zip(vals, expected, meta):
        if ints(v) != exp:
            chk.disagree("cell shape", {"meta": m, "impl": exp, "model": ints(v)})

    # ---- (a2) cells far out on the time axis and almost (but not exactly) on the grid: with an exact polynomial eta the cell is the
    # second difference of that polynomial AT THE REQUESTED POSITION (exact rational arithmetic as the oracle) --------------------------------
    for it in range(24 if thorough else 12):
        a, b, c = rng.randint(-3, 3), rng.choice([-2, -1, 1, 2]), rng.randint(-3, 3)
        corr = PolyEta((a, b, c))
        k = [300, 500, 2000, 40][it % 4]
        off = [4e-3, -2e-3, 1e-2, 3e-4][(it // 4) % 4] if it % 3 != 2 else 0.3
        shape = ["square", "rectangle"][it % 2]
        F = Fraction
        dq = F(dl)
        t1q = F(float((k + off) * dl)) if shape != "rectangle" or it % 4 == 1 else F(k) * dq
        t2q = None
        if shape == "rectangle":
            t2q = F(float((k + 2 + off) * dl))
        eta_q = lambda t: (F(a) * t * t + F(b) * t * t * t, F(c) * t)
        E = lambda t: complex(float(eta_q(t)[0]), float(eta_q(t)[1]))
        # exact cell values
        def cplx(pairs):
            re = sum(sg * eta_q(t)[0] for sg, t in pairs)
            im = sum(sg * eta_q(t)[1] for sg, t in pairs)
            return complex(float(re), float(im))
        if shape == "upper-triangle":
            want = cplx([(1, t1q + dq), (-1, t1q)])
        elif shape == "square":
            want = cplx([(1, t1q + dq), (-2, t1q), (1, t1q - dq)])
        else:
            want = cplx([(1, t2q), (-1, t2q - dq), (-1, t1q), (1, t1q - dq)])
        info = {"kind": "far-cell", "shape": shape, "k": k, "offset": off, "coeffs": [a, b, c]}
        chk.search_cases += 1
        chk.count("search_far_cell")
        chk.case(info, ("far", shape, k, off, a, b, c))
        try:
            got = complex(corr.correlation_2d_integral(dl, float(t1q), None if t2q is None else float(t2q), shape=shape))
            # float evaluation of a cubic at t ~ 250 loses ~1e-16 * t^3 absolutely; the cells are O(t) .. O(t^2)
            tol = 1e-13 * abs(b) * float(t1q + 1) ** 3 + 1e-13 * abs(a) * float(t1q + 1) ** 2 + 1e-12
            if abs(got - want) > tol:
                chk.fail("far-cell-vs-exact", f"CustomSD.correlation_2d_integral('{shape}', delta={dl}, time_1={float(t1q)!r}, time_2={None if t2q is None else float(t2q)!r}) with "
                         f"eta(t) = {a} t^2 + {b} t^3 + {c} i t gives {got!r}; the exact cell at the requested position is {want!r} "
                         f"(difference {abs(got - want):.3g}, rounding allows {tol:.3g})", info)
        except Exception as ex:
            chk.fail("correlations-raise", f"raises {ex!r}", info)

    # ---- (b) closed forms by interval arithmetic inside Coq ------------------------------------------
    samples = []
    for it in range(10 if thorough else 5):
        alpha, wc, tau = rng.choice([0.05, 0.1, 0.3]), rng.choice([1.0, 3.0, 5.0]), rng.choice([0.1, 0.25, 0.7, 1.5])
        if it in (1, 2):
            # every run: long times (many inverse cut-offs, and long in absolute units with a slow bath)
            alpha, wc, tau = [(0.1, 1.0, 60.0), (0.3, 0.05, 150.0)][it - 1]
        if it in (3, 4):
            # every run: hundreds of oscillations of exp(-i w tau) below the cut-off (cut-off x time = 200, 150)
            alpha, wc, tau = [(0.1, 10.0, 20.0), (0.05, 10.0, 15.0)][it - 3]
        corr = oqupy.PowerLawSD(alpha=alpha, zeta=1, cutoff=wc, cutoff_type="exponential", temperature=0.0)
        samples.append((alpha, wc, tau, complex(corr.eta_function(tau)), complex(corr.correlation(tau))))
        # the same closed form as a search oracle on the implementation (the interval goals make it a kernel-checked statement)
        x_ = wc * tau
        eta_cf = alpha * np.log(1 + x_ * x_) + 2j * alpha * (np.arctan(x_) - x_)
        chk.search_cases += 1
        if abs(samples[-1][3] - eta_cf) > 1e-6 * max(1.0, abs(eta_cf)):
            chk.fail("eta-closed-form", f"PowerLawSD(ohmic, exponential cut-off {wc}, T=0).eta_function({tau}) = {samples[-1][3]:.8g}, the closed form "
                     f"alpha ln(1+x^2) + 2i alpha (atan x - x) gives {eta_cf:.8g}", {"kind": "eta-closed-form", "alpha": alpha, "cutoff": wc, "tau": tau})
        chk.case({"kind": "interval", "alpha": alpha, "cutoff": wc, "tau": tau}, ("interval", alpha, wc, tau))
    ngoals = interval_goals(chk, samples)
    chk.count("interval_goals", ngoals)

    # ---- (c) the property on the implementation: 2D integrals vs direct integration, tiling, symmetry ---
    # ---- (c0) continuity at low temperature: at T = 1e-3 almost the whole integrand of eta_function runs through
    # its overflow-guard branch (exp(-w/T) < eps); eta, the triangle and a square must agree with T = 0 up to O(T^2)
    for it in range(12 if thorough else 4):
        zeta = rng.choice([1.0, 2.0, 3.0])
        wc = rng.choice([1.0, 3.0])
        ctype = ["hard", "exponential", "gaussian"][it % 3]      # every cut-off type in every run (hard: nothing beyond it)
        alpha = rng.choice([0.05, 0.4])
        Tlow = rng.choice([1e-3, 4e-3])
        kind = rng.choice(["power", "custom-sd"])
        mk = (lambda T: oqupy.PowerLawSD(alpha=alpha, zeta=zeta, cutoff=wc, cutoff_type=ctype, temperature=T)) if kind == "power" else \
             (lambda T: oqupy.CustomSD(lambda w: 2.0 * alpha * w ** zeta * wc ** (1 - zeta), cutoff=wc, cutoff_type=ctype, temperature=T))
        info = {"kind": "low-temperature-" + kind, "zeta": zeta, "T": Tlow, "cutoff_type": ctype}
        chk.search_cases += 1
        chk.count("search_low_temperature")
        chk.case(info, ("lowT", kind, zeta, Tlow, ctype, wc, alpha))
        try:
            c0, c1 = mk(0.0), mk(Tlow)
            dt = rng.choice([0.05, 0.2])
            tau = rng.choice([0.1, 0.7, 2.0])
            pairs = [("eta_function(%g)" % tau, complex(c0.eta_function(tau)), complex(c1.eta_function(tau))),
                     ("upper-triangle", complex(c0.correlation_2d_integral(dt, 0.0, shape="upper-triangle")), complex(c1.correlation_2d_integral(dt, 0.0, shape="upper-triangle"))),
                     ("square", complex(c0.correlation_2d_integral(dt, 2 * dt, shape="square")), complex(c1.correlation_2d_integral(dt, 2 * dt, shape="square")))]
            for name, a0, a1 in pairs:
                if abs(a0 - a1) > 1e-3 * abs(a0) + 1e-12:
                    chk.fail("low-temperature-discontinuity:" + name.split("(")[0],
                             f"{type(c1).__name__}: {name} at T={Tlow} is {a1:.8g}, at T=0 it is {a0:.8g} (the thermal correction is O(T^2))", dict(info, what=name, dt=dt))
        except Exception as ex:
            chk.fail("correlations-raise", f"raises {ex!r}", info)

    # ---- (c1) after changing a public parameter of a used object its cells are those of a fresh equal object
    # (= direct integration of its CURRENT correlation function) -----------------------------------------------------
    for it in range(10 if thorough else 5):
        attr = ["alpha", "zeta", "cutoff", "temperature", "cutoff_type"][it % 5]
        kw = dict(alpha=0.2, zeta=1.0, cutoff=3.0, cutoff_type="exponential", temperature=0.4)
        new = {"alpha": 0.6, "zeta": 3.0, "cutoff": 1.5, "temperature": 0.0, "cutoff_type": "gaussian"}[attr]
        dt = rng.choice([0.05, 0.2])
        info = {"kind": "parameter-change", "attribute": attr, "dt": dt}
        chk.search_cases += 1
        chk.count("search_parameter_change")
        chk.case(info, ("change", attr, dt))
        try:
            obj = oqupy.PowerLawSD(**kw)
            cells = [("upper-triangle", 0.0, None), ("square", dt, None), ("rectangle", 2 * dt, 3 * dt)]
            # the correlation function itself at a few time differences (real and imaginary time), before and after the change
            taus = [0.0, dt, 3 * dt, -dt]
            cfun_ = lambda o_: [complex(o_.correlation(t_)) for t_ in taus] + ([complex(o_.correlation(dt, matsubara=True))] if o_.temperature > 0 else [])
            before = [complex(obj.correlation_2d_integral(dt, t1, t2, shape=sh)) for sh, t1, t2 in cells]
            before_c = cfun_(obj)
            setattr(obj, attr, new)
            after = [complex(obj.correlation_2d_integral(dt, t1, t2, shape=sh)) for sh, t1, t2 in cells]
            after_c = cfun_(obj)
            fresh_obj = oqupy.PowerLawSD(**dict(kw, **{attr: new}))
            fresh = [complex(fresh_obj.correlation_2d_integral(dt, t1, t2, shape=sh)) for sh, t1, t2 in cells]
            fresh_c = cfun_(fresh_obj)
            if len(after_c) != len(fresh_c) or any(abs(a_ - f_) > 1e-9 * max(abs(f_), 1e-12) for a_, f_ in zip(after_c, fresh_c)):
                chk.fail("stale-after-parameter-change", f"PowerLawSD: after setting {attr} = {new!r} correlation(tau) at tau = {taus} is {after_c}, a fresh object with "
                         f"the same parameters gives {fresh_c}", dict(info, shape="correlation function"))
            for (sh, t1, t2), a_, f_, b_ in zip(cells, after, fresh, before):
                if abs(a_ - f_) > 1e-9 * max(abs(f_), 1e-12):
                    chk.fail("stale-after-parameter-change", f"PowerLawSD: after setting {attr} = {new!r} the {sh} cell is {a_:.8g}, a fresh object with the same "
                             f"parameters gives {f_:.8g} (before the change it was {b_:.8g})", dict(info, shape=sh))
                    break
        except Exception as ex:
            chk.fail("correlations-raise", f"raises {ex!r}", info)

    n_search = 60 if (thorough or chk.disagreements or chk.broken) else 18
    strata = [(0.05, "upper-triangle", True), (0.0, "upper-triangle", True), (0.5, "upper-triangle", False), (0.05, "square", False),
              (5.0, "rectangle", False), (0.0, "square", True), (0.5, "rectangle", True), (0.0, "upper-triangle", False), (2.0, "upper-triangle", False)]
    for it in range(n_search):
        T = rng.choice([0.0, 0.0, 0.05, 0.5, 5.0, 50.0])
        forced = strata[it] if it < len(strata) else None
        if forced:
            T = forced[0]
        zeta = rng.choice([0.5, 1.0, 1.5, 2.0, 2.5, 3.0, 4.0])
        wc = rng.choice([1.0, 3.0])
        ctype = rng.choice(["hard", "exponential", "gaussian"])
        if forced:
            ctype = ["hard", "exponential", "gaussian"][it % 3]
        if ctype == "hard" and T == 0.05:
            wc = 3.0        # a hard cut-off far above the thermal scale (cut-off > 36 T: the guarded branch reaches the cut-off)
        alpha = rng.choice([0.05, 0.4])
        kind = rng.choice(["power", "power", "custom-sd", "custom-corr"])
        if it == 2:
            kind = "custom-corr"            # every run: a finite-memory custom correlation function (below)
        if it == 4 or it == 7:
            # every run: sub-ohmic power laws at zero temperature with the exponential cut-off (where closed forms exist: Gamma(zeta - 1) < 0)
            T, zeta, ctype, kind = 0.0, [0.5, 0.75][it // 7], "exponential", "power"
        pw = oqupy.PowerLawSD(alpha=alpha, zeta=zeta, cutoff=wc, cutoff_type=ctype, temperature=T)
        if kind == "power":
            corr = pw
        elif kind == "custom-sd":
            corr = oqupy.CustomSD(lambda w: 2.0 * alpha * w ** zeta * wc ** (1 - zeta), cutoff=wc, cutoff_type=ctype, temperature=T)
        else:
            # an analytic correlation function (Hermitian: C(-t) = conj C(t)); cheap to evaluate, so that the library's own
            # double quadrature over the callable stays fast
            ca, cb, cw = rng.choice([0.1, 0.3]), rng.choice([0.5, 2.0]), rng.choice([0.0, 1.5, 4.0, np.pi])
            cfun = lambda t, ca=ca, cb=cb, cw=cw: ca * np.exp(-cb * t * t) * np.exp(-1j * cw * t)
            if it % 3 == 2:
                # a finite-memory correlation function: complex up to t = 0.8 and exactly zero beyond (real at any single probe time >= 0.8)
                cfun = lambda t, ca=ca, cw=cw: (ca * (1 - abs(t) / 0.8) ** 2 * np.exp(-1j * (cw + 1.0) * t)) if abs(t) < 0.8 else 0.0 * 1j
            corr = oqupy.CustomCorrelations(cfun)
        dt = rng.choice([0.05, 0.2])
        info = {"kind": kind, "zeta": zeta, "T": T, "cutoff_type": ctype, "dt": dt}
        eps = 1e-8
        chk.search_cases += 1
        chk.count("search_" + kind)
        chk.case(info, ("search", kind, zeta, T, ctype, dt, it))
        try:
            shape = rng.choice(["square", "upper-triangle", "rectangle", "upper-triangle"])
            t1 = 0.0 if (shape == "upper-triangle" and rng.random() < 0.5) else rng.randint(1, 4) * dt
            if forced:
                shape = forced[1]
                t1 = 0.0 if forced[2] else rng.randint(1, 4) * dt
            if shape == "upper-triangle" and t1 != 0.0:
                t1 = rng.choice([2.0, 3.0, 2.5, 0.5, 4.0, 1.0]) * dt          # offsets other than one cell size, off-grid ones too
            elif shape in ("square", "rectangle") and rng.random() < 0.3:
                t1 = rng.choice([0.0, 0.5 * dt])                        # cells on / straddling the diagonal
            # rectangles of whole cells, and rectangles shorter than (or not a multiple of) the cell size
            t2 = t1 + (rng.randint(1, 3) if it % 2 == 0 else rng.choice([0.25, 0.6, 1.5, 2.5])) * dt if shape == "rectangle" else None
            got = complex(corr.correlation_2d_integral(dt, t1, t2, shape=shape, epsrel=eps))
            hi = {"square": lambda x: dt, "rectangle": lambda x: dt, "upper-triangle": lambda x: x - t1}[shape]
            b_ = t2 if t2 is not None else t1 + dt
            memo = {}

            def f(y, x):
                # the real and the imaginary pass of dblquad visit (mostly) the same points: evaluate C once per point
                key = x - y
                if key not in memo:
                    memo[key] = complex(cfun(key)) if kind == "custom-corr" else complex(pw.correlation(key, epsrel=1e-9))
                return memo[key]
            re = integrate.dblquad(lambda y, x: f(y, x).real, t1, b_, lambda x: 0.0, hi, epsabs=1e-12, epsrel=1e-8)[0]
            im = integrate.dblquad(lambda y, x: f(y, x).imag, t1, b_, lambda x: 0.0, hi, epsabs=1e-12, epsrel=1e-8)[0]
            want = re + 1j * im
            scale = max(abs(want), abs(complex(cfun(0.0) if kind == "custom-corr" else pw.correlation(0.0))) * dt * dt)
            if abs(got - want) > 1e-5 * scale:
                chk.fail("cell-vs-direct-integration:" + shape + ("" if t1 == 0.0 else "-offset"),
                         f"{type(corr).__name__}.correlation_2d_integral('{shape}', delta={dt}, time_1={t1}, time_2={t2}) = {got:.6g}, "
                         f"direct integration of its correlation function gives {want:.6g}", dict(info, shape=shape, t1=t1, t2=t2))
            # tiling: the cells of the first n steps sum to the integral over the whole triangle
            n = 4
            tri = complex(corr.correlation_2d_integral(dt, 0.0, shape="upper-triangle", epsrel=eps))
            sq = [complex(corr.correlation_2d_integral(dt, k * dt, shape="square", epsrel=eps)) for k in range(1, n)]
            total = n * tri + sum((n - k) * sq[k - 1] for k in range(1, n))
            big = complex(corr.correlation_2d_integral(n * dt, 0.0, shape="upper-triangle", epsrel=eps))
            if abs(total - big) > 1e-5 * max(abs(big), 1e-12):
                chk.fail("tiling", f"{type(corr).__name__}: the cells of the first {n} steps sum to {total:.8g}, the whole triangle is {big:.8g}", info)
            if tri.real < -1e-12:
                chk.fail("triangle-negative", "the real part of the triangle integral is negative", info)
            # rectangles of the SAME object: additive in their extent (theorem rectangle_splits), width delta = the square
            ra = rng.randint(1, 3) * dt
            rb, rc = ra + rng.randint(1, 2) * dt, ra + rng.randint(3, 4) * dt
            r_ab = complex(corr.correlation_2d_integral(dt, ra, rb, shape="rectangle", epsrel=eps))
            r_ac = complex(corr.correlation_2d_integral(dt, ra, rc, shape="rectangle", epsrel=eps))
            r_bc = complex(corr.correlation_2d_integral(dt, rb, rc, shape="rectangle", epsrel=eps))
            r_sq = complex(corr.correlation_2d_integral(dt, ra, ra + dt, shape="rectangle", epsrel=eps))
            s_sq = complex(corr.correlation_2d_integral(dt, ra, shape="square", epsrel=eps))
            # ... and a square split at an interior point: the two rectangles shorter than delta add up to it
            cut_ = ra + rng.choice([0.25, 0.4, 0.7]) * dt
            r_lo = complex(corr.correlation_2d_integral(dt, ra, cut_, shape="rectangle", epsrel=eps))
            r_hi = complex(corr.correlation_2d_integral(dt, cut_, ra + dt, shape="rectangle", epsrel=eps))
            if abs(r_lo + r_hi - s_sq) > 1e-6 * max(abs(s_sq), abs(tri)):
                chk.fail("rectangle-additivity", f"{type(corr).__name__}: rect({ra:.3g},{cut_:.3g}) + rect({cut_:.3g},{ra + dt:.3g}) = {r_lo + r_hi:.8g}, the square at {ra:.3g} "
                         f"is {s_sq:.8g} (rectangles shorter than delta)", dict(info, rect=[ra, cut_, ra + dt]))
            if abs(r_ab + r_bc - r_ac) > 1e-6 * max(abs(r_ac), abs(tri)) or abs(r_sq - s_sq) > 1e-6 * max(abs(s_sq), abs(tri)):
                chk.fail("rectangle-additivity", f"{type(corr).__name__}: rectangles requested one after the other on one object: rect({ra:.3g},{rb:.3g}) + rect({rb:.3g},{rc:.3g}) "
                         f"= {r_ab + r_bc:.8g}, rect({ra:.3g},{rc:.3g}) = {r_ac:.8g}; rectangle of width delta {r_sq:.8g}, square {s_sq:.8g}", dict(info, rect=[ra, rb, rc]))
            tau = rng.choice([0.1, 0.7, 2.0])
            cp, cm = complex(corr.correlation(tau)), complex(corr.correlation(-tau))
            if abs(cm - cp.conjugate()) > 1e-6 * max(abs(cp), 1e-12):
                chk.fail("hermitian-symmetry", f"C(-tau) != conj C(tau) at tau={tau}: {cm} vs {cp}", info)
            if kind == "custom-sd":
                a_, b2 = complex(corr.correlation_2d_integral(dt, dt, shape="square", epsrel=eps)), complex(pw.correlation_2d_integral(dt, dt, shape="square", epsrel=eps))
                if abs(a_ - b2) > 1e-7 * max(abs(b2), 1e-12):
                    chk.fail("custom-vs-powerlaw", "a custom spectral density equal to a power law gives different integrals", info)
            if T > 0 and kind != "custom-corr":
                m = corr.correlation_2d_integral(dt, dt, shape="square", matsubara=True)
                if abs(np.imag(m)) > 0:
                    chk.fail("matsubara-not-real", "the Matsubara integral is not real", info)
                # imaginary-time squares and rectangles at any position (also on / straddling the diagonal) against direct integration of
                # the object's own imaginary-time correlation function; in imaginary time the cell is MINUS the double integral
                # (d^2 eta / d tau^2 = -C).  Hard and gaussian cut-offs (the exponential one overflows at negative imaginary times);
                # offset triangles are left out (DESIGN A.3, observation outside the properties)
                if ctype != "exponential" and it % 2 == 0:
                    mt1 = rng.choice([0.0, 0.25 * dt, dt, 2 * dt])
                    mt2 = mt1 + rng.choice([0.5, 1.0, 2.0]) * dt
                    for shp_, a_, b_ in (("square", mt1, mt1 + dt), ("rectangle", mt1, mt2)):
                        gotm = complex(corr.correlation_2d_integral(dt, mt1, mt2 if shp_ == "rectangle" else None, shape=shp_, matsubara=True, epsrel=eps))
                        fm = lambda y, x: float(np.real(pw.correlation(x - y, matsubara=True, epsrel=1e-9)))
                        wantm = -integrate.dblquad(fm, a_, b_, lambda x: 0.0, lambda x: dt, epsabs=1e-12, epsrel=1e-8)[0]
                        chk.search_cases += 1
                        if abs(gotm - wantm) > 1e-5 * max(abs(wantm), 1e-9):
                            chk.fail("matsubara-cell-vs-direct-integration", f"{type(corr).__name__}.correlation_2d_integral('{shp_}', delta={dt}, time_1={mt1}, matsubara=True) = "
                                     f"{gotm:.6g}, minus the double integral of its imaginary-time correlation function is {wantm:.6g}",
                                     dict(info, shape=shp_, t1=mt1, t2=mt2 if shp_ == "rectangle" else None, matsubara=True))
        except Exception as ex:
            chk.fail("correlations-raise", f"{type(corr).__name__} raises {ex!r}", info)

    return chk.finish(
        level="proof",
        trusted=["models: Model/Shapes.v (cells), Analysis/Eta.v (Coquelicot: cells are the 2D integrals; kernels); the closed-form samples are "
                 "themselves kernel-checked goals closed by the interval tactic (Coq Interval, primitive-float interval arithmetic)",
                 "QUADPACK (scipy.integrate) is not modelled"],
        rule="correlation_2d_integral of a CustomSD with exact dyadic polynomial eta on the 1/8 grid, three shapes, positions 1-8, extents 1-6 "
             "(exact); eta_function and correlation of the ohmic exponential density at T=0 against their closed forms by interval arithmetic; "
             "search: all cut-offs, zeta in {.5,1,2,3,4}, T from 0 through the overflow-guard crossover to 50, cells vs dblquad incl. offset triangles, "
             "tiling, C(-t)=conj C(t), custom vs power law, Matsubara realness; distinct = distinct configuration",
        assumptions=["convergence of the numerical quadrature and the threshold effect of the overflow guard are explored, not proved"])
