"""C11 — the Gibbs-state computation returns the exact reduced thermal state."""
import numpy as np
from scipy import integrate
from scipy.linalg import expm
import oqupy
from oqupy.backends.tempo_backend import TIBaseBackend

from harness.common import run_cases, ints, coq_list, zlit
from harness.impl import quiet

HEADER = """From Coq Require Import ZArith List Bool.
From OQ Require Import Lib.RingSum Lib.Mat Model.PathSum Model.Glue Proofs.PathSumFree.
Import ListNotations. Open Scope Z_scope.
(* right-hand side of theorem gibbs_zero_coupling: the plain product of half-slice propagators *)
Definition gibbs_free_flat (d : nat) (P : list (list Z)) (n : nat) : list Z :=
  let col := fun b => @free ZRing (@mid ZRing d) (@mid ZRing d) (fun _ => (P, P))
                            (map (fun i => if Nat.eqb i b then 1 else 0) (seq 0 d)) n in
  flat_map (fun a => map (fun b => nth a (col b) 0) (seq 0 d)) (seq 0 d)."""

LN2 = np.log(2.0)
SX, SY, SZ = (oqupy.operators.sigma(a) for a in "xyz")


def zmat_lit(m):
    return coq_list([coq_list([zlit(int(x)) for x in r]) for r in np.asarray(m)])


def reorganisation_energy(corr, T):
    """lambda = int J(w)/w dw from the object's own spectral density"""
    f = lambda w: corr.spectral_density(w) / w
    a = integrate.quad(f, 0, corr.cutoff, epsabs=1e-13, epsrel=1e-11, limit=400)[0]
    b = 0.0 if corr.cutoff_type == "hard" else integrate.quad(f, corr.cutoff, np.inf, epsabs=1e-13, epsrel=1e-11, limit=400)[0]
    return a + b


def run(chk):
    rng = chk.rng
    thorough = chk.tier == "thorough"
    chk.proofs()
    exprs, expected, meta = [], [], []
    # ---- (a) TIBaseBackend vs the imaginary-time path-sum model (integer weights 2^(m o o)) -------
    for it in range(50 if thorough else 18):
        d = rng.choice([2, 2, 3])
        n = rng.randint(1, 4 if d == 2 else 3)
        o = [rng.randint(0, 2) for _ in range(d)]
        ms = [rng.randint(0, 1) for _ in range(n + 2)]
        if it % 4 == 3:
            ms = [0] * (n + 2)          # zero coupling: the network must be the free product (gibbs_zero_coupling)
        P = np.array([[rng.randint(-1, 2) for _ in range(d)] for _ in range(d)], dtype=float)
        coeffs = lambda k: complex(-ms[k] * LN2, 0.0)
        ops = (-np.array(o, dtype=float), np.array(o, dtype=float), np.zeros(d))
        b = TIBaseBackend(d, 1e-15, P, coeffs, ops, max_step=n + 1)
        b.initialise()
        while len(b.data) <= n:
            b.compute_step()
        info = {"kind": "backend", "d": d, "n": n, "o": o, "m": ms}
        for k in range(1, n + 1):
            exprs.append(f"gibbs_flat {d} {zmat_lit(P)} {coq_list([zlit(x) for x in o])} {coq_list([zlit(x) for x in ms])} {k}")
            # the back-end stores its matrices transposed (see the repair of GibbsTempo): compare the transpose
            expected.append(np.array(b.data[k]).T.reshape(-1))
            meta.append(dict(info, slices=k))
            chk.case(meta[-1], ("backend", d, n, tuple(o), tuple(ms), k))
            if not any(ms):
                exprs.append(f"gibbs_free_flat {d} {zmat_lit(P)} {k}")
                expected.append(np.array(b.data[k]).T.reshape(-1))
                meta.append(dict(info, slices=k, kind="backend-zero-coupling-vs-free-product"))
        chk.count("backend_d%d" % d)

    # ---- (a2) the glue of GibbsTempo itself (slice length, coefficient requests, propagator, read-out) -------
    # injected Matsubara integrals -m_k ln 2 through a CustomSD subclass; H = diag(E) with exp(-E dt/2) a power of two
    class InjSD(oqupy.CustomSD):
        def __init__(self, ms, temperature):
            super().__init__(lambda w: w, cutoff=1.0, cutoff_type="exponential", temperature=temperature)
            self.ms, self.calls = ms, []

        def correlation_2d_integral(self, delta, time_1, time_2=None, shape="square", epsrel=1e-8, matsubara=False, **kw):
            k = int(round(time_1 / delta))
            self.calls.append((k, shape, bool(matsubara), float(delta), time_2))
            return complex(-self.ms[k] * LN2, 0.0)

    for it in range(40 if thorough else 14):
        d = rng.choice([2, 2, 3])
        N = rng.choice([2, 3, 4, 5, 6, 7] if d == 2 else [2, 3, 4, 5])
        T = rng.choice([0.5, 1.0, 2.0])
        o = [rng.randint(0, 2) for _ in range(d)]
        e = [rng.randint(0, 1) for _ in range(d)]
        ms = [rng.randint(0, 2) for _ in range(N + 3)]
        dt = 1 / (T * N)
        info = {"kind": "GibbsTempo-glue", "d": d, "n_steps": N, "T": T, "o": o, "e": e, "m": ms}
        try:
            corr = InjSD(ms, T)
            g = oqupy.GibbsTempo(oqupy.System(np.diag([-2 * x * LN2 / dt for x in e]).astype(complex)),
                                 oqupy.Bath(np.diag(np.array(o, dtype=float)), corr), oqupy.GibbsParameters(n_steps=N, epsrel=1e-15))
            dyn = quiet(g.compute, progress_type="silent")
            states = [np.array(x) for x in dyn.states]
            times = list(dyn.times)
        except Exception as ex:
            chk.fail("gibbs-raises", f"GibbsTempo raises {ex!r}", info)
            continue
        chk.search_cases += 1
        chk.count("gibbs_glue_d%d" % d)
        bad = [c for c in corr.calls if c[1] != ("upper-triangle" if c[0] == 0 else "square") or not c[2] or abs(c[3] - dt) > 1e-15 * dt or c[4] is not None]
        if bad:
            chk.fail("gibbs-coefficient-request", f"GibbsTempo requests the Matsubara integral with (k, shape, matsubara, delta, time_2) = {bad[0]} "
                     f"(slice length {dt})", info)
        if len(states) != N + 1 or abs(times[-1] - 1 / T) > 1e-12 / T:
            chk.fail("gibbs-imaginary-time", f"GibbsTempo with n_steps={N}, T={T} ends after {len(states) - 1} slices at imaginary time {times[-1]} (expected {N} slices, 1/T = {1 / T})", info)
        P = np.diag([2.0 ** x for x in e])
        for k in range(1, len(states)):
            exprs.append(f"gibbs_flat {d} {zmat_lit(P)} {coq_list([zlit(x) for x in o])} {coq_list([zlit(x) for x in ms])} {k}")
            expected.append(states[k].reshape(-1))
            meta.append(dict(info, slices=k))
            chk.case(meta[-1], ("glue", d, N, T, tuple(o), tuple(e), tuple(ms), k))

    vals, errs = run_cases("C11", HEADER, exprs, chunk=40)
    for e in errs:
        chk.disagree("coq evaluation", e)
    for v, exp, m in zip(vals, expected, meta):
        got = ints(v)
        if got is None or len(got) != len(exp) or np.abs(np.array(got, dtype=float) - exp).max() > 1e-8 * max(1.0, np.abs(exp).max()):
            chk.disagree("imaginary-time path sum", {"meta": m, "impl": [complex(x) for x in exp][:6], "model": (got or [])[:6]})

    # ---- (b) the property through GibbsTempo ------------------------------------------------------
    n_search = 30 if (thorough or chk.disagreements or chk.broken) else 9
    for it in range(n_search):
        d = rng.choice([2, 2, 3, 4] if thorough else [2, 2, 3])
        T = rng.choice([0.5, 1.0, 2.0, 0.1, 0.2])          # 0.1, 0.2: spectral weight far above the temperature
        nst = rng.choice([2, 3, 4, 5, 7, 10, 25])
        kind = rng.choice(["commuting", "commuting", "zero-coupling", "weak"])
        if it == 4:
            nst, kind, d = 290, "commuting", 2                # every run: many slices (independence of the number of steps has no upper end)
        if it < 2:
            nst, kind = [2, 3][it], "zero-coupling"          # every run: the minimal slice numbers with a complex Hamiltonian
        elif it < 4:
            kind = "commuting"                                # every run: coupled commuting models far above the zero of energy
        o = np.array([rng.choice([-1.0, 0.0, 0.5, 1.0]) for _ in range(d)])
        if it == 4:
            o, T = np.array([1.0, -0.5]), 1.0
        alpha = 0.0 if kind == "zero-coupling" else (0.3 if kind == "commuting" else 1e-4)
        corr = oqupy.PowerLawSD(alpha=alpha, zeta=rng.choice([1, 3]), cutoff=rng.choice([1.0, 3.0]),
                                cutoff_type=rng.choice(["exponential", "gaussian"]), temperature=T)
        # the thermal state does not depend on the zero of energy: offsets of many T in both directions
        E0 = rng.choice([0.0, 0.0, 12.0, 20.0, -15.0]) * T if it >= 4 else [18.0, 0.0, 24.0, 16.0][it] * T
        if kind == "commuting":
            E = np.array([rng.uniform(-1, 1) for _ in range(d)]) + E0
            H = np.diag(E).astype(complex)
        else:
            a = np.array([[rng.gauss(0, 1) + 1j * rng.gauss(0, 1) for _ in range(d)] for _ in range(d)])
            H = (a + a.conj().T) / 3 + E0 * np.eye(d)
        bath = oqupy.Bath(np.diag(o), corr)
        info = {"kind": kind, "d": d, "T": T, "n_steps": nst, "o": list(o), "energy_offset_over_T": E0 / T}
        try:
            gp_eps = 1e-10 if (it % 2 == 0 or kind != "commuting") else 1e-6          # two truncation tolerances
            info["epsrel"] = gp_eps
            g = oqupy.GibbsTempo(oqupy.System(H), bath, oqupy.GibbsParameters(n_steps=nst, epsrel=gp_eps))
            quiet(g.compute, progress_type="silent")
            s1 = g.get_state()
            if it % 3 == 0:
                # the one-call wrapper returns the dynamics of the same computation
                dw_ = quiet(oqupy.gibbs_tempo_compute, oqupy.System(H), bath, oqupy.GibbsParameters(n_steps=nst, epsrel=gp_eps), progress_type="silent")
                sw_ = np.array(dw_.states[-1]) if hasattr(dw_, "states") else np.array(dw_)      # the wrapper returns the state
                if not np.allclose(sw_ / np.trace(sw_), s1, rtol=0, atol=1e-12):
                    chk.fail("gibbs-wrapper-differs", "gibbs_tempo_compute differs from GibbsTempo(...).compute()", info)
            slices = [(float(t_), np.array(x_)) for t_, x_ in zip(g.get_dynamics().times, g.get_dynamics().states)]
            quiet(g.compute, progress_type="silent")
            s2 = g.get_state()
        except Exception as ex:
            chk.fail("gibbs-raises", f"GibbsTempo raises {ex!r}", info)
            continue
        chk.search_cases += 1
        chk.count("gibbs_" + kind)
        chk.case(info, ("gibbs", kind, d, T, nst, it))
        if not np.array_equal(s1, s2):
            chk.fail("gibbs-not-idempotent", f"repeating compute() changes the state by {np.abs(s1 - s2).max():.2e}", info)
        if abs(np.trace(s1) - 1) > 1e-10 or np.abs(s1 - s1.conj().T).max() > 1e-8 or np.linalg.eigvalsh((s1 + s1.conj().T) / 2).min() < -1e-8:
            chk.fail("gibbs-unphysical", "the Gibbs state is not a normalised Hermitian positive matrix", info)
        if kind == "commuting":
            lam = reorganisation_energy(corr, T)
            w = np.exp(-(np.diag(H).real - lam * o ** 2) / T)
            want = np.diag(w / w.sum())
            tol = 1e-4      # ~n_steps^2 Matsubara cells, each integrated to 1.5e-8 relative
        else:
            want = expm(-H / T)
            want = want / np.trace(want)
            tol = 1e-8 if kind == "zero-coupling" else 5e-3
        if kind == "zero-coupling":
            # every recorded imaginary-time slice: exp(-H tau) (un-normalised), not only the last one
            for tau_, x_ in slices:
                wk = expm(-H * tau_)
                dk = np.abs(x_ - wk).max() / max(1.0, np.abs(wk).max())
                if dk > 1e-8:
                    chk.fail("gibbs-slice-wrong", f"GibbsTempo at zero coupling: the recorded state at imaginary time {tau_:.4g} deviates from exp(-H tau) by {dk:.2e} "
                             f"(from its transpose by {np.abs(x_.T - wk).max() / max(1.0, np.abs(wk).max()):.2e}); n_steps={nst}", dict(info, tau=tau_))
                    break
        dev = np.abs(s1 - want).max()
        if dev > tol:
            what = {"commuting": "the exact reduced thermal state (Boltzmann weights shifted by the reorganisation energy)",
                    "zero-coupling": "exp(-H/T)/Z", "weak": "exp(-H/T)/Z (weak coupling)"}[kind]
            tr = np.abs(s1.T - want).max()
            chk.fail("gibbs-state-wrong:" + kind, f"GibbsTempo deviates from {what} by {dev:.2e} (its transpose by {tr:.2e}); n_steps={nst}", info)

    # ---- (b3) a coupling-strength scan with ONE spectral-density object: baths built at different coupling strengths, all
    # used only after all of them exist (each bath keeps the strength it was built with) -------------------------------------
    for it in range(2 if thorough else 1):
        T, nst = rng.choice([0.5, 1.0]), rng.choice([4, 6])
        o = np.diag([1.0, 0.0, -0.5][:3])
        a = np.array([[rng.gauss(0, 1) + 1j * rng.gauss(0, 1) for _ in range(3)] for _ in range(3)])
        H = (a + a.conj().T) / 3
        kw = dict(zeta=1, cutoff=3.0, cutoff_type="exponential", temperature=T)
        scan = oqupy.PowerLawSD(alpha=0.3, **kw)
        strengths = [0.3, 0.0, 0.1]
        baths = []
        for al in strengths:
            scan.alpha = al
            baths.append(oqupy.Bath(o, scan))
        info = {"kind": "coupling-scan", "T": T, "n_steps": nst, "strengths": strengths}
        chk.search_cases += 1
        chk.count("gibbs_coupling_scan")
        try:
            # one System object serves the whole scan, with a different number of imaginary-time slices in every computation
            shared_system = oqupy.System(H)
            nsts = [nst, nst + 3, nst + 1]
            info["n_steps"] = nsts
            got = [quiet(oqupy.gibbs_tempo_compute, shared_system, b_, oqupy.GibbsParameters(n_steps=n_, epsrel=1e-10), progress_type="silent") for b_, n_ in zip(baths, nsts)]
            want = [quiet(oqupy.gibbs_tempo_compute, oqupy.System(H), oqupy.Bath(o, oqupy.PowerLawSD(alpha=al, **kw)), oqupy.GibbsParameters(n_steps=n_, epsrel=1e-10),
                          progress_type="silent") for al, n_ in zip(strengths, nsts)]
        except Exception as ex:
            chk.fail("gibbs-raises", f"GibbsTempo raises {ex!r}", info)
            continue
        canon = expm(-H / T)
        canon = canon / np.trace(canon)
        devs = [float(np.abs(np.array(g_) - np.array(w_)).max()) for g_, w_ in zip(got, want)]
        if max(devs) > 1e-9 or np.abs(np.array(got[1]) - canon).max() > 1e-8:
            chk.fail("gibbs-scan-mixes-strengths", f"baths built from one PowerLawSD object at alpha = {strengths}: the Gibbs states differ from those of freshly built "
                     f"spectral densities by {devs}; the zero-coupling one from exp(-H/T)/Z by {np.abs(np.array(got[1]) - canon).max():.2e}", info)

    # ---- (b4) a temperature scan with ONE GibbsParameters object and one System: every computation belongs to the temperature
    # of ITS bath (the imaginary-time step is 1 / (T n_steps) for that T) ----------------------------------------------------
    for it in range(2 if thorough else 1):
        temps = rng.sample([0.4, 0.7, 1.0, 1.6], 3)
        nst = rng.choice([4, 6])
        o = np.diag([1.0, 0.0, -0.5])
        a = np.array([[rng.gauss(0, 1) + 1j * rng.gauss(0, 1) for _ in range(3)] for _ in range(3)])
        H = (a + a.conj().T) / 3
        strengths = [0.2, 0.0, 0.1]
        info = {"kind": "temperature-scan", "temperatures": temps, "n_steps": nst, "strengths": strengths}
        chk.search_cases += 1
        chk.count("gibbs_temperature_scan")
        try:
            shared_par, shared_system = oqupy.GibbsParameters(n_steps=nst, epsrel=1e-10), oqupy.System(H)
            mk_bath = lambda T_, al: oqupy.Bath(o, oqupy.PowerLawSD(alpha=al, zeta=1, cutoff=3.0, cutoff_type="exponential", temperature=T_))
            _ = str(shared_par)
            got = [quiet(oqupy.gibbs_tempo_compute, shared_system, mk_bath(T_, al), shared_par, progress_type="silent") for T_, al in zip(temps, strengths)]
            want = [quiet(oqupy.gibbs_tempo_compute, oqupy.System(H), mk_bath(T_, al), oqupy.GibbsParameters(n_steps=nst, epsrel=1e-10), progress_type="silent")
                    for T_, al in zip(temps, strengths)]
        except Exception as ex:
            chk.fail("gibbs-raises", f"GibbsTempo raises {ex!r}", info)
            continue
        canon = expm(-H / temps[1])
        canon = canon / np.trace(canon)
        devs = [float(np.abs(np.array(g_) - np.array(w_)).max()) for g_, w_ in zip(got, want)]
        if max(devs) > 1e-9 or np.abs(np.array(got[1]) - canon).max() > 1e-8:
            chk.fail("gibbs-scan-mixes-temperatures", f"one GibbsParameters object used for baths at T = {temps}: the Gibbs states differ from those computed with fresh "
                     f"parameter objects by {devs}; the zero-coupling one from exp(-H/T)/Z at its own T by {np.abs(np.array(got[1]) - canon).max():.2e}", info)

    # ---- (b2) the zero of energy is irrelevant: a sweep of offsets H + E0 (E0/T from -15 to 30), two tolerances -----------
    for it in range(4 if thorough else 2):
        d = 3
        T = rng.choice([0.5, 1.0])
        o = np.array([1.0, -0.5, 0.5]) if it % 2 == 0 else np.array([rng.choice([-1.0, 0.0, 0.5, 1.0]) for _ in range(d)])
        E = np.array([0.0, 0.7, 1.3]) * rng.choice([1.0, 3.0])
        corr = oqupy.PowerLawSD(alpha=0.1, zeta=1, cutoff=3.0, cutoff_type="exponential", temperature=T)
        bath = oqupy.Bath(np.diag(o), corr)
        eps_ = [1e-6, 1e-9][it % 2]
        ref_state = None
        for x in [0.0, -15.0, 8.0, 12.0, 16.0, 20.0, 24.0, 30.0]:
            info = {"kind": "energy-offset", "T": T, "o": list(o), "E": list(E), "epsrel": eps_, "energy_offset_over_T": x}
            try:
                g = oqupy.GibbsTempo(oqupy.System(np.diag(E + x * T).astype(complex)), bath, oqupy.GibbsParameters(n_steps=6, epsrel=eps_))
                quiet(g.compute, progress_type="silent")
                st = g.get_state()
            except Exception as ex:
                chk.fail("gibbs-raises", f"GibbsTempo raises {ex!r}", info)
                continue
            chk.search_cases += 1
            chk.count("gibbs_energy_offsets")
            if ref_state is None:
                ref_state = st
            elif np.abs(st - ref_state).max() > 1e3 * eps_:
                chk.fail("gibbs-depends-on-energy-zero", f"GibbsTempo: adding {x} T to the Hamiltonian changes the thermal state by {np.abs(st - ref_state).max():.2e} "
                         f"(epsrel {eps_})", info)
        chk.case({"kind": "energy-offset", "T": T, "o": list(o), "epsrel": eps_}, ("offsets", T, tuple(o), eps_, it))

    # ---- (c) the Matsubara cells tile the imaginary-time triangle [0, 1/T]: their total is lambda / T exactly ------------
    # (int_0^beta (beta - u) K(u) du with K(u) = K(beta - u)); this is what makes the commuting closed form independent of n
    for it in range(12 if thorough else 5):
        T = [0.1, 0.2, 0.5, 0.05, 2.0][it % 5]
        corr = oqupy.PowerLawSD(alpha=rng.choice([0.1, 0.3]), zeta=rng.choice([1, 3]), cutoff=rng.choice([1.0, 3.0, 8.0]),
                                cutoff_type=rng.choice(["hard", "exponential", "gaussian"]), temperature=T)
        info = {"kind": "matsubara-total", "T": T, "cutoff": corr.cutoff, "cutoff_type": corr.cutoff_type, "zeta": corr.zeta}
        chk.search_cases += 1
        chk.count("matsubara_total")
        chk.case(info, ("mtotal", T, corr.cutoff, corr.cutoff_type, corr.zeta, corr.alpha))
        try:
            lam = reorganisation_energy(corr, T)
            tot = complex(corr.correlation_2d_integral(1 / T, 0.0, shape="upper-triangle", matsubara=True, epsrel=1e-10))
        except Exception as ex:
            chk.fail("gibbs-raises", f"the Matsubara integral raises {ex!r}", info)
            continue
        if abs(abs(tot.real) - lam / T) > 1e-6 * lam / T or abs(tot.imag) > 0:
            chk.fail("matsubara-total-wrong", f"the Matsubara double integral over the whole triangle [0, 1/T] is {tot.real:.8f}, "
                     f"the reorganisation energy over T is {lam / T:.8f} (relative deviation {abs(abs(tot.real) - lam / T) / (lam / T):.2e}): "
                     "the Boltzmann weights of the Gibbs state are shifted by the wrong amount", info)

    return chk.finish(
        level="proof",
        trusted=["model: Model/PathSum.v instantiated for imaginary time (Model/Glue.v gibbs_flat); weights are exact powers of two "
                 "(coefficients -m ln 2), comparison at 1e-8 relative because SVDs sit in the back-end",
                 "search oracle: closed forms with the reorganisation energy from an independent quadrature of the object's own spectral density"],
        rule="GibbsTempo itself with injected Matsubara integrals (CustomSD subclass) and power-of-two diagonal propagators, n_steps 2-7, every slice; "
             "TIBaseBackend with integer non-symmetric half-step propagators, coupling eigenvalues in {0,1,2}, coefficients in {0,-ln 2}, dimension "
             "2-3, 1-4 slices (every intermediate read-out); GibbsTempo on commuting models (all cut-offs, T, n_steps in {2,3,4,5,7,10,25}), complex "
             "Hermitian Hamiltonians at zero and weak coupling, repeated compute(); distinct = distinct configuration",
        assumptions=["accuracy of the Matsubara quadrature is explored, not proved",
                     "at zero coupling the network is the product of the half-slice propagators (theorem gibbs_zero_coupling, tied to TIBaseBackend exactly); that this product is exp(-H/T) is expm's semigroup law, observed by the search at 1e-8"])
