"""Shared machinery of every check: Coq build, Print Assumptions collection,
case files evaluated by `Eval vm_compute`, evidence, known findings, verdict."""
import json
import os
import random
import re
import subprocess
import sys
import time

ROOT = os.path.dirname(os.path.dirname(os.path.abspath(__file__)))
COQ = os.path.join(ROOT, "coq")
CASES = os.path.join(COQ, "cases")
EVID = os.path.join(ROOT, "evidence")
REPLAYS = os.path.join(ROOT, "replays")
KNOWN = os.path.join(ROOT, "known_findings.json")
REPO = os.environ.get("VERIF_REPO", "/repo")
# a run against a scratch tree (seeded changes, mutants: VERIF_REPO set) keeps its case files, evidence and replays in a
# private scratch directory: it never touches /verif/evidence and can run beside a check of /repo
SCRATCH_RUN = os.path.realpath(REPO) != "/repo"
if SCRATCH_RUN:
    import tempfile
    _BASE = os.path.join(tempfile.gettempdir(), f"verif_scratch_{os.getpid()}")
    CASES = os.path.join(_BASE, "cases")
    EVID = os.path.join(_BASE, "evidence")
    REPLAYS = os.path.join(_BASE, "replays")
    import atexit
    import shutil
    atexit.register(lambda: shutil.rmtree(os.path.join(_BASE, "cases"), ignore_errors=True))
GUARD = "TEMPOCOLLABORATION_OQUPY_VERIF"

FORBIDDEN = re.compile(
    r"^\s*(Admitted|Axiom|Axioms|Parameter|Parameters|Conjecture|Admit Obligations)\b"
    r"|\badmit\b|Unset\s+Guard|Unset\s+Positivity|Unset\s+Universe|bypass_check"
    r"|type-in-type|impredicative-set|native_compute", re.M)


def sh(cmd, timeout=600, cwd=None, env=None, stdin=None):
    e = dict(os.environ)
    if env:
        e.update(env)
    try:
        p = subprocess.run(cmd, shell=isinstance(cmd, str), cwd=cwd, env=e,
                           stdout=subprocess.PIPE, stderr=subprocess.STDOUT,
                           timeout=timeout, input=stdin, text=True)
        return p.returncode, p.stdout
    except subprocess.TimeoutExpired as ex:
        out = ex.stdout if isinstance(ex.stdout, str) else (ex.stdout or b"").decode("utf8", "replace")
        return 124, out + "\nTIMEOUT"


# --------------------------------------------------------------------------- Coq

def strip_comments(src):
    out, depth, i = [], 0, 0
    while i < len(src):
        if src.startswith("(*", i):
            depth += 1
            i += 2
        elif src.startswith("*)", i) and depth:
            depth -= 1
            i += 2
        else:
            if not depth:
                out.append(src[i])
            i += 1
    return "".join(out)


def forbidden_scan():
    bad = []
    for d, _, fs in os.walk(os.path.join(COQ, "theories")):
        for f in fs:
            if f.endswith(".v"):
                p = os.path.join(d, f)
                src = strip_comments(open(p).read())
                # Variable/Hypothesis outside a section
                depth = 0
                for ln in src.splitlines():
                    s = ln.strip()
                    if re.match(r"(Section|Module)\s", s):
                        depth += 1
                    elif re.match(r"End\s", s):
                        depth -= 1
                    elif depth <= 0 and re.match(r"(Variable|Variables|Hypothesis|Hypotheses|Context)\b", s):
                        bad.append(f"{p}: {s[:60]} (outside section)")
                for m in FORBIDDEN.finditer(src):
                    bad.append(f"{p}: {m.group(0).strip()}")
    return bad


def coq_make(timeout=2400):
    """Full .vo build of the development (incremental)."""
    if not os.path.exists(os.path.join(COQ, "Makefile")):
        sh("coq_makefile -f _CoqProject -o Makefile", cwd=COQ, timeout=120)
    rc, out = sh("make -j16", cwd=COQ, timeout=timeout)
    return rc == 0, out


def compile_props(pid, timeout=600):
    """Re-compile Props/<pid>.v on its own, collecting Print Assumptions."""
    path = os.path.join(COQ, "theories", "Props", f"{pid}.v")
    res = {"ok": False, "theorems": [], "assumptions": {}, "log": "", "path": path}
    if not os.path.exists(path):
        res["log"] = "missing " + path
        return res
    src = strip_comments(open(path).read())
    res["theorems"] = re.findall(r"^\s*(?:Theorem|Corollary)\s+(\w+)", src, re.M)
    res["examples"] = re.findall(r"^\s*Example\s+(\w+)", src, re.M)
    outopt = ""
    if SCRATCH_RUN:
        os.makedirs(_BASE, exist_ok=True)
        outopt = f"-no-glob -o {os.path.join(_BASE, pid + '.vo')} "
    rc, out = sh(f"coqc -Q theories OQ {outopt}-w -notation-overridden,-ambiguous-paths,-deprecated-hint-without-locality,-undeclared-scope,-inexact-float theories/Props/{pid}.v",
                 cwd=COQ, timeout=timeout)
    out = "\n".join(l for l in out.splitlines() if "conda" not in l)
    res["log"] = out[-4000:]
    res["ok"] = rc == 0
    # parse Print Assumptions output: either "Closed under the global context" or "Axioms:\n name : type ..."
    printed = re.findall(r"^\s*Print Assumptions\s+(\w+)", src, re.M)
    blocks = re.split(r"(?m)^(?=Closed under the global context|Axioms:)", out)
    blocks = [b for b in blocks if b.startswith("Closed under") or b.startswith("Axioms:")]
    axioms_all = set()
    for name, b in zip(printed, blocks):
        if b.startswith("Closed"):
            res["assumptions"][name] = []
        else:
            ax = [a for a in re.findall(r"(?m)^([A-Za-z_][\w.']*)[ \t]*(?::|\n\s+:)", b) if a != "Axioms"]
            res["assumptions"][name] = ax
            axioms_all.update(ax)
    res["axioms_all"] = sorted(axioms_all)
    res["printed"] = printed
    if res["ok"] and len(blocks) != len(printed):
        res["ok"] = False
        res["log"] += f"\nPrint Assumptions mismatch: {len(printed)} requested, {len(blocks)} answered"
    missing = [t for t in res["theorems"] if t not in printed]
    if res["ok"] and missing:
        res["ok"] = False
        res["log"] += f"\ntheorems without Print Assumptions: {missing}"
    return res


_EVAL_SPLIT = re.compile(r"(?m)^\s{5}= ")


def run_cases(pid, header, exprs, chunk=150, timeout=900, tag=""):
    """Evaluate each Coq expression with vm_compute; return list of raw value strings
    (None where evaluation failed).  Files are sharded and compiled in parallel."""
    os.makedirs(CASES, exist_ok=True)
    for f in os.listdir(CASES):
        if f.startswith(f"{pid}{tag}_"):
            os.remove(os.path.join(CASES, f))
    files = []
    for k in range(0, len(exprs), chunk):
        name = f"{pid}{tag}_{k // chunk}"
        with open(os.path.join(CASES, name + ".v"), "w") as fh:
            fh.write(header + "\n")
            for j, e in enumerate(exprs[k:k + chunk]):
                fh.write(f"Eval vm_compute in ({e}).\n")
        files.append(name)
    procs = []
    results = {}
    maxpar = 16
    pending = list(files)
    running = []
    def launch(name):
        cmd = ["timeout", str(timeout), "coqc", "-Q", os.path.join(COQ, "theories"), "OQ",
               "-w", "-all", os.path.join(CASES, name + ".v")]
        return name, subprocess.Popen(cmd, stdout=subprocess.PIPE, stderr=subprocess.STDOUT, text=True, cwd=CASES)
    while pending or running:
        while pending and len(running) < maxpar:
            running.append(launch(pending.pop(0)))
        name, p = running.pop(0)
        out, _ = p.communicate()
        results[name] = (p.returncode, out)
    values = []
    errors = []
    for k, name in enumerate(files):
        rc, out = results[name]
        n_expected = min(chunk, len(exprs) - k * chunk)
        parts = _EVAL_SPLIT.split(out)[1:]
        vals = []
        for part in parts:
            m = re.search(r"\n\s{5}: ", part)
            vals.append(part[:m.start()] if m else part)
        if rc != 0 or len(vals) != n_expected:
            errors.append(f"{name}: rc={rc} got {len(vals)}/{n_expected} values\n" + out[-1500:])
            vals = (vals + [None] * n_expected)[:n_expected]
        values.extend(vals)
    return values, errors


def ints(val):
    return [int(x) for x in re.findall(r"-?\d+", val)] if val is not None else None


# ----------------------------------------------------------- Coq literal emitters

def zlit(n):
    n = int(n)
    return f"({n})" if n < 0 else str(n)


def glit(z):
    """Gaussian integer literal from a python complex/int with integral parts."""
    z = complex(z)
    re_, im_ = int(round(z.real)), int(round(z.imag))
    assert re_ == z.real and im_ == z.imag, z
    return f"({zlit(re_)},{zlit(im_)})"


def coq_list(items):
    return "[" + "; ".join(items) + "]"


def tensor_lit(arr, leaf=glit):
    """numpy array -> rose-tree literal of Lib.Tensor."""
    import numpy as np
    a = np.asarray(arr)
    if a.ndim == 0:
        return f"gS {leaf(a.item())}"
    return "gV " + coq_list([("(" + tensor_lit(x, leaf) + ")") for x in a])


def vec_lit(arr, leaf=glit):
    return coq_list([leaf(x) for x in arr])


def float_lit(x):
    """binary64 -> Coq primitive float literal (exact, hexadecimal)."""
    x = float(x)
    if x != x:
        return "PrimFloat.nan"
    if x in (float("inf"), float("-inf")):
        return "PrimFloat.infinity" if x > 0 else "PrimFloat.neg_infinity"
    h = x.hex()
    if h.startswith("-"):
        return f"(-{h[1:]})%float"
    return f"({h})%float"


def fbits(x):
    """(sign, mantissa, exponent) exactly as Lib.PyFloat.fbits prints it."""
    import math
    x = float(x)
    if x != x:
        return [0, -2, 0]
    if x in (float("inf"), float("-inf")):
        return [1 if x < 0 else 0, -1, 0]
    if x == 0:
        return [1 if math.copysign(1.0, x) < 0 else 0, 0, 0]
    m, e = math.frexp(abs(x))
    return [1 if x < 0 else 0, int(m * 2 ** 53), e]


def is_integral(arr):
    import numpy as np
    a = np.asarray(arr)
    return bool(np.all(a.real == np.round(a.real)) and np.all(a.imag == np.round(a.imag)))


def gflat(arr):
    """flatten complex integral array to [re, im, re, im, ...] python ints."""
    import numpy as np
    out = []
    for z in np.asarray(arr).reshape(-1):
        z = complex(z)
        out += [int(z.real), int(z.imag)]
    return out


# ------------------------------------------------------------------ known findings

def load_known():
    if os.path.exists(KNOWN):
        return json.load(open(KNOWN))
    return {"findings": [], "fixed": []}


# ------------------------------------------------------------------------ verdict

class Check:
    """Collects what a run did and produces verdict + evidence."""

    def __init__(self, pid, tier, seed):
        self.pid, self.tier, self.seed = pid, tier, seed
        self.t0 = time.time()
        self.rng = random.Random(seed * 1000003 + int(pid[1:]))
        self.obligations = []          # (name, ok)
        self.axioms = set()
        self.corr_cases = 0
        self.corr_distinct = set()
        self.samples = []
        self.disagreements = []        # correspondence failures (dicts)
        self.failures = []             # property failures on the implementation: (key, what, replay)
        self.search_cases = 0
        self.dist = {}
        self.notes = []
        self.broken = []               # names of theorems / correspondences that no longer check
        self.known = load_known()
        self.violations = 0
        self.extra_cov = {}

    # -- proofs
    def proofs(self):
        bad = forbidden_scan()
        ok, log = coq_make()
        self.build_log = log[-3000:]
        pr = compile_props(self.pid)
        self.props = pr
        for t in pr["theorems"]:
            self.obligations.append((t, ok and pr["ok"] and not bad))
        self.axioms.update(pr.get("axioms_all", []))
        if bad:
            self.broken.append("forbidden vernacular: " + "; ".join(bad[:5]))
        if not ok:
            self.broken.append("coq build failed: " + "\n".join(log.splitlines()[-15:]))
        elif not pr["ok"]:
            self.broken.append(f"Props/{self.pid}.v no longer checks: " + pr["log"][-1500:])
        if self.tier == "thorough" and ok and pr["ok"]:
            # independent re-check of the compiled theory and everything it depends on
            rc, out = sh(f"coqchk -o -silent -Q theories OQ OQ.Props.{self.pid}", cwd=COQ, timeout=3000)
            axs = re.findall(r"(?m)^\s{4}(Coq\.[\w.']+|[A-Z][\w.']+)\s*$", out)
            self.extra_cov["coqchk"] = {"ok": rc == 0, "axioms_in_context": sorted(set(axs))}
            if rc != 0:
                self.broken.append("coqchk rejects the compiled development: " + out[-800:])
        return ok and pr["ok"] and not bad

    # -- correspondence bookkeeping
    def case(self, descr, nontrivial_key=None):
        self.corr_cases += 1
        if nontrivial_key is not None:
            self.corr_distinct.add(nontrivial_key)
        if len(self.samples) < 6:
            self.samples.append(descr)

    def count(self, k, n=1):
        self.dist[k] = self.dist.get(k, 0) + n

    def disagree(self, name, detail):
        self.disagreements.append({"correspondence": name, "detail": detail})

    def fail(self, key, what, replay):
        """A concrete input on which the property fails on the implementation."""
        self.failures.append((key, what, replay))

    # -- finish
    def finish(self, level="proof", trusted=None, assumptions=None, rule="", explanation=""):
        os.makedirs(REPLAYS, exist_ok=True)
        os.makedirs(EVID, exist_ok=True)
        known_keys = {f["key"]: f for f in self.known.get("findings", []) if f["property"] == self.pid}
        seen_known = set()
        n = 0
        lines = []
        unknown_failures = []
        for key, what, replay in self.failures:
            if key in known_keys:
                if key not in seen_known:
                    seen_known.add(key)
                    lines.append(f"KNOWN-FINDING: property={self.pid} {known_keys[key]['what']}")
            else:
                unknown_failures.append((key, what, replay))
        reported = set()
        for key, what, replay in unknown_failures:
            if key in reported:
                continue
            reported.add(key)
            path = os.path.join(REPLAYS, f"{self.pid}_{n}.json")
            json.dump({"property": self.pid, "key": key, "what": what, "replay": replay,
                       "seed": self.seed, "tier": self.tier,
                       "how_to_replay": f"VERIF_SEED={self.seed} ./check {self.pid} --tier {self.tier}  (deterministic: the same seed regenerates this input; "
                                        f"the failing input is described under 'replay')",
                       "broken": self.broken, "disagreements": self.disagreements[:5]},
                      open(path, "w"), indent=1, default=str)
            lines.append(f"VIOLATION property={self.pid} replay={path}")
            print(f"  [{self.pid}] failing input ({key}): {what[:400]} :: {str(replay)[:400]}")
            n += 1
        if not unknown_failures and (self.broken or self.disagreements):
            path = os.path.join(REPLAYS, f"{self.pid}_{n}.json")
            json.dump({"property": self.pid, "key": "no-failing-input", "seed": self.seed, "tier": self.tier,
                       "what": "a proof obligation or the model/implementation correspondence no longer checks; "
                               "the counter-example search found no input on which the property fails",
                       "broken": self.broken, "disagreements": self.disagreements[:20]},
                      open(path, "w"), indent=1, default=str)
            lines.append(f"VIOLATION property={self.pid} replay={path} no-failing-input-found")
            print(f"  [{self.pid}] broken: {str(self.broken)[:600]} disagreements: {str(self.disagreements[:2])[:800]}")
            n += 1
        self.violations = n
        discharged = sum(1 for _, ok in self.obligations if ok)
        cov = {
            "obligations": len(self.obligations),
            "discharged": discharged,
            "checker_cmd": f"make -C coq (full .vo build) && coqc theories/Props/{self.pid}.v (Print Assumptions under every theorem)",
            "trusted_base": (trusted or []) + ["Coq 8.16.1 kernel + vm_compute (no native_compute)",
                                               "axioms reported by Print Assumptions: " + (", ".join(sorted(self.axioms)) or "none (closed under the global context)"),
                                               "correspondence harness /verif/harness (Python), its generators and printers"],
            "theorems": [t for t, _ in self.obligations],
            "evaluations": self.corr_cases + self.search_cases,
            "distinct_nontrivial": len(self.corr_distinct),
            "rule": rule,
            "samples": self.samples or ["(none)"],
            "correspondence_cases": self.corr_cases,
            "correspondence_disagreements": len(self.disagreements),
            "search_cases_on_implementation": self.search_cases,
            "input_distribution": self.dist,
            "known_findings_seen": sorted(seen_known),
            "explanation": explanation,
        }
        cov.update(self.extra_cov)
        ev = {
            "property_id": self.pid, "tier": self.tier, "seed": self.seed, "level": level,
            "coverage": cov,
            "assumptions": (assumptions or []) + self.notes,
            "wall_s": round(time.time() - self.t0, 2),
            "violations": n,
        }
        json.dump(ev, open(os.path.join(EVID, f"{self.pid}.json"), "w"), indent=1, default=str)
        for l in lines:
            print(l)
        print(f"[{self.pid}] tier={self.tier} seed={self.seed} obligations={discharged}/{len(self.obligations)} "
              f"corr={self.corr_cases} (disagree {len(self.disagreements)}) search={self.search_cases} "
              f"failures={len(self.failures)} violations={n} wall={ev['wall_s']}s")
        sys.stdout.flush()
        return 1 if n else 0
