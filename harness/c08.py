"""C08 — the adjoint gradient equals the derivative of the objective."""
import numpy as np
import oqupy
from oqupy.gradient import compute_gradient_and_dynamics

from harness.common import run_cases, ints, gflat, coq_list, vec_lit
from harness.impl import gint, rand_intpt, quiet, InjSystem, mat_lit
from harness import c18

HEADER = c18.HEADER


class InjParamSystem(oqupy.ParameterizedSystem):
    """ParameterizedSystem with injected half-step propagators and propagator derivatives
    (public extension points get_propagators / get_propagator_derivatives)."""

    def __init__(self, dim, props, dprops):
        super().__init__(lambda x: x * np.eye(dim))
        self._p, self._dp = props, dprops

    def get_propagators(self, dt, parameters):
        return lambda step: self._p[step]

    def get_propagator_derivatives(self, dt, parameters):
        return lambda step: self._dp[step]


def tensor_of(x):
    return np.array(x if isinstance(x, np.ndarray) else x.get_tensor())


def run(chk):
    rng = chk.rng
    thorough = chk.tier == "thorough"
    chk.proofs()
    exprs, expected, meta = [], [], []
    n_model = 14 if thorough else 5
    n_cases = 120 if thorough else 40
    for it in range(n_cases):
        d = rng.choice([1, 2, 2])
        d2 = d * d
        N = rng.randint(1, 3)
        nenv = rng.choice([1, 1, 2, 2])
        M = rng.randint(1, 3)
        pts = [rand_intpt(rng, d, N, maxbond=2, allow_rank3=rng.random() < 0.3, lo=-1, hi=1, last_trivial=True) for _ in range(nenv)]
        for p in pts:
            p.dt = 0.1
        props = [(gint(rng, (d2, d2), -1, 1), gint(rng, (d2, d2), -1, 1)) for _ in range(N)]
        dprops = [([gint(rng, (d2, d2), -1, 1) for _ in range(M)], [gint(rng, (d2, d2), -1, 1) for _ in range(M)]) for _ in range(N)]
        rho0, target = gint(rng, (d, d), -1, 1), gint(rng, (d, d), -1, 1)
        sysm = InjParamSystem(d, props, dprops)
        info = {"d": d, "N": N, "envs": nenv, "M": M, "ranks": [[m.ndim for m in p.mpos] for p in pts]}
        built = [p.build() for p in pts]
        # variants: the target as a callable of the final state (a non-linear objective: its derivative depends on the state),
        # control operations (integer steps, pre and post) through compute_gradient_and_dynamics
        variant = ["plain", "plain", "callable-target", "controls", "controls+callable"][it % 5]
        hist = c18.rand_history(rng, d2, 3, list(range(0, N + 1)), 0.1, 0.0, kinds=("int",), lo=-1, hi=1) if "controls" in variant else []
        hist = [h for h in hist if not (h[1] and h[0] >= N)]          # a post-measurement control at the last step never acts
        mk_ctrl = lambda: (c18.build_control(d, hist) if hist else None)
        # memory layout of the target is not part of its value: Fortran-ordered / transposed views in half of the cases
        lay = (lambda x: np.asfortranarray(x)) if it % 2 == 1 else (lambda x: np.ascontiguousarray(x))
        tfun = (lambda st, t0=target.copy(): lay(2 * np.array(st).T + t0)) if "callable" in variant else None
        info["target_layout"] = "F" if it % 2 == 1 else "C"
        info["variant"] = variant
        info["controls"] = [(k, p_) for k, p_, _ in hist]
        try:
            if variant == "plain":
                res = quiet(oqupy.state_gradient, system=sysm, initial_state=rho0.copy(), target_derivative=lay(target.copy()),
                            process_tensors=built, parameters=np.zeros((2 * N, M)), progress_type="silent")
            elif variant == "callable-target":
                res = quiet(oqupy.state_gradient, system=sysm, initial_state=rho0.copy(), target_derivative=tfun,
                            process_tensors=built, parameters=np.zeros((2 * N, M)), progress_type="silent")
            else:
                gp, dyn_ = quiet(compute_gradient_and_dynamics, system=sysm, initial_state=rho0.copy(), target_derivative=tfun if tfun else lay(target.copy()),
                                 process_tensors=built, parameters=np.zeros((2 * N, M)), control=mk_ctrl(), progress_type="silent")
                from oqupy.gradient import _chain_rule
                pd_ = sysm.get_propagator_derivatives(0.1, np.zeros((2 * N, M)))
                res = {"gradprop": gp, "dynamics": dyn_,
                       "gradient": quiet(_chain_rule, adjoint_tensor=gp, dprop_dparam=pd_, propagators=sysm.get_propagators(0.1, np.zeros((2 * N, M))),
                                         num_steps=N, num_parameters=M, progress_type="silent")}
        except Exception as ex:
            chk.search_cases += 1
            chk.fail("gradient-raises", f"the gradient computation ({variant}) raises {ex!r}", info)
            continue

        def Z(pr, tgt=None):
            dyn = quiet(oqupy.compute_dynamics, InjSystem(d, pr), initial_state=rho0.copy(), dt=0.1, num_steps=N,
                        process_tensor=[p.build() for p in pts], control=mk_ctrl(), progress_type="silent")
            tg = target if tgt is None else tgt
            return np.sum(tg.reshape(-1) * np.array(dyn.states[-1]).reshape(-1)), dyn
        if tfun is not None:
            # the derivative of the objective at the final state of the forward run is what every entry is contracted with
            target = np.array(tfun(Z(props)[1].states[-1]))
        z0, dyn0 = Z(props)
        chk.search_cases += 1
        chk.count(f"envs{nenv}")
        ok = True
        # (i) the reported dynamics are the forward dynamics
        if len(res["dynamics"].states) != N + 1 or not all(np.array_equal(a, b) for a, b in zip(res["dynamics"].states, dyn0.states)):
            chk.fail("gradient-dynamics-differ", "state_gradient reports dynamics different from compute_dynamics with the same propagators", info)
        # (ii) every gradient entry is the objective with the half-step propagator replaced by its derivative (exact, multilinear)
        for i in range(N):
            for j in range(M):
                pr = list(props)
                pr[i] = (dprops[i][0][j], props[i][1])
                w1 = Z(pr)[0]
                pr[i] = (props[i][0], dprops[i][1][j])
                w2 = Z(pr)[0]
                g1, g2 = res["gradient"][2 * i][j], res["gradient"][2 * i + 1][j]
                if g1 != w1 or g2 != w2:
                    ok = False
        if not ok:
            chk.fail("gradient-wrong" + ("-multi-env" if nenv > 1 else ""),
                     "state_gradient differs from the derivative of the objective (objective re-evaluated with the half-step propagator replaced by "
                     "its derivative; exact integers)", info)
        # (iii) the adjoint tensors against the Coq model (few: 256 model evaluations per tensor)
        if it < n_model and d2 * N <= 8 and variant == "plain":
            pl = coq_list([f"({mat_lit(a)}, {mat_lit(b)})" for a, b in props])
            for i in range(N):
                exprs.append(f"grad_flat {d2} {coq_list([p.coq(N) for p in pts])} {pl} {vec_lit(rho0.reshape(-1))} {vec_lit(target.reshape(-1))} {N} {i}")
                expected.append(gflat(tensor_of(res["gradprop"][i])))
                meta.append(dict(info, step=i))
                chk.case(meta[-1], ("tensor", d, N, nenv, i, it))
        else:
            chk.case(info, ("grad", d, N, nenv, M, it))

    vals, errs = run_cases("C08", HEADER, exprs, chunk=4, timeout=600)
    for e in errs:
        chk.disagree("coq evaluation", e)
    for v, exp, m in zip(vals, expected, meta):
        got = ints(v)
        if got != exp:
            chk.disagree("adjoint tensor", {"meta": m, "impl": exp[:24], "model": (got or [])[:24]})

    # ---- finite differences on real PT-TEMPO process tensors (numerical, the property's own oracle) ---
    sx, sz = oqupy.operators.sigma("x"), oqupy.operators.sigma("z")
    n_fd = 12 if (thorough or chk.disagreements or chk.broken) else 4
    shape_offset = rng.randint(0, 4)     # any 4 consecutive shapes contain a partially degenerate table
    for it in range(n_fd):
        par = oqupy.TempoParameters(dt=0.2, epsrel=1e-7, dkmax=3)
        N = 3
        ops = [0.5 * sz, 0.5 * sx] if it % 2 == 0 else [0.5 * sz]
        pts = [quiet(oqupy.pt_tempo_compute, oqupy.Bath(o, oqupy.PowerLawSD(alpha=0.2, zeta=1, cutoff=2.0, cutoff_type="exponential")),
                     0.0, N * 0.2, parameters=par, progress_type="silent") for o in ops]
        sm = oqupy.operators.sigma("-")
        # Hamiltonian, rate AND Lindblad operator depend on the parameters
        ham_f = lambda x, y: x * sx + y * sz
        gam_f = lambda x, y: 0.1 + 0.05 * x * x
        if it % 3 == 2:
            # a rate that depends on the parameters only through their difference (the same value wherever all parameters are equal)
            gam_f = lambda x, y: 0.1 + 0.4 * (x - y) ** 2
        lop_f = (lambda x, y: np.cos(y) * sm + 0.5 * np.sin(y) * sz) if it % 3 != 2 else (lambda x, y: sm)
        # every run (it == 1): a purely coherent system (no Lindblad terms at all) whose Hamiltonian is complex (a sigma_y control)
        coherent = it == 1
        if coherent:
            sy_ = oqupy.operators.sigma("y")
            ham_f = lambda x, y: x * sx + y * sy_ + 0.3 * sz
        mk_ps = (lambda **kw: oqupy.ParameterizedSystem(ham_f, **kw)) if coherent else \
            (lambda **kw: oqupy.ParameterizedSystem(ham_f, gammas=[gam_f], lindblad_operators=[lop_f], **kw))
        base = mk_ps()
        # both routes through the library's own get_propagator_derivatives: numerically differentiated / user supplied
        supplied = (it // 2) % 2 == 1
        if supplied:
            helper = mk_ps()
            psys = mk_ps(propagator_derivatives=lambda dt, p: helper.halfstep_propagator_derivative(dt)(p))
        else:
            psys = base
        # parameter tables: generic, and degenerate ones (a control held constant within a step / throughout)
        shape = ["generic", "column-constant", "equal-within-step", "one-equal-one-step", "all-constant"][(it + shape_offset) % 5]
        params = np.array([[0.3 + 0.1 * k, 0.2 - 0.05 * k] for k in range(2 * N)])
        if shape == "column-constant":
            params[:, rng.randint(0, 1)] = 0.4
        elif shape == "equal-within-step":
            params[1::2] = params[0::2]
        elif shape == "one-equal-one-step":
            k0 = rng.randint(0, N - 1)
            j0 = rng.randint(0, 1)
            params[2 * k0 + 1, j0] = params[2 * k0, j0]
        elif shape == "all-constant":
            params[:, 0] = 0.35
            params[:, 1] = -0.15
        if it == 3 or (it > 3 and it % 4 == 3):
            # every run: controls that are switched off (exactly 0.0) during the first step and switched on afterwards -- the
            # propagator is a real matrix there, its derivative is not
            shape += "+switched-off-first-step"
            params[0:2, :] = 0.0
            if rng.random() < 0.5:
                params[2, 0] = 0.0
        rho0 = oqupy.operators.spin_dm("x+")
        target = oqupy.operators.spin_dm("z-").T
        info = {"envs": len(ops), "parameter_table": shape, "derivatives": "user-supplied" if supplied else "numerical", "purely_coherent": coherent, "parameters": params.tolist()}
        try:
            # the system does not depend on time explicitly: a start time only relabels the reported dynamics.  Every run: none,
            # one beyond the end of the run (2.0 > N dt), one inside it, a negative one
            st_ = [0.0, 2.0, 0.3, -1.0][it % 4]
            info["start_time"] = st_
            res = quiet(oqupy.state_gradient, system=psys, initial_state=rho0, target_derivative=target, process_tensors=pts,
                        parameters=params.copy(), progress_type="silent", **({"start_time": st_} if st_ != 0.0 else {}))
        except Exception as ex:
            chk.fail("gradient-raises", f"state_gradient raises {ex!r}", info)
            continue
        rt_ = [float(t_) for t_ in res["dynamics"].times]
        if len(rt_) != N + 1 or max(abs(t_ - (st_ + k_ * 0.2)) for k_, t_ in enumerate(rt_)) > 1e-9:
            chk.fail("gradient-dynamics-times", f"state_gradient(start_time={st_}, {N} steps of 0.2) reports its dynamics at times {rt_}, the forward dynamics are at "
                     f"start_time + k dt = {[st_ + k_ * 0.2 for k_ in range(N + 1)]}", info)

        def own_liouvillian(x, y):
            # independent of ParameterizedSystem: row-major vectorisation, vec(A rho B) = kron(A, B^T) vec(rho)
            H, g, A = ham_f(x, y), gam_f(x, y), lop_f(x, y)
            I2 = np.eye(2)
            AdA = A.conj().T @ A
            if coherent:
                return -1j * (np.kron(H, I2) - np.kron(I2, H.T))
            return (-1j * (np.kron(H, I2) - np.kron(I2, H.T))
                    + g * (np.kron(A, A.conj()) - 0.5 * np.kron(AdA, I2) - 0.5 * np.kron(I2, AdA.T)))

        def forward(pp):
            from scipy.linalg import expm
            props = [(expm(own_liouvillian(*pp[2 * k]) * 0.1), expm(own_liouvillian(*pp[2 * k + 1]) * 0.1)) for k in range(N)]
            return quiet(oqupy.compute_dynamics, InjSystem(2, props), initial_state=rho0, process_tensor=pts, dt=0.2, num_steps=N,
                         progress_type="silent")

        def obj(pp):
            return np.sum(target.reshape(-1) * np.array(forward(pp).states[-1]).reshape(-1)).real
        # the dynamics reported with the gradient are the forward dynamics of the system (independent propagators)
        fw = forward(params)
        ddev = max(np.abs(np.array(a) - np.array(b)).max() for a, b in zip(res["dynamics"].states, fw.states))
        if len(res["dynamics"].states) != N + 1 or ddev > 1e-9:
            chk.fail("gradient-dynamics-differ", f"state_gradient reports dynamics that deviate by {ddev:.2e} from the forward dynamics with the "
                     f"system's propagators ({shape} parameter table, {info['derivatives']} propagator derivatives)", info)
        worst, where = 0.0, None
        for k in range(2 * N):
            for j in range(2):
                h = 1e-4
                pp, pm = params.copy(), params.copy()
                pp[k, j] += h
                pm[k, j] -= h
                fd = (obj(pp) - obj(pm)) / (2 * h)
                dev = abs(fd - res["gradient"][k][j].real)
                if dev > worst:
                    worst, where = dev, (k, j)
        chk.search_cases += 1
        chk.count("finite_differences_" + shape)
        chk.case({k: v for k, v in info.items() if k != "parameters"}, ("fd", it, shape, supplied, len(ops)))
        if worst > 1e-5:
            chk.fail("gradient-vs-finite-differences" + ("-multi-env" if len(ops) > 1 else ""),
                     f"state_gradient deviates from central finite differences by {worst:.2e} at entry {where} ({len(ops)} environment(s), "
                     f"{shape} parameter table, {info['derivatives']} propagator derivatives)", info)

    # ---- very short process tensors (one and two steps, built by hand: PT-TEMPO cannot produce a one-step tensor) with two and
    # three parameters: the parameter table is 2N x M whatever its shape looks like (square tables included) -----------------
    for it in range(6 if thorough else 3):
        N = [1, 1, 2][it % 3]
        M = [2, 3, 2][it % 3] if it < 3 else rng.choice([1, 2, 3])
        g_ = np.random.default_rng(chk.seed * 7 + it)
        hand = oqupy.process_tensor.SimpleProcessTensor(2, dt=0.2)
        for k_ in range(N):
            hand.set_mpo_tensor(k_, (np.eye(4) + 0.2 * (g_.normal(size=(4, 4)) + 1j * g_.normal(size=(4, 4)))).reshape(1, 1, 4, 4))
        for k_ in range(N + 1):
            hand.set_cap_tensor(k_, np.ones(1, dtype=complex))
        sm_ = oqupy.operators.sigma("-")
        sy_ = oqupy.operators.sigma("y")
        hamf = (lambda x, y: x * sx + y * sz) if M == 2 else (lambda x, y, z: x * sx + y * sz + z * sy_) if M == 3 else (lambda x: x * sx + 0.3 * sz)
        gamf = (lambda *p_: 0.1 + 0.05 * p_[0] * p_[0])
        psys = oqupy.ParameterizedSystem(hamf, gammas=[gamf], lindblad_operators=[lambda *p_: sm_])
        params = 0.2 + 0.5 * g_.random(size=(2 * N, M))
        rho0 = oqupy.operators.spin_dm("x+")
        target = (oqupy.operators.spin_dm("z-") + 0.3 * oqupy.operators.spin_dm("y+")).T.copy()
        info = {"kind": "short-process-tensor", "N": N, "M": M, "parameters": params.tolist()}
        chk.search_cases += 1
        chk.count("finite_differences_short")
        chk.case({k: v for k, v in info.items() if k != "parameters"}, ("fd-short", N, M, it))
        try:
            res = quiet(oqupy.state_gradient, system=psys, initial_state=rho0, target_derivative=target, process_tensors=[hand],
                        parameters=params.copy(), progress_type="silent")
        except Exception as ex:
            chk.fail("gradient-raises", f"state_gradient raises {ex!r} for a {N}-step process tensor and a {2 * N} x {M} parameter table", info)
            continue
        I2 = np.eye(2)

        def liou_(p_):
            H_, g2_ = hamf(*p_), gamf(*p_)
            AdA = sm_.conj().T @ sm_
            return -1j * (np.kron(H_, I2) - np.kron(I2, H_.T)) + g2_ * (np.kron(sm_, sm_.conj()) - 0.5 * np.kron(AdA, I2) - 0.5 * np.kron(I2, AdA.T))

        def obj_(pp):
            from scipy.linalg import expm
            props_ = [(expm(liou_(pp[2 * k]) * 0.1), expm(liou_(pp[2 * k + 1]) * 0.1)) for k in range(N)]
            d_ = quiet(oqupy.compute_dynamics, InjSystem(2, props_), initial_state=rho0, process_tensor=[hand], dt=0.2, num_steps=N, progress_type="silent")
            return np.sum(target.reshape(-1) * np.array(d_.states[-1]).reshape(-1)).real, d_
        _, fw_ = obj_(params)
        ddev = max(np.abs(np.array(a) - np.array(b)).max() for a, b in zip(res["dynamics"].states, fw_.states))
        grad_ = np.array(res["gradient"])
        worst = 0.0
        if grad_.shape == (2 * N, M):
            for k in range(2 * N):
                for j in range(M):
                    pp, pm = params.copy(), params.copy()
                    pp[k, j] += 1e-4
                    pm[k, j] -= 1e-4
                    worst = max(worst, abs((obj_(pp)[0] - obj_(pm)[0]) / 2e-4 - grad_[k][j].real))
        if grad_.shape != (2 * N, M) or worst > 1e-5 or ddev > 1e-9:
            chk.fail("gradient-vs-finite-differences", f"state_gradient with a {N}-step process tensor and a {2 * N} x {M} parameter table: gradient of shape {grad_.shape} "
                     f"deviates from central finite differences by {worst:.2e}; reported dynamics deviate from the forward dynamics by {ddev:.2e}", info)

    # ---- the same ParameterizedSystem object with process tensors of two different time steps (a convergence check in dt):
    # the second gradient must be what a fresh system gives ---------------------------------------------------------------
    for it in range(4 if thorough else 1):
        sm_ = oqupy.operators.sigma("-")
        mk_sys = lambda: oqupy.ParameterizedSystem(lambda x, y: x * sx + y * sz, gammas=[lambda x, y: 0.1 + 0.05 * x * x],
                                                   lindblad_operators=[lambda x, y: np.cos(y) * sm_ + 0.5 * np.sin(y) * sz])
        shared = mk_sys()
        rho0 = oqupy.operators.spin_dm("x+")
        target = oqupy.operators.spin_dm("y+").T.copy()
        worst, info = 0.0, {"kind": "same-system-two-dt"}
        try:
            for dt_ in (0.2, 0.1):
                N = 3
                par = oqupy.TempoParameters(dt=dt_, epsrel=1e-7, dkmax=3)
                pt_ = quiet(oqupy.pt_tempo_compute, oqupy.Bath(0.5 * sz, oqupy.PowerLawSD(alpha=0.2, zeta=1, cutoff=2.0, cutoff_type="exponential")),
                            0.0, N * dt_, parameters=par, progress_type="silent")
                params = np.array([[0.4, 0.2 - 0.05 * (k // 2)] for k in range(2 * N)])        # a constant first column: rows repeat across the runs
                g_shared = np.array(quiet(oqupy.state_gradient, system=shared, initial_state=rho0, target_derivative=target, process_tensors=[pt_],
                                          parameters=params.copy(), progress_type="silent")["gradient"])
                g_fresh = np.array(quiet(oqupy.state_gradient, system=mk_sys(), initial_state=rho0, target_derivative=target, process_tensors=[pt_],
                                         parameters=params.copy(), progress_type="silent")["gradient"])
                worst = max(worst, np.abs(g_shared - g_fresh).max() / max(1e-12, np.abs(g_fresh).max()))
        except Exception as ex:
            chk.fail("gradient-raises", f"state_gradient raises {ex!r}", info)
            continue
        chk.search_cases += 1
        chk.count("same_system_two_dt")
        chk.case(info, ("twodt", it))
        if worst > 1e-8:
            chk.fail("gradient-depends-on-earlier-use", f"state_gradient with a ParameterizedSystem that was used before with another time step differs from a fresh "
                     f"system by a relative {worst:.2e}", info)

    return chk.finish(
        level="proof",
        trusted=["models: Model/PT.v + Model/Dyn.v (objective), adjoint tensor defined as the objective at unit matrices",
                 "injected propagators and propagator derivatives through ParameterizedSystem.get_propagators / get_propagator_derivatives"],
        rule="integer process tensors (1-2 environments, rank 3/4, trivial last bond), integer propagators and 'derivatives', M=1-3 parameters, "
             "N=1-3: every gradient entry compared exactly with the objective re-evaluated at the derivative (multilinearity), reported "
             "dynamics with compute_dynamics, adjoint tensors with the Coq model; finite differences on PT-TEMPO tensors with a "
             "parameter-dependent rate and Lindblad operator (forward oracle: own Lindbladian + expm, not ParameterizedSystem), generic and degenerate parameter tables (a control constant within a step, within a column, "
             "throughout), numerically differentiated and user-supplied propagator derivatives; distinct = distinct configuration",
        assumptions=["propagator derivatives supplied by the user / numerically differentiated by the library are taken as given (contract)",
                     "process tensors with a non-trivial final bond are outside the gradient code's domain (it ignores the final cap)"])
