"""C18 — control operations act at the stated time, side and order."""
import numpy as np
import oqupy
from oqupy.control import Control, ChainControl

from harness import impl
from harness.common import (run_cases, ints, gflat, coq_list, zlit, float_lit, vec_lit)
from harness.impl import gint, InjSystem, rand_intpt, quiet, mat_lit

HEADER = """From Coq Require Import ZArith List Bool PrimFloat.
From OQ Require Import Lib.RingSum Lib.Tensor Lib.Mat Lib.PyFloat Model.PT Model.Control Model.Glue.
Import ListNotations. Open Scope Z_scope."""

DTS = [0.1, 0.25, 0.3, 0.05]
STARTS = [0.0, 1.0, -0.7, 2.5]


def rand_history(rng, d2, nmax, steps, dt, start, kinds=("int", "float"), lo=-2, hi=2):
    hist = []
    for _ in range(rng.randint(1, nmax)):
        kind = rng.choice(kinds)
        post = rng.random() < 0.5
        if kind == "int":
            key = rng.choice(steps + [steps[-1] + 1, -1] if rng.random() < 0.15 else steps)
        else:
            k = rng.choice(steps)
            off = rng.choice([0.0, 0.0, 0.3, -0.3, 0.45, -0.45, 0.1])
            key = float(start + (k + off) * dt)
        hist.append((key, post, gint(rng, (d2, d2), lo, hi)))
    return hist


def hist_lit(hist):
    items = []
    for key, post, m in hist:
        k = f"KInt {zlit(key)}" if isinstance(key, int) else f"KFloat {float_lit(key)}"
        items.append(f"Build_add ({k}) {'true' if post else 'false'} {mat_lit(m)}")
    return coq_list(items)


def build_control(d, hist):
    c = Control(d)
    for key, post, m in hist:
        c.add_single(key, m.copy(), post)
    return c


def optflat(m):
    return [0] if m is None else [1] + gflat(m)


# ----------------------------------------------------------------- oracle (numpy)

def oracle_sequences(hist, dt, start, step):
    """The property's own reading, independent of the Coq model:
    controls with the same key act in insertion order."""
    def lands(key):
        if isinstance(key, int):
            return key == step
        return float(np.round((key - start) / dt)) == step
    pre = [(i, k, m) for i, (k, p, m) in enumerate(hist) if not p and lands(k)]
    post = [(i, k, m) for i, (k, p, m) in enumerate(hist) if p and lands(k)]
    return pre, post


def same_key_only(seq):
    keys = {(type(k).__name__, k) for _, k, _ in seq}
    return len(keys) <= 1


def acts_once_each(seq, got, d2):
    """got is the product of SOME ordering of seq that keeps every same-key stack in insertion order
    (what the recorded finding 'mixed-key-order' describes); anything else - a control dropped, applied
    twice, a same-key stack reversed - is a different violation"""
    import itertools
    if got is None:
        return False
    for perm in itertools.permutations(seq):
        last = {}
        ok = True
        for i, k, _ in perm:
            kk = (type(k).__name__, k)
            if last.get(kk, -1) > i:
                ok = False
                break
            last[kk] = i
        if ok and np.array_equal(product(perm, d2), got):
            return True
    return False


def product(seq, d2):
    out = np.identity(d2, dtype=complex)
    for _, _, m in seq:
        out = m @ out
    return out


def _site_control(d, hist):
    c = Control(d)
    for st, po, m in hist:
        c.add_single(st, m.copy(), po)
    return c


def run(chk):
    rng = chk.rng
    thorough = chk.tier == "thorough"
    proofs_ok = chk.proofs()
    n_ctl = 400 if thorough else 120
    n_dyn = 200 if thorough else 60
    n_chain = 300 if thorough else 100

    # ---- (a) Control.get_controls vs Model.Control ---------------------------
    exprs, expected, meta = [], [], []
    for i in range(n_ctl):
        d = rng.choice([1, 2, 2, 2])
        d2 = d * d
        dt, start = rng.choice(DTS), rng.choice(STARTS)
        steps = list(range(0, 5))
        mode = rng.choice(["int", "float", "mixed"])
        kinds = {"int": ("int",), "float": ("float",), "mixed": ("int", "float")}[mode]
        hist = rand_history(rng, d2, 5, steps, dt, start, kinds)
        ctrl = build_control(d, hist)
        exp = []
        for s in steps:
            pre, post = quiet(ctrl.get_controls, s, dt=dt, start_time=start)
            exp += optflat(pre) + optflat(post)
            # property oracle on the implementation (same-key stacks only)
            opre, opost = oracle_sequences(hist, dt, start, s)
            for name, got, seq in (("pre", pre, opre), ("post", post, opost)):
                chk.search_cases += 1
                if same_key_only(seq):
                    want = product(seq, d2) if seq else None
                    bad = (got is None) != (want is None) or (got is not None and not np.array_equal(got, want))
                    if bad:
                        chk.fail("control-stack-order",
                                 f"Control.get_controls({s}) {name}: same-key controls not applied in insertion order / wrong step",
                                 {"api": "Control.get_controls", "hist": repr(hist), "dt": dt, "start": start, "step": s})
                elif seq:
                    want = product(seq, d2)
                    if got is None or not np.array_equal(got, want):
                        if acts_once_each(seq, got, d2):
                            chk.fail("mixed-key-order",
                                     "controls with different keys landing on one step are not applied in insertion order",
                                     {"api": "Control.get_controls", "hist": repr(hist), "dt": dt, "start": start, "step": s})
                        else:
                            chk.fail("control-not-applied-exactly-once",
                                     f"Control.get_controls({s}) {name}: of the {len(seq)} differently keyed controls landing on this step some are "
                                     "dropped / applied twice (the result is not a product of all of them in any order that keeps same-key stacks)",
                                     {"api": "Control.get_controls", "hist": repr(hist), "dt": dt, "start": start, "step": s})
        exprs.append(f"ctl_query {d2} {hist_lit(hist)} {float_lit(dt)} {float_lit(start)} {coq_list([zlit(s) for s in steps])}")
        expected.append(exp)
        meta.append({"kind": "get_controls", "d": d, "dt": dt, "start": start, "hist": [(k, p) for k, p, _ in hist]})
        # the SAME Control object asked again on another time grid (other start time / time step: a scan, a refined grid): the model's
        # answers for that grid (exact), i.e. what a freshly built Control says
        if i % 2 == 0:
            dt2, start2 = rng.choice([x for x in DTS if x != dt] or DTS), rng.choice([x for x in STARTS if x != start] or STARTS)
            exp2 = []
            for s in steps:
                pre, post = quiet(ctrl.get_controls, s, dt=dt2, start_time=start2)
                exp2 += optflat(pre) + optflat(post)
            fresh = build_control(d, hist)
            exp2f = []
            for s in steps:
                pre, post = quiet(fresh.get_controls, s, dt=dt2, start_time=start2)
                exp2f += optflat(pre) + optflat(post)
            chk.search_cases += 1
            if exp2 != exp2f:
                chk.fail("control-reused-on-another-grid", f"Control.get_controls on an object already asked for (dt={dt}, start_time={start}) and now for "
                         f"(dt={dt2}, start_time={start2}) answers differently from a freshly built equal Control",
                         {"api": "Control.get_controls", "hist": repr(hist), "first": [dt, start], "second": [dt2, start2]})
            exprs.append(f"ctl_query {d2} {hist_lit(hist)} {float_lit(dt2)} {float_lit(start2)} {coq_list([zlit(s) for s in steps])}")
            expected.append(exp2)
            meta.append({"kind": "get_controls", "d": d, "dt": dt2, "start": start2, "hist": [(k, p) for k, p, _ in hist], "asked_before_on": [dt, start]})
        chk.count("ctl_" + mode)
        chk.case(meta[-1], ("ctl", mode, len(hist), d))

    # ---- (b) compute_dynamics with controls -----------------------------------
    for i in range(n_dyn):
        d = rng.choice([1, 2, 2])
        d2 = d * d
        N = rng.randint(1, 3)
        dt, start = rng.choice(DTS), rng.choice(STARTS)
        nenv = rng.choice([0, 0, 1, 1, 2])
        pts = [rand_intpt(rng, d, N, maxbond=2, lo=-1, hi=1, trivial_prob=0.2 if i % 2 else 0.0, last_trivial=(i % 2 == 0)) for _ in range(nenv)]
        steps = list(range(0, N + 1))
        hist = rand_history(rng, d2, 4, steps, dt, start, lo=-1, hi=1)
        props = [(gint(rng, (d2, d2), -1, 1), gint(rng, (d2, d2), -1, 1)) for _ in range(N)]
        rho0 = gint(rng, (d, d), -2, 2)
        record_all = rng.random() < 0.8 and i % 4 != 0
        sysm = InjSystem(d, props)
        ctrl = build_control(d, hist)
        try:
            dyn = quiet(oqupy.compute_dynamics, sysm, initial_state=rho0.copy(), dt=dt, num_steps=N,
                        start_time=start, process_tensor=[p.build() for p in pts], control=ctrl,
                        record_all=record_all, progress_type="silent")
            exp = []
            for s in dyn.states:
                exp += gflat(s)
        except Exception as ex:  # the model has no failure mode for valid inputs
            exp = ["exception", repr(ex)]
            dyn = None
        # property oracle, independent of the Coq model (dense numpy evolution, harness/ref.py): at step k the pre controls
        # act, the state is recorded, the post controls act, then the step is propagated.  Used where the order within a
        # step is unambiguous (one key per step and side; mixed keys are the recorded finding of part (a)).
        per_step = [oracle_sequences(hist, dt, start, k) for k in range(N + 1)]
        if dyn is not None and all(same_key_only(pr) and same_key_only(po) for pr, po in per_step):
            from harness.ref import ref_dynamics, mpo_transformed
            pre_d = {k: product(pr, d2) for k, (pr, po) in enumerate(per_step) if pr}
            post_d = {k: product(po, d2) for k, (pr, po) in enumerate(per_step) if po}
            envs = [dict(mpos=[mpo_transformed(m_, p_.tin, p_.tout) for m_ in p_.mpos], caps=p_.caps) for p_ in pts if not p_.trivial]
            want = ref_dynamics(d2, envs, pre_d, post_d, props, rho0.reshape(-1), N)
            want = want if record_all else want[-1:]
            chk.search_cases += 1
            if len(dyn.states) != len(want) or any(not np.array_equal(np.array(a_).reshape(-1), np.array(b_).reshape(-1)) for a_, b_ in zip(dyn.states, want)):
                chk.fail("control-misplaced-in-dynamics", "compute_dynamics: with this control schedule the recorded states are not 'pre controls, record, post controls, "
                         "propagate' at every step (a control acts at another time, on another side of the measurement or of the propagation)",
                         {"kind": "compute_dynamics+control oracle", "d": d, "N": N, "nenv": nenv, "record_all": record_all, "dt": dt, "start": start,
                          "hist": [(k, p) for k, p, _ in hist]})
        # the forward pass of compute_gradient_and_dynamics with the same Control object and the same record_all flag reports
        # the same states (all of them / the final one only): the controls act there exactly as in compute_dynamics
        if dyn is not None and nenv >= 1 and not any(p_.trivial for p_ in pts) and all(p_.mpos[-1].shape[1] == 1 for p_ in pts):
            from harness.c08 import InjParamSystem
            from oqupy.gradient import compute_gradient_and_dynamics
            chk.search_cases += 1
            chk.count("gradient_forward_pass_with_controls")
            try:
                dprops = [([gint(rng, (d2, d2), -1, 1)], [gint(rng, (d2, d2), -1, 1)]) for _ in range(N)]
                _, gdyn = quiet(compute_gradient_and_dynamics, system=InjParamSystem(d, props, dprops), initial_state=rho0.copy(),
                                target_derivative=gint(rng, (d, d), -1, 1), process_tensors=[p.build() for p in pts], parameters=np.zeros((2 * N, 1)),
                                start_time=start, dt=dt, num_steps=N, control=build_control(d, hist), record_all=record_all, progress_type="silent")
                same_ = len(gdyn.states) == len(dyn.states) and all(np.array_equal(np.array(a_), np.array(b_)) for a_, b_ in zip(gdyn.states, dyn.states)) \
                    and list(gdyn.times) == list(dyn.times)
            except Exception as ex:
                same_ = False
                chk.fail("gradient-forward-pass-raises", f"compute_gradient_and_dynamics with a Control raises {ex!r}", {"d": d, "N": N, "record_all": record_all})
            else:
                if not same_:
                    chk.fail("control-misplaced-in-gradient", f"compute_gradient_and_dynamics(control=..., record_all={record_all}) reports states / times different from "
                             "compute_dynamics with the same propagators, process tensors and Control object",
                             {"kind": "gradient forward pass", "d": d, "N": N, "nenv": nenv, "record_all": record_all, "dt": dt, "start": start,
                              "hist": [(k, p) for k, p, _ in hist]})
        pl = coq_list([f"({mat_lit(a)}, {mat_lit(b)})" for a, b in props])
        exprs.append(f"dyn_ctl {d2} {coq_list([p.coq(N) for p in pts])} {hist_lit(hist)} {float_lit(dt)} {float_lit(start)} "
                     f"{pl} {'true' if record_all else 'false'} {N} {vec_lit(rho0.reshape(-1))}")
        expected.append(exp)
        meta.append({"kind": "compute_dynamics+control", "d": d, "N": N, "nenv": nenv, "record_all": record_all,
                     "hist": [(k, p) for k, p, _ in hist]})
        chk.count(f"dyn_env{nenv}")
        chk.case(meta[-1], ("dyn", d, N, nenv, record_all, len(hist)))

    # ---- (c) ChainControl ------------------------------------------------------
    for i in range(n_chain):
        nsites = rng.randint(1, 4)
        d = rng.choice([1, 2])
        d2 = d * d
        cc = ChainControl([d] * nsites)
        hist = []
        for _ in range(rng.randint(1, 6)):
            site, step, post = rng.randrange(nsites), rng.randint(0, 2), rng.random() < 0.5
            m = gint(rng, (d2, d2), -2, 2)
            cc.add_single_site_control(m.copy(), site, step, post)
            hist.append((site, step, post, m))
        for post in (False, True):
            exp = []
            for s in range(0, 4):
                got = cc.get_single_site_controls(s, post)
                if got is None:
                    exp += [0]
                else:
                    exp += [1]
                    for g in got:
                        exp += optflat(g)
                # property oracle
                chk.search_cases += 1
                for site in range(nsites):
                    seq = [(0, 0, m) for (si, st, po, m) in hist if si == site and st == s and po == post]
                    want = product(seq, d2) if seq else None
                    g = None if got is None else got[site]
                    if (g is None) != (want is None) or (g is not None and not np.array_equal(g, want)):
                        chk.fail("chain-control-stack-order",
                                 "ChainControl: controls added for the same step and site do not act in insertion order",
                                 {"api": "ChainControl.get_single_site_controls", "nsites": nsites,
                                  "hist": repr(hist), "step": s, "post": post, "site": site})
            hl = coq_list([f"Build_cadd {si} {zlit(st)} {'true' if po else 'false'} {mat_lit(m)}" for si, st, po, m in hist])
            exprs.append(f"chain_query {d2} {nsites} {hl} {'true' if post else 'false'} [0;1;2;3]")
            expected.append(exp)
            meta.append({"kind": "ChainControl", "nsites": nsites, "post": post,
                         "hist": [(a, b, c) for a, b, c, _ in hist]})
            chk.count("chain")
            chk.case(meta[-1], ("chain", nsites, d, len(hist), post))

    # ---- (d) the rules through PT-TEBD: an uncoupled chain with zero generators only sees its controls; every site must
    # record what the single-system computation with the same controls records ------------------------------------------
    for i in range(40 if thorough else 12):
        nsites = rng.randint(2, 3)
        d = 2
        d2 = 4
        N = rng.randint(1, 3)
        cc = ChainControl([d] * nsites)
        per_site = [[] for _ in range(nsites)]
        for c_ in range(rng.randint(1, 5)):
            site, step, post = rng.randrange(nsites), rng.randint(0, N), rng.random() < 0.5
            a_ = np.array([[rng.gauss(0, 1) + 1j * rng.gauss(0, 1) for _ in range(d)] for _ in range(d)])
            kind = rng.choice(["unitary", "left", "channel", "structured"])
            if c_ == 0 and i < 4:
                kind = "structured"        # every run: kicks whose superoperator is diagonal / a permutation / a projector
            if kind == "structured":
                u_ = [np.diag([1.0, -1.0]), np.diag([1.0, 1j]), np.diag(np.exp(-0.4j * np.array([1.0, -1.0]))), np.array([[0.0, 1.0], [1.0, 0.0]]),
                      np.diag([1.0, 0.0]), np.diag([1.0, 0.5])][(i + rng.randrange(2) * 4) % 6 if c_ == 0 and i < 4 else rng.randrange(6)].astype(complex)
                m = np.kron(u_, u_.conj())
            elif kind == "unitary":
                q_, _ = np.linalg.qr(a_)
                m = np.kron(q_, q_.conj())
            elif kind == "left":
                m = np.kron(a_ / 2, np.eye(d))                   # non-trace-preserving
            else:
                m = 0.5 * np.kron(a_, a_.conj()) / max(1.0, np.abs(a_).max() ** 2) + 0.5 * np.eye(d2)
            cc.add_single_site_control(m.copy(), site, step, post)
            per_site[site].append((step, post, m))
        rhos = [oqupy.operators.spin_dm(rng.choice(["x+", "y-", "z+"]) if i >= 4 else rng.choice(["x+", "y-"])) for _ in range(nsites)]
        # every run: the documented execution modes of the chain back-end (gate layers in worker processes / threads)
        mode_ = [None, None, "multiprocess", "multithread"][i % 4]
        info = {"kind": "PtTebd+ChainControl", "sites": nsites, "N": N, "controls": [[(st, po) for st, po, _ in h] for h in per_site], "parallel": mode_}
        try:
            chain = oqupy.SystemChain([d] * nsites)
            tb = oqupy.PtTebd(initial_augmented_mps=oqupy.AugmentedMPS(rhos), system_chain=chain, process_tensors=[None] * nsites,
                              parameters=oqupy.PtTebdParameters(dt=0.1, order=1, epsrel=1e-12), dynamics_sites=list(range(nsites)),
                              chain_control=cc, **({"backend_config": {"parallel": mode_}} if mode_ else {}))
            # the propagation in one call, or interrupted and resumed (a call that ends at an intermediate step, the same call again,
            # then the rest): a control of the junction step still acts exactly once
            if i % 2 == 1 and N >= 2:
                k_ = rng.randint(1, N - 1)
                quiet(tb.compute, k_, progress_type="silent")
                quiet(tb.compute, k_, progress_type="silent")
                info["compute_calls"] = [k_, k_, N]
            res = quiet(tb.compute, N, progress_type="silent")
            ident = np.identity(d2, dtype=complex)
            worst = 0.0
            for site in range(nsites):
                ctrl = Control(d)
                for st, po, m in per_site[site]:
                    ctrl.add_single(st, m.copy(), po)
                ref = quiet(oqupy.compute_dynamics, InjSystem(d, [(ident, ident)] * N), initial_state=rhos[site], dt=0.1, num_steps=N,
                            control=ctrl, progress_type="silent")
                got = np.array(res["dynamics"][site].states)
                # the chain normalises by the total norm: compare up to the product of the other sites' traces
                others = np.array([np.prod([np.trace(quiet(oqupy.compute_dynamics, InjSystem(d, [(ident, ident)] * N), initial_state=rhos[o],
                                   dt=0.1, num_steps=N, control=_site_control(d, per_site[o]), progress_type="silent").states[k])
                                   for o in range(nsites) if o != site]) for k in range(N + 1)])
                want = np.array([np.array(ref.states[k]) * others[k] for k in range(N + 1)])
                worst = max(worst, np.abs(got - want).max())
        except Exception as ex:
            chk.fail("chain-control-raises", f"PtTebd with a ChainControl raises {ex!r}", info)
            continue
        chk.search_cases += 1
        chk.count("pttebd_chain_control")
        chk.case(info, ("tebdctl", nsites, N, str(info["controls"])))
        if worst > 1e-9:
            chk.fail("chain-control-differs-from-single-system", f"PtTebd with a ChainControl: a site's recorded states differ by {worst:.2e} from the "
                     "single-system computation with the same controls (time, pre/post side or order)", info)

    # ---- (e) the same rules in compute_dynamics_with_field (control_list): with a field-independent zero Hamiltonian the
    # mean-field driver must record exactly what compute_dynamics records with the same control and process tensor -----------
    for i in range(30 if thorough else 10):
        d, d2 = 2, 4
        N = rng.randint(1, 3)
        dt, start = rng.choice(DTS), rng.choice(STARTS)
        nsys = rng.choice([1, 2])
        hists = [rand_history(rng, d2, 3, list(range(0, N + 1)), dt, start, kinds=("int",) if rng.random() < 0.6 else ("float",), lo=-1, hi=1)
                 for _ in range(nsys)]
        pts = [rand_intpt(rng, d, N, maxbond=2, lo=-1, hi=1) for _ in range(nsys)]
        rhos = [gint(rng, (d, d), -2, 2) for _ in range(nsys)]
        info = {"kind": "compute_dynamics_with_field+control_list", "systems": nsys, "N": N, "dt": dt, "start": start,
                "controls": [[(k, p_) for k, p_, _ in h] for h in hists]}
        try:
            ss = [oqupy.TimeDependentSystemWithField(lambda t, a: np.zeros((2, 2), dtype=complex)) for _ in range(nsys)]
            mfs = oqupy.MeanFieldSystem(ss, field_eom=lambda t, st, a: 0.0)
            for p_ in pts:
                p_.dt = dt
            built = [p_.build() for p_ in pts]
            mf = quiet(oqupy.compute_dynamics_with_field, mfs, 0.0 + 0j, process_tensor_list=built, initial_state_list=[r.copy() for r in rhos],
                       control_list=[build_control(d, h) for h in hists], start_time=start, dt=dt, num_steps=N, progress_type="silent")
            ident = np.identity(d2, dtype=complex)
            worst = 0.0
            for k in range(nsys):
                b2 = pts[k].build()
                ref = quiet(oqupy.compute_dynamics, InjSystem(d, [(ident, ident)] * N), initial_state=rhos[k].copy(), dt=dt, num_steps=N,
                            start_time=start, process_tensor=[b2], control=build_control(d, hists[k]), progress_type="silent")
                worst = max(worst, np.abs(np.array(mf.system_dynamics[k].states) - np.array(ref.states)).max())
        except Exception as ex:
            chk.fail("control-list-raises", f"compute_dynamics_with_field with a control_list raises {ex!r}", info)
            continue
        chk.search_cases += 1
        chk.count("cdwf_control_list")
        chk.case(info, ("cdwfctl", nsys, N, dt, start, str(info["controls"])))
        if worst > 1e-9:
            chk.fail("control-list-differs-from-single-system", f"compute_dynamics_with_field(control_list=...): a system's recorded states differ by {worst:.2e} "
                     "from compute_dynamics with the same control (time, pre/post side or order)", info)

    vals, errs = run_cases("C18", HEADER, exprs)
    for e in errs:
        chk.disagree("coq evaluation", e)
    for v, exp, m in zip(vals, expected, meta):
        got = ints(v)
        if got != exp:
            chk.disagree(m["kind"], {"meta": m, "impl": exp[:80], "model": (got or [])[:80]})

    return chk.finish(
        level="proof",
        trusted=["model: Model/Control.v, Model/Dyn.v, Model/PT.v (hand-written, tied by this correspondence)",
                 "injected propagators through System.get_propagators; integer-valued tensors make float contraction exact"],
        rule="random add histories (int / float / mixed keys, pre/post, 1-5 stacked, Gaussian-integer 1x1 and 4x4 maps incl. non-trace-preserving) "
             "queried at steps 0..4; compute_dynamics with 0-2 integer process tensors; ChainControl 1-4 sites; "
             "distinct = distinct (kind, sizes, history length) tuples",
        assumptions=["np.round/float arithmetic modelled with Coq primitive floats (binary64)",
                     "PT-TEBD application of chain controls is checked under C10"])
