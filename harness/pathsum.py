"""Exact (uncompressed) value of the TEMPO / PT-TEMPO tensor networks as a sum over paths,
and drivers that run the real back-ends with injected influence functions and propagators.

Conventions (validated against the back-ends, see DESIGN.md section 4):
  * influence(dk)[i, j]: i = index at the EARLIER time point, j = index at the LATER one;
    influence(0) is a diagonal matrix (only its diagonal is used);
  * time point k (k = 0..n-1) is the middle of step k: v_k = Uin . P1_k . cur_k, a basis index j_k
    is picked, cur_{k+1} = P2_k . Uout . e_{j_k};
  * the pair (k', k), k' <= k, contributes the coefficient [cell_key(k', k)] evaluated at
    (j_{k'}, j_k).
"""
import itertools
import numpy as np
import oqupy
from oqupy.backends.tempo_backend import TempoBackend
from oqupy.backends.pt_tempo_backend import PtTempoBackend
from oqupy.process_tensor import SimpleProcessTensor


def cell_key(kp, k, dkmax, rect):
    """Which influence (key passed to influence()) couples source point kp to point k >= kp.
    None: no coupling (beyond the memory cut-off)."""
    dk = k - kp
    if dk == 0:
        return 0
    if dkmax is None or dk < dkmax:
        return dk
    if dk > dkmax:
        return None
    # dk == dkmax: the furthest influence; with an additional correlation time it is the rectangle
    # requested as influence(-(kp+1)).  For kp = 0 the rectangle has width dt and IS the square.
    if rect and kp >= 1:
        return -(kp + 1)
    return dkmax


def ref_pathsum(infl, uin, uout, props, rho0, n, dkmax, rect):
    """states after 0..n steps (vectors in the system basis). infl: key -> matrix."""
    d2 = len(rho0)
    out = [np.array(rho0, dtype=complex)]
    # amplitudes over paths, built step by step (brute force, d2**n paths)
    paths = {(): None}
    amps = {(): 1.0 + 0j}
    for step in range(1, n + 1):
        k = step - 1
        new = {}
        for path, a in amps.items():
            if k == 0:
                v = uin @ props[0][0] @ rho0
            else:
                v = uin @ props[k][0] @ props[k - 1][1] @ uout[:, path[-1]]
            for j in range(d2):
                f = a * v[j] * infl[0][j, j]
                for kp in range(k):
                    key = cell_key(kp, k, dkmax, rect)
                    if key is not None:
                        f = f * infl[key][path[kp], j]
                if f != 0:
                    new[path + (j,)] = f
        amps = new
        state = np.zeros(d2, dtype=complex)
        for path, a in amps.items():
            state = state + a * (props[k][1] @ uout[:, path[-1]])
        out.append(state)
    return out


class Recorder:
    """influence function with a log of the keys it was asked for"""

    def __init__(self, table, rect):
        self.table, self.rect, self.log = table, rect, []

    def __call__(self, dk):
        dk = int(dk)
        self.log.append(dk)
        if dk < 0:
            if not self.rect:
                return None
            if dk == -1:        # a rectangle of width dt is the square
                return self.table[self.dkmax].copy()
            return self.table[dk].copy()
        return self.table[dk].copy()


def transforms(u):
    ud = u.conj().T
    uin = np.kron(ud, u.T)        # rho -> U^dagger rho U   (to the coupling eigenbasis)
    uout = np.kron(u, ud.T)       # back
    return uin, uout


def run_tempo_backend(table, rect, u, props, rho0, n, dkmax, epsrel=1e-15, maps=None, sums=None):
    d2 = len(rho0)
    rec = Recorder(table, rect)
    rec.dkmax = dkmax
    sn = np.ones(d2) if sums is None else sums[0]
    sw = np.ones(d2) if sums is None else sums[1]
    b = TempoBackend(np.array(rho0, dtype=complex), rec, u, lambda step: props[step], sn, sw, dkmax, epsrel,
                     degeneracy_maps=maps, dim=int(round(np.sqrt(d2))))
    step, state = b.initialize()
    states = [np.array(state).reshape(-1)]
    for _ in range(n):
        step, state = b.compute_step()
        states.append(np.array(state).reshape(-1))
    return states, rec.log


def run_pt_backend(table, rect, u, n, dkmax, epsrel=1e-15, maps=None, sums=None):
    d = u.shape[0]
    d2 = d * d
    rec = Recorder(table, rect)
    rec.dkmax = dkmax
    uin, uout = transforms(u)
    ident = np.allclose(u, np.identity(d))
    pt = SimpleProcessTensor(d, dt=0.1, transform_in=None if ident else uin.T, transform_out=None if ident else uout.T)
    sn = np.ones(d2) if sums is None else sums[0]
    sw = np.ones(d2) if sums is None else sums[1]
    b = PtTempoBackend(d, rec, pt, sn, sw, n, n if dkmax is None else dkmax, epsrel, {}, degeneracy_maps=maps)
    b.initialize()
    while b.compute_step():
        pass
    b.update_process_tensor()
    return pt, rec.log


# ------------------------------------------------------------------ integer input families
from harness.impl import gint, mat_lit
from harness.common import coq_list, zlit, vec_lit

TRACE2 = [0, 3]      # indices (i,i) of a vectorised 2x2 matrix

UNITARIES_G = [np.eye(2, dtype=complex),
               np.array([[0, 1], [1, 0]], dtype=complex),
               np.array([[1, 0], [0, 1j]], dtype=complex),
               np.array([[0, -1j], [1, 0]], dtype=complex),
               np.array([[0, 1j], [1j, 0]], dtype=complex)]


def int_table(rng, d2, keys, causal, lo=-1, hi=1):
    """one Gaussian-integer influence matrix per key; key 0 diagonal; causal: columns of the
    trace indices are 1 (tracing the later index out removes the coupling)"""
    table = {}
    tr = [i for i in range(d2) if i % (int(round(np.sqrt(d2))) + 1) == 0]
    for k in keys:
        m = gint(rng, (d2, d2), lo, hi)
        if k == 0:
            dg = np.diag(m).copy()
            dg[dg == 0] = 1          # a vanishing dk=0 weight annihilates paths; keep the network non-degenerate
            m = np.diag(dg)
            if causal:
                for j in tr:
                    m[j, j] = 1
        elif causal:
            for j in tr:
                m[:, j] = 1
        table[k] = m
    return table


def tp_matrix(rng, d2, lo=-1, hi=1):
    """integer matrix with trace . P = trace (trace preserving)"""
    d = int(round(np.sqrt(d2)))
    tr = [i for i in range(d2) if i % (d + 1) == 0]
    p = gint(rng, (d2, d2), lo, hi)
    for j in range(d2):
        s = sum(p[i, j] for i in tr)
        p[tr[0], j] += (1 if j in tr else 0) - s
    return p


def table_lit(table):
    return coq_list([f"({zlit(k)}, {mat_lit(m)})" for k, m in sorted(table.items())])


def pathsum_expr(which, d, table, dkmax, rect, u, props, rho0, n, N):
    dk = "None" if dkmax is None else f"(Some {dkmax}%nat)"
    pl = coq_list([f"({mat_lit(a)}, {mat_lit(b)})" for a, b in props])
    return (f"pathsum_flat {'true' if which else 'false'} {d} {table_lit(table)} {dk} {'true' if rect else 'false'} "
            f"{mat_lit(u)} {pl} {vec_lit(rho0)} {n} {N}")
