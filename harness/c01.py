"""C01 — TEMPO and PT-TEMPO reproduce exactly solvable open-system models."""
import numpy as np
from scipy import integrate
import oqupy
from oqupy.tempo import influence_matrix
from oqupy.bath_correlations import BaseCorrelations

from harness.common import run_cases, ints, coq_list, zlit, float_lit, fbits
from harness.impl import quiet
from harness import c02
from harness.pathsum import cell_key

HEADER = c02.HEADER.replace("Model.Glue.", "Model.Shapes Model.Glue.")
SHAPES = {"upper-triangle": 0, "square": 1, "rectangle": 2}


class RecCorr(BaseCorrelations):
    """records what influence_matrix asks for; answers with a fixed dyadic eta"""

    def __init__(self, eta):
        super().__init__(None, None)
        self.eta, self.calls = eta, []

    def correlation(self, tau, epsrel=None, subdiv_limit=None):
        raise NotImplementedError()

    def correlation_2d_integral(self, delta, time_1, time_2=None, shape="square", epsrel=None, subdiv_limit=None, **kw):
        self.calls.append((delta, time_1, time_2, shape, epsrel))
        return self.eta


def influence_matrix_cases(chk, n_cases, exprs, expected, meta):
    rng = chk.rng
    for it in range(n_cases):
        dt = rng.choice([0.1, 0.05, 0.3, 0.25, 1 / 3])
        dkmax = rng.choice([None, 1, 2, 5, 8])
        tau = rng.choice([None, 0.0, 0.17, 1.0, np.inf]) if dkmax is not None else None
        eps = rng.choice([1e-5, 2 ** -26])
        if dkmax is not None and rng.random() < 0.4:
            # the memory given as a time that need not be a multiple of dt: dkmax = round(tcut/dt)
            tcut = (dkmax + rng.choice([0.0, 0.3, -0.3, 0.45])) * dt
            par = oqupy.TempoParameters(dt=dt, epsrel=eps, tcut=tcut, add_correlation_time=tau)
            if par.dkmax != dkmax:      # documented meaning, derived here and not read back from the library
                chk.fail("tcut-meaning", f"TempoParameters(dt={dt}, tcut={tcut!r}).dkmax = {par.dkmax}: the memory time is {dkmax} steps (nearest number of steps)",
                         {"kind": "tcut-meaning", "dt": dt, "tcut": repr(tcut), "library_dkmax": par.dkmax, "steps": dkmax})
            dkmax = par.dkmax
        else:
            par = oqupy.TempoParameters(dt=dt, epsrel=eps, dkmax=dkmax, add_correlation_time=tau)
        dk = rng.randint(-8, 8)
        if dkmax is None and dk < 0:
            dk = -dk
        er, ei = rng.randint(-8, 8), rng.randint(-8, 8)
        eta = complex(er / 8.0, ei / 8.0)
        d = rng.choice([2, 3])
        o = [rng.randint(-2, 2) for _ in range(d)]
        comm = np.array([o[i] - o[j] for i in range(d) for j in range(d)], dtype=complex)
        acomm = np.array([o[i] + o[j] for i in range(d) for j in range(d)], dtype=complex)
        use_deg = rng.random() < 0.4
        deg = None
        if use_deg:
            north = sorted(rng.sample(range(d * d), rng.randint(1, d * d)))
            west = sorted(rng.sample(range(d * d), rng.randint(1, d * d)))
            deg = [np.array(north), np.array(west)]
        rec = RecCorr(eta)
        infl = influence_matrix(dk, par, rec, acomm, comm, deg)
        info = {"kind": "influence_matrix", "dk": dk, "dt": dt, "dkmax": dkmax, "tau_add": tau, "deg": use_deg, "spectrum": o}
        # (1) the requested 2D integral
        if infl is None:
            exp = [-1]
        else:
            if len(rec.calls) != 1:
                chk.disagree("influence_matrix", {"meta": info, "calls": len(rec.calls)})
                continue
            delta, t1, t2, shape, epsrel = rec.calls[0]
            exp = [SHAPES.get(shape, 9)] + fbits(t1) + ([0] if t2 is None else [1] + fbits(t2))
            if delta != dt or epsrel != eps:
                chk.disagree("influence_matrix", {"meta": info, "delta": delta, "epsrel": epsrel})
        dkm = "None" if dkmax is None else f"(Some {zlit(dkmax)})"
        tl = "None" if tau is None else f"(Some {float_lit(tau)})"
        exprs.append(f"infl_args_flat {zlit(dk)} {float_lit(dt)} {dkm} {tl}")
        expected.append(("ints", exp, 0))
        meta.append(info)
        chk.case(info, ("args", dk, dt, dkmax, tau))
        chk.count("infl_args")
        # (2) the matrix: exp of the model's exact exponent (same np.exp on bit-identical arguments)
        if infl is not None:
            nl = "None" if deg is None else f"(Some {coq_list([str(i) for i in deg[0]])}%nat)"
            wl = "None" if deg is None else f"(Some {coq_list([str(i) for i in deg[1]])}%nat)"
            ml = coq_list([zlit(int(x.real)) for x in comm])
            pl = coq_list([zlit(int(x.real)) for x in acomm])
            diag = dk == 0
            exprs.append(f"exponent_flat {zlit(er)} {zlit(ei)} {ml} {pl} {nl} {wl} {'true' if diag else 'false'}")
            expected.append(("exponent", (infl, diag, deg is not None), 0))
            meta.append(info)
            chk.count("infl_matrix")


def compare_infl(chk, vals, expected, meta):
    for v, exp, m in zip(vals, expected, meta):
        kind, impl, _ = exp
        got = ints(v)
        if kind == "ints":
            if got != impl:
                chk.disagree("influence_matrix arguments", {"meta": m, "impl": impl, "model": got})
        elif kind == "exponent":
            infl, diag, has_deg = impl
            e = np.array(got, dtype=float).reshape(-1, 2)
            e = (e[:, 0] + 1j * e[:, 1]) / 8.0
            if diag and not has_deg:
                want = np.diag(np.exp(e))
            elif diag:
                want = np.exp(e)
            else:
                want = np.exp(e.reshape(np.array(infl).shape))
            if np.array(infl).shape != want.shape or not np.array_equal(np.array(infl), want):
                chk.disagree("influence_matrix value", {"meta": m})


# ------------------------------------------------------------------ independent-boson oracle

def haar(rng, d):
    z = np.array([[rng.gauss(0, 1) + 1j * rng.gauss(0, 1) for _ in range(d)] for _ in range(d)])
    q, r = np.linalg.qr(z)
    return q * (np.diag(r) / np.abs(np.diag(r)))


def G_of(corr):
    """G(t) = int_0^t (t - tau) C(tau) dtau from the object's own correlation function"""
    cache = {}

    def G(t):
        t = float(t)
        if t <= 0:
            return 0j
        if t not in cache:
            f = lambda tau: (t - tau) * complex(corr.correlation(tau))
            re = integrate.quad(lambda x: f(x).real, 0, t, epsabs=1e-12, epsrel=1e-10, limit=200)[0]
            im = integrate.quad(lambda x: f(x).imag, 0, t, epsabs=1e-12, epsrel=1e-10, limit=200)[0]
            cache[t] = re + 1j * im
        return cache[t]
    return G


def gamma_documented(G, n, dt, dkmax, tau):
    """sum of the cells the documentation says are included in the first n steps"""
    rect = dkmax is not None and tau is not None
    total = 0j
    for k in range(n):
        for kp in range(k + 1):
            key = cell_key(kp, k, dkmax, rect)
            if key is None:
                continue
            if key == 0:
                total += G(dt)
            elif key > 0:
                total += G((key + 1) * dt) - 2 * G(key * dt) + G((key - 1) * dt)
            else:
                t1 = dkmax * dt
                t2 = t1 + min((kp + 1) * dt, dt + tau)
                total += G(t2) - G(t1) - G(t2 - dt) + G(t1 - dt)
    return total


def boson_search(chk, n_cases):
    rng = chk.rng
    # every run: a parameter scan -- correlation objects that agree in everything but ONE parameter, all built up front and
    # alive together, then used one after the other with no construction in between (iterations 3..5)
    scan_kind = rng.choice(["zeta", "alpha", "custom"])
    sa, sc, sT, sct = rng.choice([0.1, 0.2]), rng.choice([1.0, 3.0]), rng.choice([0.0, 0.2]), rng.choice(["exponential", "gaussian"])
    if scan_kind == "zeta":
        scan = [oqupy.PowerLawSD(alpha=sa, zeta=z, cutoff=sc, cutoff_type=sct, temperature=sT) for z in rng.sample([0.5, 1, 2, 3], 3)]
    elif scan_kind == "alpha":
        scan = [oqupy.PowerLawSD(alpha=a_, zeta=1, cutoff=sc, cutoff_type=sct, temperature=sT) for a_ in rng.sample([0.05, 0.1, 0.2, 0.4], 3)]
    else:       # spectral densities that agree at the cut-off frequency and at w = 1 but are different functions
        scan = [oqupy.CustomSD(f, cutoff=2.0, cutoff_type=sct, temperature=sT)
                for f in (lambda w: 0.1 * w, lambda w: 0.05 * w ** 2, lambda w: 0.1 * w * (1 + 0.3 * (w - 1) * (w - 2)))]
    for it in range(n_cases):
        d = rng.choice([2, 2, 3, 4] if chk.tier == "thorough" else [2, 2, 3])
        o = np.array([rng.choice([-1.0, -0.5, 0.0, 0.5, 1.0, 1.5]) for _ in range(d)])
        if len(set(o)) == 1:
            o[0] += 0.5
        if it == 1:
            # every run (this iteration also forces unique=True and a rotated basis): a repeated coupling eigenvalue,
            # listed neither in ascending nor in a symmetric order
            d = 3
            o = np.array(rng.choice([[0.0, 1.0, 0.0], [1.0, 0.0, 1.0], [0.5, 0.5, -1.0], [0.0, 0.0, 1.0]]))
        E = np.array([rng.uniform(-1, 1) for _ in range(d)])
        V = haar(rng, d) if rng.random() < 0.7 else np.eye(d)
        O = V @ np.diag(o) @ V.conj().T
        H = V @ np.diag(E) @ V.conj().T
        a = np.array([[rng.gauss(0, 1) + 1j * rng.gauss(0, 1) for _ in range(d)] for _ in range(d)])
        rho0 = a @ a.conj().T
        rho0 /= np.trace(rho0)
        if it % 2 == 1:
            rho0 = np.asfortranarray(rho0)          # same values, Fortran memory order (complex coherences: not symmetric)
        ck = rng.choice(["power", "power", "customsd", "customcorr"])
        T = rng.choice([0.0, 0.02, 0.2, 2.0]) if it >= 2 else 0.02      # 0.02: cold but non-zero (overflow-guard branch of eta_function)
        if 3 <= it <= 5:
            ck, T, corr = "scan-" + scan_kind, sT, scan[it - 3]
        elif ck == "power":
            corr = oqupy.PowerLawSD(alpha=rng.choice([0.05, 0.2, 0.5]), zeta=rng.choice([0.5, 1, 1.5, 2, 3]), cutoff=rng.choice([1.0, 3.0]),
                                    cutoff_type=rng.choice(["hard", "exponential", "gaussian"]), temperature=T)
        elif ck == "customsd":
            corr = oqupy.CustomSD(lambda w: 0.15 * w ** 2 / (1 + w), cutoff=2.0, cutoff_type="gaussian", temperature=T)
        else:
            corr = oqupy.CustomCorrelations(lambda t: 0.2 * np.exp(-t * t) * (1 - 0.5j * t))
        dt = rng.choice([0.1, 0.2])
        n = rng.randint(2, 5)
        dkmax = rng.choice([None, None, 1, 2, 3])
        tau = rng.choice([None, 0.0, 0.15, np.inf]) if dkmax is not None else None
        eps = 1e-7
        if it == 4:     # every run: full memory, a run continued over several compute() calls (below)
            dkmax, n, tau = None, 5, None
        if it == 2:     # every run: a memory TIME slightly below / exactly at a whole number of steps, and a run longer than it
            dkmax, n, tau = rng.choice([2, 3]), 5, rng.choice([None, 0.0])
        if dkmax is not None and (rng.random() < 0.4 or it == 2):
            par = oqupy.TempoParameters(dt=dt, epsrel=eps, tcut=(dkmax + (rng.choice([0.3, -0.3, 0.0]) if it != 2 else rng.choice([-0.3, 0.0]))) * dt,
                                        add_correlation_time=tau)
        else:
            par = oqupy.TempoParameters(dt=dt, epsrel=eps, dkmax=dkmax, add_correlation_time=tau)
        bath = oqupy.Bath(O, corr)
        unique = rng.random() < 0.5 if it >= 2 else True          # both degeneracy settings
        if it < 2:
            V = haar(rng, d)                                        # every run: degeneracy checking with a rotated (complex) basis
            O = V @ np.diag(o) @ V.conj().T
            H = V @ np.diag(E) @ V.conj().T
            bath = oqupy.Bath(O, corr)
        info = {"d": d, "o": list(o), "corr": ck, "T": T, "dt": dt, "n": n, "dkmax": dkmax, "tau_add": tau, "rotated": not np.allclose(V, np.eye(d)), "unique": unique, "initial_state_order": "F" if it % 2 == 1 else "C"}
        try:
            t = oqupy.Tempo(oqupy.System(H), bath, par, rho0, 0.0, unique=unique)
            if it % 2 == 0 and n >= 3:
                # the documented "continue to propagate": the run reaches its end in several compute() calls on the one object (every second
                # case; the memory setting means the same whether a run is continued or done in one go)
                legs = sorted(set([rng.randint(1, n - 2), n - 1]))
                info["tempo_compute_calls"] = legs + [n]
                for k_ in legs:
                    quiet(t.compute, k_ * dt, progress_type="silent")
            st_t = np.array(quiet(t.compute, n * dt, progress_type="silent").states)
            # the process tensor in memory or written directly to a file (every third case; it == 1: rotated complex basis, forced)
            pt = quiet(oqupy.pt_tempo_compute, bath, 0.0, n * dt, parameters=par, unique=unique, process_tensor_file=True if it % 3 == 1 else None,
                       progress_type="silent")
            info["process_tensor"] = "file-backed" if it % 3 == 1 else "memory"
            st_p = np.array(quiet(oqupy.compute_dynamics, oqupy.System(H), initial_state=rho0, process_tensor=pt, progress_type="silent").states)
            if it % 3 == 1:
                pt.remove()
        except Exception as ex:
            chk.fail("boson-raises", f"Tempo/PtTempo raise {ex!r}", info)
            continue
        G = G_of(corr)
        r0e = V.conj().T @ rho0 @ V
        worst = 0.0
        for step in range(1, n + 1):
            gam = gamma_documented(G, step, dt, dkmax, tau)
            want = np.zeros((d, d), dtype=complex)
            for s in range(d):
                for s2 in range(d):
                    m, p = o[s] - o[s2], o[s] + o[s2]
                    want[s, s2] = r0e[s, s2] * np.exp(-1j * (E[s] - E[s2]) * step * dt) * np.exp(-m * (gam.real * m + 1j * gam.imag * p))
            want = V @ want @ V.conj().T
            worst = max(worst, np.abs(st_t[step] - want).max(), np.abs(st_p[step] - want).max())
        chk.search_cases += 1
        chk.count("boson_" + ck)
        chk.case(dict(info, kind="independent-boson", max_dev=worst), ("boson", d, ck, T, dkmax, tau, n))
        if worst > 2e-5:
            chk.fail("independent-boson", f"TEMPO / PT-TEMPO deviate from the independent-boson solution by {worst:.2e} "
                     f"(epsrel {eps}; memory setting dkmax={dkmax}, add_correlation_time={tau})", info)


def finite_mode_search(chk, n_cases):
    """second half of the property: a bath of finitely many harmonic modes, given through its autocorrelation function,
    and a system that does NOT commute with the coupling, against the explicitly simulated system + modes evolution
    with the same symmetric splitting  U_S(dt/2) exp(-i (H_B + O x X) dt) U_S(dt/2)  (Fock space truncated where the
    thermal + displaced occupation is < 1e-12)."""
    from scipy.linalg import expm
    rng = chk.rng
    for it in range(n_cases):
        d = rng.choice([2, 2, 3])
        K = rng.choice([1, 1, 2])
        T = rng.choice([0.0, 0.0, 0.3, 0.5])
        modes = [(rng.choice([1.0, 1.3, 2.1, 2.6]), rng.choice([0.1, 0.2, 0.3])) for _ in range(K)]
        nf = 14 if K == 1 else 10
        o = np.array([rng.choice([-1.0, -0.5, 0.0, 0.5, 1.0]) for _ in range(d)])
        if len(set(o)) == 1:
            o[0] += 0.5
        V = haar(rng, d) if rng.random() < 0.5 else np.eye(d)
        O = V @ np.diag(o) @ V.conj().T
        O = (O + O.conj().T) / 2
        a_ = np.array([[rng.gauss(0, 1) + 1j * rng.gauss(0, 1) for _ in range(d)] for _ in range(d)])
        H = (a_ + a_.conj().T) / 3                       # generic: does not commute with O
        b_ = np.array([[rng.gauss(0, 1) + 1j * rng.gauss(0, 1) for _ in range(d)] for _ in range(d)])
        rho0 = b_ @ b_.conj().T
        rho0 /= np.trace(rho0)
        dt = rng.choice([0.1, 0.2])
        n = rng.randint(2, 6)
        mem = rng.choice(["full", "full", "cutoff>=n", "tcut>=n"])

        def C(t, modes=modes, T=T):
            t = np.asarray(t, dtype=float)
            out = 0.0
            for w, g in modes:
                coth = 1.0 if T == 0 else 1.0 / np.tanh(w / (2 * T))
                out = out + g * g * (coth * np.cos(w * t) - 1j * np.sin(w * t))
            return out
        info = {"kind": "finite-modes", "d": d, "modes": modes, "T": T, "dt": dt, "n": n, "memory": mem, "rotated_coupling": not np.allclose(V, np.eye(d))}
        eps = 1e-9
        par = {"full": lambda: oqupy.TempoParameters(dt=dt, epsrel=eps, dkmax=None),
               "cutoff>=n": lambda: oqupy.TempoParameters(dt=dt, epsrel=eps, dkmax=n + rng.randint(0, 2)),
               "tcut>=n": lambda: oqupy.TempoParameters(dt=dt, epsrel=eps, tcut=(n + 0.3) * dt, add_correlation_time=0.15)}[mem]()
        try:
            bath = oqupy.Bath(O, oqupy.CustomCorrelations(C))
            st_t = np.array(quiet(oqupy.Tempo(oqupy.System(H), bath, par, rho0, 0.0).compute, n * dt, progress_type="silent").states)
            pt = quiet(oqupy.pt_tempo_compute, bath, 0.0, n * dt, parameters=par, progress_type="silent")
            st_p = np.array(quiet(oqupy.compute_dynamics, oqupy.System(H), initial_state=rho0, process_tensor=pt, progress_type="silent").states)
        except Exception as ex:
            chk.fail("finite-modes-raises", f"Tempo/PtTempo raise {ex!r}", info)
            continue
        # explicit system + modes
        lad = np.diag(np.sqrt(np.arange(1, nf)), 1)
        eye = np.eye(nf)

        def emb(op, k):
            mats = [eye] * K
            mats[k] = op
            out = mats[0]
            for m_ in mats[1:]:
                out = np.kron(out, m_)
            return out
        HB = sum(w * emb(lad.T @ lad, k) for k, (w, g) in enumerate(modes))
        X = sum(g * emb(lad + lad.T, k) for k, (w, g) in enumerate(modes))
        Us = np.kron(expm(-1j * H * dt / 2), np.eye(nf ** K))
        U = Us @ expm(-1j * (np.kron(np.eye(d), HB) + np.kron(O, X)) * dt) @ Us
        th = None
        for w, g in modes:
            pw = np.array([1.0] + [0.0] * (nf - 1)) if T == 0 else np.exp(-w * np.arange(nf) / T)
            pw = pw / pw.sum()
            th = np.diag(pw) if th is None else np.kron(th, np.diag(pw))
        R = np.kron(rho0, th)
        worst = 0.0
        for step in range(1, n + 1):
            R = U @ R @ U.conj().T
            want = np.trace(R.reshape(d, nf ** K, d, nf ** K), axis1=1, axis2=3)
            worst = max(worst, np.abs(st_t[step] - want).max(), np.abs(st_p[step] - want).max())
        chk.search_cases += 1
        chk.count("finite_modes_K%d" % K)
        chk.case(dict(info, max_dev=worst), ("modes", d, K, T, dt, n, mem, it))
        if worst > 1e-6:
            chk.fail("finite-modes", f"TEMPO / PT-TEMPO deviate from the explicitly simulated system + {K} mode(s) evolution by {worst:.2e} "
                     f"(epsrel {eps}, memory {mem})", info)


def scenario_search(chk, n_cases):
    """one harmonic mode given through its autocorrelation function; the system is arbitrary: explicitly time-dependent
    Hamiltonian, rates and Lindblad operators, a start time, control operations (integer steps or float times, pre / post),
    degeneracy checking on or off, a rotated coupling operator, TEMPO or PT-TEMPO (in memory / written to a file) followed by
    compute_dynamics.  Oracle: the explicit system + mode evolution in Liouville space with the same symmetric splitting and the
    same sampling of the generator (subdiv_limit=None: at t + dt/4 and t + 3dt/4)."""
    from scipy.linalg import expm
    rng = chk.rng
    for it in range(n_cases):
        d = rng.choice([2, 2, 3]) if it != 2 else 3
        T = rng.choice([0.0, 0.4])
        wm, gm = rng.choice([1.0, 1.7, 2.4]), rng.choice([0.15, 0.3])
        nf = 12
        dt = rng.choice([0.1, 0.2])
        n = rng.randint(2, 5)
        start = rng.choice([0.0, 0.0, 0.7, -1.3])
        o = np.array([rng.choice([-1.0, -0.5, 0.0, 0.5, 1.0]) for _ in range(d)])
        if len(set(o)) == 1:
            o[0] += 0.5
        V = haar(rng, d) if rng.random() < 0.5 else np.eye(d)
        O = V @ np.diag(o) @ V.conj().T
        O = (O + O.conj().T) / 2
        mk = lambda: np.array([[rng.gauss(0, 1) + 1j * rng.gauss(0, 1) for _ in range(d)] for _ in range(d)])
        a0, a1, l0, l1 = mk(), mk(), mk() / 2, mk() / 4
        H0, H1 = (a0 + a0.conj().T) / 3, (a1 + a1.conj().T) / 4
        tdep = rng.random() < 0.6
        diss = rng.random() < 0.6
        hkind = "generic"
        if it in (1, 2) or (not tdep and rng.random() < 0.4):
            # every run: a time-independent System whose Hamiltonian is a DIAGONAL matrix with a Lindblad operator that is not
            # (it == 1), or has a repeated eigenvalue and is written in a rotated basis, without dissipators (it == 2)
            tdep = False
            hkind = ["diagonal", "degenerate-rotated"][it - 1] if it in (1, 2) else rng.choice(["diagonal", "degenerate-rotated"])
            diss = hkind == "diagonal" or rng.random() < 0.3
            if hkind == "diagonal":
                H0 = np.diag([rng.choice([-0.3, 0.7, 0.7, 1.1]) for _ in range(d)]).astype(complex)
                l0 = np.diag(np.ones(d - 1), 1).astype(complex) + 0.2 * l0
            else:
                q_ = haar(rng, d)
                H0 = q_ @ np.diag([0.8] * (d - 1) + [-0.4]).astype(complex) @ q_.conj().T
                H0 = (H0 + H0.conj().T) / 2
        hfun = (lambda t: H0 + np.sin(1.3 * t) * H1) if tdep else (lambda t: H0)
        gfun = (lambda t: 0.2 + 0.1 * np.cos(t)) if tdep else (lambda t: 0.25)
        lfun = (lambda t: l0 + 0.5 * t * l1) if tdep else (lambda t: l0)
        if not tdep and (hkind != "generic" or rng.random() < 0.5):
            # the time-independent system class
            sysm = oqupy.System(H0, gammas=[0.25], lindblad_operators=[l0]) if diss else oqupy.System(H0)
        elif diss:
            sysm = oqupy.TimeDependentSystem(hfun, gammas=[gfun], lindblad_operators=[lfun])
        else:
            sysm = oqupy.TimeDependentSystem(hfun)
        b_ = mk()
        rho0 = b_ @ b_.conj().T
        rho0 /= np.trace(rho0)
        unique = rng.random() < 0.4
        route = rng.choice(["tempo", "pttempo", "pttempo-file"])
        ckind = rng.choice(["none", "none", "int", "float"])
        pre, post = {}, {}
        ctrl = None
        if ckind != "none":
            ctrl = oqupy.Control(d)
            for k in range(n + 1):
                for side, table in ((False, pre), (True, post)):
                    if rng.random() < 0.35 and not (side and k == n):
                        u_ = haar(rng, d)
                        m_ = np.kron(u_, u_.conj()) if rng.random() < 0.6 else np.kron(mk() / 2, np.eye(d))
                        table[k] = m_
                        key = k if ckind == "int" else float(start + (k + rng.choice([0.0, 0.3, -0.3])) * dt)
                        ctrl.add_single(key, m_.copy(), post=side)

        def C(t, wm=wm, gm=gm, T=T):
            t = np.asarray(t, dtype=float)
            coth = 1.0 if T == 0 else 1.0 / np.tanh(wm / (2 * T))
            return gm * gm * (coth * np.cos(wm * t) - 1j * np.sin(wm * t))
        eps = 1e-9
        par = oqupy.TempoParameters(dt=dt, epsrel=eps, dkmax=None, subdiv_limit=None)
        info = {"kind": "scenario", "d": d, "T": T, "mode": [wm, gm], "dt": dt, "n": n, "start": start, "time_dependent": tdep, "dissipative": diss, "hamiltonian": hkind, "system_class": type(sysm).__name__,
                "unique": unique, "route": route, "controls": ckind, "pre": sorted(pre), "post": sorted(post), "rotated_coupling": not np.allclose(V, np.eye(d))}
        try:
            bath = oqupy.Bath(O, oqupy.CustomCorrelations(C))
            if route == "tempo" and ctrl is None:
                states = np.array(quiet(oqupy.Tempo(sysm, bath, par, rho0, start, unique=unique).compute, start + n * dt, progress_type="silent").states)
            else:
                info["route"] = route = "pttempo" if route == "tempo" else route
                pt = quiet(oqupy.pt_tempo_compute, bath, start, start + n * dt, parameters=par, unique=unique,
                           process_tensor_file=True if route == "pttempo-file" else None, progress_type="silent")
                states = np.array(quiet(oqupy.compute_dynamics, sysm, initial_state=rho0, process_tensor=pt, start_time=start, control=ctrl,
                                        subdiv_limit=None, progress_type="silent").states)
                if route == "pttempo-file":
                    pt.remove()
        except Exception as ex:
            chk.fail("scenario-raises", f"the computation raises {ex!r}", info)
            continue
        # explicit system + mode evolution; joint density matrix R[a, m, b, m']
        lad = np.diag(np.sqrt(np.arange(1, nf)), 1)
        U = expm(-1j * (np.kron(np.eye(d), wm * lad.T @ lad) + np.kron(O, gm * (lad + lad.T))) * dt)
        pth = np.array([1.0] + [0.0] * (nf - 1)) if T == 0 else np.exp(-wm * np.arange(nf) / T)
        pth = pth / pth.sum()
        R = np.einsum("ab,mn->ambn", rho0, np.diag(pth)).astype(complex)
        I_ = np.eye(d)

        def liou(t):
            H, g, A = hfun(t), gfun(t), lfun(t)
            L = -1j * (np.kron(H, I_) - np.kron(I_, H.T))
            if diss:
                AdA = A.conj().T @ A
                L = L + g * (np.kron(A, A.conj()) - 0.5 * np.kron(AdA, I_) - 0.5 * np.kron(I_, AdA.T))
            return L

        def sys_apply(S, R):
            S4 = S.reshape(d, d, d, d)            # [(a b), (c e)]
            return np.einsum("abce,cmen->ambn", S4, R)
        worst = 0.0
        for k in range(n + 1):
            if k in pre:
                R = sys_apply(pre[k], R)
            want = np.einsum("ambm->ab", R)
            worst = max(worst, np.abs(states[k] - want).max() / max(1.0, np.abs(want).max()))
            if k == n:
                break
            if k in post:
                R = sys_apply(post[k], R)
            t = start + k * dt
            R = sys_apply(expm(liou(t + dt / 4) * dt / 2), R)
            Rm = R.reshape(d * nf, d * nf)
            R = (U @ Rm @ U.conj().T).reshape(d, nf, d, nf)
            R = sys_apply(expm(liou(t + 3 * dt / 4) * dt / 2), R)
        chk.search_cases += 1
        chk.count("scenario_" + route)
        chk.case(dict(info, max_dev=worst), ("scenario", d, T, dt, n, start, tdep, diss, unique, route, ckind, it))
        if worst > 1e-6:
            chk.fail("scenario", f"{route} deviates from the explicitly simulated system + mode evolution by {worst:.2e} (time-dependent={tdep}, dissipative={diss}, "
                     f"start_time={start}, controls={ckind}, unique={unique})", info)


def run(chk):
    thorough = chk.tier == "thorough"
    chk.proofs()
    exprs, expected, meta = [], [], []
    c02.backend_cases(chk, 40 if thorough else 12, exprs, expected, meta)
    nb = len(exprs)
    influence_matrix_cases(chk, 300 if thorough else 100, exprs, expected, meta)
    vals, errs = run_cases("C01", HEADER, exprs, chunk=40)
    for e in errs:
        chk.disagree("coq evaluation", e)
    c02.compare(chk, vals[:nb], expected[:nb], meta[:nb])
    compare_infl(chk, vals[nb:], expected[nb:], meta[nb:])
    boson_search(chk, 40 if (thorough or chk.disagreements or chk.broken) else 10)
    finite_mode_search(chk, 24 if (thorough or chk.disagreements or chk.broken) else 6)
    scenario_search(chk, 40 if (thorough or chk.disagreements or chk.broken) else 10)
    return chk.finish(
        level="proof",
        trusted=["models: Model/Schedule.v, Model/Shapes.v, Model/PathSum.v; exp enters only as 'exp of a sum is the product of exps' (np.exp applied by the "
                 "harness to the model's exact exponent)",
                 "search oracle: independent-boson closed form with Gamma from an independent quadrature of the object's own correlation()",
                 "search oracle: explicit system + harmonic modes evolution in a truncated Fock space (10-14 levels per mode), same symmetric splitting"],
        rule="back-end path sums as in C02 (fewer); influence_matrix for dk in [-8,8], five dt, dkmax in {None,1,2,5,8}, add_correlation_time in "
             "{None,0,.17,1,inf}, with/without degeneracy positions (arguments bit-exact, matrix exact); independent-boson search over dimension "
             "2-4, rotated bases, power-law / custom densities and correlations, T in {0,.02,.2,2}, all memory settings; finite-mode search: 1-2 modes given "
             "through their autocorrelation function, generic non-commuting H, rotated couplings, T in {0,.3,.5}, full memory and cut-offs beyond the run, "
             "Tempo and PtTempo vs explicit system+modes simulation at 1e-6; distinct = distinct configuration",
        assumptions=["quadrature accuracy and SVD truncation error are explored by the search, not proved",
                     "the finite-mode part of the property is a search against an explicit simulation (no bath model in Coq; C03's joint-evolution theorem is its formal counterpart)"])
