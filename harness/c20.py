"""C20 — results depend only on current inputs: no mutation, aliasing or stale state."""
import copy
import warnings
import numpy as np
import oqupy

from harness.common import run_cases, ints, coq_list
from harness.impl import quiet, InjSystem, gint

HEADER = """From Coq Require Import Arith List Bool.
From OQ Require Import Model.Cache Model.Holder.
Import ListNotations.
Definition ver (o : option nat) : nat := match o with Some v => v | None => 0 end.
Definition holder_answers (ops : list (hop nat)) : list nat := map ver (hrun nat nat (fun v => v) (hinit nat) ops).
Definition answers (ops : list (op nat)) : list nat :=
  map ver (snd (run nat nat (fun p a => p) (init nat nat) ops))."""

SZ = oqupy.operators.sigma("z")
SX = oqupy.operators.sigma("x")


class Family:
    """A class of parameterised objects; the parameter version p (1..5) an answer was computed from is observable
    because the answers of fresh objects differ for different p (looked up among the fresh answers)."""

    ATTR = {   # name -> (class, attribute set after construction, value for version p)
        "PowerLawSD.alpha": ("power", "alpha", lambda p: 0.1 * p),
        "PowerLawSD.zeta": ("power", "zeta", lambda p: 0.5 + 0.5 * p),
        "PowerLawSD.cutoff": ("power", "cutoff", lambda p: 1.0 + p),
        "PowerLawSD.temperature": ("power", "temperature", lambda p: 0.3 * (p - 1)),
        "PowerLawSD.cutoff_type": ("power", "cutoff_type", lambda p: ["hard", "exponential", "gaussian"][p % 3]),
        "CustomSD.cutoff_type": ("custom", "cutoff_type", lambda p: ["hard", "exponential", "gaussian"][p % 3]),
        "CustomSD.temperature": ("custom", "temperature", lambda p: 0.4 * (p - 1)),
    }
    NP = {"PowerLawSD.cutoff_type": 3, "CustomSD.cutoff_type": 3}

    def __init__(self, name):
        self.name = name
        self.ref = {}

    def nversions(self):
        return self.NP.get(self.name, 5)

    def new(self, p):
        if self.name in self.ATTR:
            cls, attr, val = self.ATTR[self.name]
            kw = dict(cutoff=3.0, cutoff_type="exponential", temperature=0.2)
            if cls == "power":
                kw.update(alpha=0.2, zeta=1.0)
                kw[attr] = val(p)
                return oqupy.PowerLawSD(**kw)
            kw[attr] = val(p)
            return oqupy.CustomSD(lambda w: 0.3 * w, **kw)
        if self.name == "CustomSD.j_function":
            return oqupy.CustomSD(lambda w, p=p: 0.1 * p * w, cutoff=2.0, cutoff_type="gaussian")
        return oqupy.CustomCorrelations(lambda t, p=p: 0.1 * p * np.exp(-t * t))

    def set(self, obj, p):
        if self.name in self.ATTR:
            _, attr, val = self.ATTR[self.name]
            setattr(obj, attr, val(p))
        elif self.name == "CustomSD.j_function":
            obj.j_function = np.vectorize(lambda w, p=p: 0.1 * p * w)
        else:
            obj.correlation_function = np.vectorize(lambda t, p=p: 0.1 * p * np.exp(-t * t))

    def _ask(self, obj, a):
        return complex(obj.correlation_2d_integral(0.1 * (1 + a % 2), 0.1 * (a // 2), shape="square" if a >= 2 else "upper-triangle", epsrel=1e-8))

    def call(self, obj, a):
        if isinstance(obj, BathBox):
            obj = obj.bath.correlations          # a Bath answers through the handle it gives out
        v = self._ask(obj, a)
        if a not in self.ref:
            self.ref[a] = {q: self._ask(self.new(q), a) for q in range(1, self.nversions() + 1)}
            vals = list(self.ref[a].values())
            assert all(abs(x - y) > 1e-6 * abs(x) for i, x in enumerate(vals) for y in vals[i + 1:]), "versions not distinguishable"
        hits = [q for q, r in self.ref[a].items() if abs(v - r) <= 1e-9 * abs(r)]
        return hits[0] if len(hits) == 1 else -1

    def copy(self, obj, how):
        if isinstance(obj, BathBox):
            return obj.bath.correlations         # the handle a Bath gives out is a copy of what the Bath holds
        if how == 0:
            return copy.copy(obj)
        if how == 2:
            return BathBox(oqupy.Bath(SZ, obj))  # the Bath itself (it holds a copy), kept for later questions
        return oqupy.Bath(SZ, obj).correlations


class BathBox:
    """a Bath kept as an object of the sequence: Call = ask through bath.correlations, Copy = bath.correlations"""

    def __init__(self, bath):
        self.bath = bath


def layouts(a):
    """the same values in different memory layouts / flags"""
    a = np.array(a, dtype=complex)
    out = {"c": a.copy(order="C"), "f": np.asfortranarray(a), "t": a.T.copy().T}
    big = np.zeros((a.shape[0] * 2, a.shape[1] * 2), dtype=complex)
    big[::2, ::2] = a
    out["strided"] = big[::2, ::2]
    ro = a.copy()
    ro.setflags(write=False)
    out["readonly"] = ro
    return out


def run(chk):
    rng = chk.rng
    thorough = chk.tier == "thorough"
    chk.proofs()
    exprs, expected, meta = [], [], []

    # ---- (a) operation sequences on shared correlations objects ------------------------------
    n_seq = 240 if thorough else 72
    fams = [Family(n) for n in list(Family.ATTR) + ["CustomSD.j_function", "CustomCorrelations.function"]]
    for it in range(n_seq + 3 * len(fams)):
        fam = rng.choice(fams) if it >= 3 * len(fams) else fams[it // 3]
        objs, ops, got = [], [], []
        # the first two sequences of every family follow the stale-answer pattern: ask, change the parameter, ask the
        # SAME question again (on the object, on a copy made before / after the change); the others are random
        script = None
        if it < 3 * len(fams):
            a0, p0 = rng.randint(0, 3), rng.randint(1, fam.nversions())
            p1 = rng.choice([q for q in range(1, fam.nversions() + 1) if q != p0])
            script = [[("new", p0), ("call", 0, a0), ("copy", 0), ("set", 0, p1), ("call", 0, a0), ("call", 1, a0), ("copy", 0), ("call", 2, a0),
                       ("set", 1, p1), ("call", 1, a0)],
                      [("new", p0), ("new", p1), ("call", 0, a0), ("call", 1, a0), ("set", 0, p1), ("set", 1, p0), ("call", 0, a0), ("call", 1, a0)],
                      # a Bath kept as object 1: the handle it gives out (object 2) is changed; the Bath, a second handle and the
                      # original are unaffected
                      [("new", p0), ("copy", 0, 2), ("copy", 1), ("set", 2, p1), ("call", 1, a0), ("copy", 1), ("call", 3, a0), ("call", 2, a0),
                       ("call", 0, a0), ("set", 0, p1), ("call", 1, a0)]][it % 3]
        for k in range(len(script) if script else rng.randint(3, 8)):
            kind = rng.choice(["new", "set", "call", "call", "call", "copy"]) if objs else "new"
            if script:
                st = script[k]
                kind = st[0]
                if kind == "new":
                    objs.append(fam.new(st[1]))
                    ops.append(f"New nat {st[1]}")
                elif kind == "set":
                    fam.set(objs[st[1]], st[2])
                    ops.append(f"Set_ nat {st[1]} {st[2]}")
                elif kind == "call":
                    got.append((len(ops), fam.call(objs[st[1]], st[2])))
                    ops.append(f"Call nat {st[1]} {st[2]}")
                else:
                    objs.append(fam.copy(objs[st[1]], st[2] if len(st) > 2 else k % 2))
                    ops.append(f"Copy nat {st[1]}")
                continue
            if kind == "new":
                p = rng.randint(1, fam.nversions())
                objs.append(fam.new(p))
                ops.append(f"New nat {p}")
            elif kind == "set":
                cand = [j for j, o_ in enumerate(objs) if not isinstance(o_, BathBox)]
                i, p = rng.choice(cand), rng.randint(1, fam.nversions())
                fam.set(objs[i], p)
                ops.append(f"Set_ nat {i} {p}")
            elif kind == "call":
                i, a = rng.randrange(len(objs)), rng.randint(0, 3)
                got.append((len(ops), fam.call(objs[i], a)))
                ops.append(f"Call nat {i} {a}")
            else:
                i = rng.randrange(len(objs))
                objs.append(fam.copy(objs[i], rng.randint(0, 2)))
                ops.append(f"Copy nat {i}")
        exp = [0] * len(ops)
        for pos, v in got:
            exp[pos] = v
        exprs.append("answers " + coq_list(ops))
        expected.append(exp)
        info = {"family": fam.name, "ops": ops}
        meta.append(info)
        chk.count(fam.name)
        chk.case(info, (fam.name, tuple(ops)))

    # ---- (b) caller's arrays are never modified; results do not depend on memory layout ------
    corr = oqupy.PowerLawSD(alpha=0.1, zeta=1, cutoff=3.0, cutoff_type="exponential")
    par = oqupy.TempoParameters(dt=0.1, epsrel=1e-7, dkmax=3)
    SY = oqupy.operators.sigma("y")
    H = 0.5 * SX + 0.2 * SZ + 0.3 * SY          # Hermitian but not symmetric: a transposition is never invisible
    O = 0.5 * SZ + 0.1 * SX + 0.2 * SY
    rho = np.array([[0.7, 0.2 - 0.1j], [0.2 + 0.1j, 0.3]])

    def entry_points():
        def tempo(h, o, r):
            t = oqupy.Tempo(oqupy.System(h), oqupy.Bath(o, corr), par, r, 0.0)
            return np.array(t.compute(0.3, progress_type="silent").states)
        yield "Tempo", tempo, (H, O, rho)

        def pt_dyn(h, o, r):
            pt = oqupy.pt_tempo_compute(oqupy.Bath(o, corr), 0.0, 0.3, parameters=par, progress_type="silent")
            return np.array(oqupy.compute_dynamics(oqupy.System(h), initial_state=r, process_tensor=pt, progress_type="silent").states)
        yield "PtTempo+compute_dynamics", pt_dyn, (H, O, rho)

        def ctrl(c, r, h):
            ct = oqupy.Control(2)
            ct.add_single(1, c)
            return np.array(oqupy.compute_dynamics(oqupy.System(h), initial_state=r, dt=0.1, num_steps=2, control=ct, progress_type="silent").states)
        yield "Control+compute_dynamics", ctrl, (np.kron(H, np.eye(2)) + 0.3j * np.kron(np.eye(2), O), rho, H)

        def mps(r, r2, h):
            chain = oqupy.SystemChain([2, 2])
            chain.add_site_hamiltonian(0, h)
            chain.add_nn_hamiltonian(0, h, h)
            p = oqupy.PtTebd(oqupy.AugmentedMPS([r, r2]), chain, [None, None], oqupy.PtTebdParameters(dt=0.1, order=2, epsrel=1e-8),
                             dynamics_sites=[0, 1])
            res = p.compute(2, progress_type="silent")
            return np.array(res["dynamics"][0].states + res["dynamics"][1].states)
        yield "AugmentedMPS+PtTebd", mps, (rho, rho.conj(), H)

        def mftempo(r, h, o):
            sf = oqupy.TimeDependentSystemWithField(lambda t, f: h + 0.1 * f.real * SZ)
            mfs = oqupy.MeanFieldSystem([sf], field_eom=lambda t, st, f: -0.1 * f + 0.1 * np.trace(st[0] @ SZ))
            d_ = oqupy.MeanFieldTempo(mfs, [oqupy.Bath(o, corr)], par, [r], 0.3 + 0j, 0.0).compute(0.3, progress_type="silent")
            return np.append(np.array(d_.system_dynamics[0].states).reshape(-1), d_.fields)
        yield "MeanFieldTempo", mftempo, (rho, H, O)

        def mfdyn(r, h):
            sf = oqupy.TimeDependentSystemWithField(lambda t, f: h + 0.1 * f.real * SZ)
            mfs = oqupy.MeanFieldSystem([sf], field_eom=lambda t, st, f: -0.1 * f + 0.1 * np.trace(st[0] @ SZ))
            d_ = oqupy.compute_dynamics_with_field(mfs, 0.3 + 0j, dt=0.1, num_steps=3, initial_state_list=[r], progress_type="silent")
            return np.append(np.array(d_.system_dynamics[0].states).reshape(-1), d_.fields)
        yield "compute_dynamics_with_field", mfdyn, (rho, H)

        def gibbs(h):
            g_ = oqupy.GibbsTempo(oqupy.System(h), oqupy.Bath(np.diag([1.0, -0.5]), oqupy.PowerLawSD(alpha=0.1, zeta=1, cutoff=3.0, cutoff_type="exponential", temperature=0.7)),
                                  oqupy.GibbsParameters(n_steps=4, epsrel=1e-8))
            g_.compute(progress_type="silent")
            return np.array(g_.get_state())
        yield "GibbsTempo", gibbs, (H,)

        def corr2(a, b, r):
            pt = oqupy.process_tensor.SimpleProcessTensor(2, dt=0.1)
            for k in range(2):
                pt.set_mpo_tensor(k, np.ones((1, 1, 4), dtype=complex))
            for k in range(3):
                pt.set_cap_tensor(k, np.ones(1, dtype=complex))
            return oqupy.compute_correlations(oqupy.System(H), pt, a, b, 0, slice(None), initial_state=r, progress_type="silent")[1]
        yield "compute_correlations", corr2, (H, O, rho)

        def grad(r, target, params2d):
            pt = oqupy.process_tensor.SimpleProcessTensor(2, dt=0.1)
            for k in range(2):
                pt.set_mpo_tensor(k, np.ones((1, 1, 4), dtype=complex))
            for k in range(3):
                pt.set_cap_tensor(k, np.ones(1, dtype=complex))
            s = oqupy.ParameterizedSystem(lambda x, y: x * SX + y * SZ)
            res = oqupy.state_gradient(system=s, initial_state=r, target_derivative=target, process_tensors=[pt],
                                       parameters=np.real(params2d), progress_type="silent")
            return np.array(res["gradient"])
        def bathcorr(table, r, h):
            # the caller's table of system correlations (with NaN markers for entries outside the time ordering)
            from oqupy.bath_dynamics import TwoTimeBathCorrelations
            pt = oqupy.process_tensor.SimpleProcessTensor(2, dt=0.1)
            for k in range(4):
                pt.set_mpo_tensor(k, np.ones((1, 1, 4), dtype=complex))
            for k in range(5):
                pt.set_cap_tensor(k, np.ones(1, dtype=complex))
            cc = oqupy.PowerLawSD(alpha=0.1, zeta=1, cutoff=3.0, cutoff_type="exponential", temperature=0.3)
            tb = TwoTimeBathCorrelations(oqupy.System(h), oqupy.Bath(SZ, cc), pt, initial_state=r, system_correlations=table)
            occ = tb.occupation(1.3, progress_type="silent")[1]
            c1 = tb.correlation(1.3, 0.2, 2.1, 0.4, dagg=(1, 0), progress_type="silent")
            return np.append(np.array(occ, dtype=complex), c1)
        tab = np.array([[1 + 0.1j * (i - j) if j >= i else np.nan + 1j * np.nan for j in range(4)] for i in range(4)], dtype=complex)
        yield "TwoTimeBathCorrelations", bathcorr, (tab, rho, H)

        def guess_td(h_on, h_off, h_lind):
            # a time-dependent system whose callables hand out STORED arrays (a pulse table), given to the parameter guess
            import warnings as _w2
            sysm = oqupy.TimeDependentSystem(lambda t: h_on if 0.2 < t < 0.7 else h_off, gammas=[lambda t: 0.3], lindblad_operators=[lambda t: h_lind])
            with _w2.catch_warnings():
                _w2.simplefilter("ignore")
                g_ = oqupy.guess_tempo_parameters(oqupy.Bath(O, corr), 0.0, 1.0, sysm, 0.05)
                g2_ = oqupy.guess_tempo_parameters(oqupy.Bath(O, corr), 0.0, 1.0, sysm, 0.05)
            return np.array([g_.dt, float(g_.dkmax), g_.epsrel, g2_.dt, float(g2_.dkmax), g2_.epsrel], dtype=complex)
        yield "guess_tempo_parameters(TimeDependentSystem)", guess_td, (2.0 * H + 1.5 * SX, 0.5 * H, oqupy.operators.sigma("-") + 0.2j * SZ)

        # a target that is not symmetric (its transpose is a different matrix)
        yield "state_gradient", grad, (rho, rho.T.copy() + 0.3j * SX @ SZ, np.array([[0.1, 0.2], [0.3, 0.4], [0.5, 0.6], [0.7, 0.8]], dtype=complex))

    for name, fn, args in entry_points():
        base = quiet(fn, *[np.array(a).copy() for a in args])
        variants = ["f", "t", "strided", "readonly"] if thorough else [rng.choice(["f", "t"]), rng.choice(["strided", "readonly"])]
        for lay in variants:
            for pos in range(len(args)):
                arrs = [np.array(a).copy() for a in args]
                if name == "state_gradient" and pos == 2:
                    v = np.real(layouts(args[2])[lay])
                    if lay == "readonly":
                        v.setflags(write=False)
                    arrs[pos] = v
                else:
                    arrs[pos] = layouts(args[pos])[lay]
                before = [np.array(a).copy() for a in arrs]
                info = {"entry": name, "argument": pos, "layout": lay}
                chk.search_cases += 1
                chk.count("layout_" + lay)
                chk.case(info, ("layout", name, pos, lay))
                try:
                    res = quiet(fn, *arrs)
                except Exception as ex:
                    chk.fail("layout-rejected", f"{name}: argument {pos} passed as a '{lay}' array is rejected: {ex!r}", info)
                    continue
                if any(not np.array_equal(a, b, equal_nan=True) for a, b in zip(arrs, before)):
                    chk.fail("input-mutated", f"{name}: the caller's array (argument {pos}, layout '{lay}') was modified", info)
                if res.shape != base.shape or not np.allclose(res, base, rtol=0, atol=1e-9, equal_nan=True):
                    chk.fail("layout-dependent", f"{name}: result depends on the memory layout of argument {pos} ('{lay}')", info)

    # ---- (b2) objects keep their own values: the caller overwrites its arrays AFTER handing them to a constructor /
    # an add_* method and BEFORE the computation; the result must be that of the values at the time of the call ------
    def holders():
        from oqupy.bath_dynamics import TwoTimeBathCorrelations
        bath0 = oqupy.Bath(O, corr)

        def mk_chain(h, a, b, l):
            chain = oqupy.SystemChain([2, 2])
            chain.add_site_hamiltonian(0, h)
            chain.add_nn_hamiltonian(0, a, b)
            chain.add_site_dissipation(1, l, 0.2)
            return chain

        def tebd(mps, chain, cc=None):
            p = oqupy.PtTebd(mps, chain, [None, None], oqupy.PtTebdParameters(dt=0.1, order=2, epsrel=1e-8), dynamics_sites=[0, 1], chain_control=cc)
            res = p.compute(2, progress_type="silent")
            return np.array(res["dynamics"][0].states + res["dynamics"][1].states)
        yield "System", [H, SX + 0j], lambda a: oqupy.System(a[0], gammas=[0.1], lindblad_operators=[a[1]]), \
            lambda ob: np.array(oqupy.compute_dynamics(ob, initial_state=rho, dt=0.1, num_steps=3, progress_type="silent").states)
        yield "Bath", [O], lambda a: oqupy.Bath(a[0], corr), \
            lambda ob: np.array(oqupy.Tempo(oqupy.System(H), ob, par, rho, 0.0).compute(0.3, progress_type="silent").states)
        yield "Tempo(initial_state)", [rho], lambda a: oqupy.Tempo(oqupy.System(H), bath0, par, a[0], 0.0), \
            lambda ob: np.array(ob.compute(0.3, progress_type="silent").states)

        def mk_mf(a):
            sf = oqupy.TimeDependentSystemWithField(lambda t, f: H + 0.1 * f.real * SZ)
            mfs = oqupy.MeanFieldSystem([sf], field_eom=lambda t, st, f: -0.1 * f + 0.1 * np.trace(st[0] @ SZ))
            return oqupy.MeanFieldTempo(mfs, [bath0], par, [a[0]], 0.3 + 0j, 0.0)
        yield "MeanFieldTempo(initial_state_list)", [rho], mk_mf, lambda ob: np.array(ob.compute(0.3, progress_type="silent").system_dynamics[0].states)

        def mk_ctrl(a):
            c = oqupy.Control(2)
            c.add_single(1, a[0])
            c.add_single(0.2, a[1], True)
            return c
        yield "Control.add_single", [np.kron(SX, SX) + 0j, np.kron(SY, SY.conj()) + 0j], mk_ctrl, \
            lambda ob: np.array(oqupy.compute_dynamics(oqupy.System(H), initial_state=rho, dt=0.1, num_steps=3, control=ob, progress_type="silent").states)

        def mk_ctrl_t(a):
            # several pre-measurement controls on one step: a time-stamped one with an integer-step one (step 1), two time-stamped ones (step 2)
            c = oqupy.Control(2)
            c.add_single(0.1, a[0])
            c.add_single(1, a[1])
            c.add_single(0.22, a[1])
            c.add_single(0.18, a[0])
            return c
        yield "Control.add_single(time-stamped, sharing a step)", [np.kron(SX, SX) + 0j, 0.8 * np.kron(SY, SY.conj()) + 0.2 * np.eye(4)], mk_ctrl_t, \
            lambda ob: np.array(oqupy.compute_dynamics(oqupy.System(H), initial_state=rho, dt=0.1, num_steps=3, control=ob, progress_type="silent").states)
        yield "AugmentedMPS(matrices)", [rho, rho.conj()], lambda a: oqupy.AugmentedMPS([a[0], a[1]]), lambda ob: tebd(ob, mk_chain(H, SX, SZ, SX))
        yield "AugmentedMPS(rank-3 gammas)", [rho.reshape(1, 4, 1), rho.conj().reshape(1, 4, 1)], lambda a: oqupy.AugmentedMPS([a[0], a[1]]), \
            lambda ob: tebd(ob, mk_chain(H, SX, SZ, SX))
        yield "SystemChain.add_*", [H, SX + 0j, SZ + 0j, SX + 0j], lambda a: mk_chain(*a), lambda ob: tebd(oqupy.AugmentedMPS([rho, rho.conj()]), ob)

        def mk_cc(a):
            cc = oqupy.ChainControl([2, 2])
            cc.add_single_site_control(a[0], 0, 1)
            return cc
        yield "ChainControl.add_single_site_control", [np.kron(SX, SX) + 0j], mk_cc, \
            lambda ob: tebd(oqupy.AugmentedMPS([rho, rho.conj()]), mk_chain(H, SX, SZ, SX), ob)

        def mk_spt(a):
            pt = oqupy.process_tensor.SimpleProcessTensor(2, dt=0.1, transform_in=a[2], transform_out=a[3])
            for k in range(2):
                pt.set_mpo_tensor(k, a[0])
                pt.set_cap_tensor(k, a[1])
            pt.set_cap_tensor(2, a[1])
            return pt
        yield "SimpleProcessTensor(transforms).set_*", [(np.arange(16).reshape(1, 1, 4, 4) * 0.01 + np.eye(4)).astype(complex), np.array([1.0 + 0j]),
                                                       np.eye(4) + 0.1j * np.arange(16).reshape(4, 4), np.eye(4) - 0.05 * np.arange(16).reshape(4, 4) + 0j], mk_spt, \
            lambda ob: np.array(oqupy.compute_dynamics(oqupy.System(H), initial_state=rho, process_tensor=ob, progress_type="silent").states)
        ptb = oqupy.pt_tempo_compute(oqupy.Bath(SZ, corr), 0.0, 0.4, parameters=par, progress_type="silent")
        tab = np.array([[1 + 0.1j * (i - j) if j >= i else np.nan + 1j * np.nan for j in range(4)] for i in range(4)], dtype=complex)
        yield "TwoTimeBathCorrelations(initial_state)", [rho], lambda a: TwoTimeBathCorrelations(oqupy.System(H), oqupy.Bath(SZ, corr), ptb, initial_state=a[0]), \
            lambda ob: np.array(ob.occupation(1.0, progress_type="silent")[1])
        yield "TwoTimeBathCorrelations(system_correlations)", [tab], \
            lambda a: TwoTimeBathCorrelations(oqupy.System(H), oqupy.Bath(SZ, corr), ptb, initial_state=rho, system_correlations=a[0]), \
            lambda ob: np.array(ob.occupation(1.0, progress_type="silent")[1])

    for name, arrays, make, use in holders():
        info = {"holder": name}
        chk.search_cases += 1
        chk.count("holder_keeps_own_values")
        chk.case(info, ("holder", name))
        try:
            base = quiet(use, quiet(make, [np.array(a, dtype=complex).copy() for a in arrays]))
            mine = [np.ascontiguousarray(np.array(a, dtype=complex)) for a in arrays]       # complex128, C-contiguous: what asarray would not copy
            obj = quiet(make, mine)
            for a in mine:
                a[...] = 1.7 - 0.4j
            got = quiet(use, obj)
        except Exception as ex:
            chk.fail("holder-raises", f"{name}: raises {ex!r}", info)
            continue
        if got.shape != base.shape or not np.allclose(got, base, rtol=0, atol=1e-9, equal_nan=True):
            chk.fail("aliases-caller-array:" + name, f"{name}: overwriting the caller's array after it was handed over changes the later result "
                     f"(by {np.nanmax(np.abs(got - base)):.2e}): the object aliases the caller's buffer", info)

    # ---- (b3) the same as operation sequences against Model/Holder.v (theorem holders_snapshot): the caller allocates
    # arrays (version p = the base arrays scaled by 1 + (p-1)/4), overwrites them in place, builds objects and computes;
    # the version a result was computed from is looked up among the results of fresh objects ------------------------------
    scale = lambda arrs, p_: [np.ascontiguousarray(np.array(a, dtype=complex) * (1 + 0.25 * (p_ - 1))) for a in arrs]
    for hi, (name, arrays, make, use) in enumerate(holders()):
        try:
            ref = {p_: quiet(use, quiet(make, scale(arrays, p_))) for p_ in (1, 2, 3)}
        except Exception as ex:
            chk.fail("holder-raises", f"{name}: raises {ex!r}", {"holder": name})
            continue
        if any(np.allclose(ref[a_], ref[b_], rtol=0, atol=1e-7, equal_nan=True) for a_, b_ in ((1, 2), (1, 3), (2, 3))):
            chk.disagree("holder harness", f"{name}: versions not distinguishable")
            continue
        for rep_ in range(3 if thorough else 2):
            mem, objs_, ops, got = [], [], [], []
            p0 = rng.randint(1, 3)
            p1 = rng.choice([q for q in (1, 2, 3) if q != p0])
            script = [("Alloc", p0), ("Build", 0), ("Write", 0, p1), ("Compute", 0), ("Build", 0), ("Compute", 1), ("Compute", 0)] if rep_ == 0 else None
            for k in range(len(script) if script else rng.randint(4, 8)):
                if script:
                    st_ = script[k]
                else:
                    kind = rng.choice(["Alloc", "Write", "Build", "Build", "Compute", "Compute"]) if mem else "Alloc"
                    if kind == "Compute" and not objs_:
                        kind = "Build"
                    st_ = {"Alloc": lambda: ("Alloc", rng.randint(1, 3)), "Write": lambda: ("Write", rng.randrange(len(mem)), rng.randint(1, 3)),
                           "Build": lambda: ("Build", rng.randrange(len(mem))), "Compute": lambda: ("Compute", rng.randrange(len(objs_)))}[kind]()
                try:
                    if st_[0] == "Alloc":
                        mem.append(scale(arrays, st_[1]))
                    elif st_[0] == "Write":
                        for x, y in zip(mem[st_[1]], scale(arrays, st_[2])):
                            x[...] = y
                    elif st_[0] == "Build":
                        objs_.append(quiet(make, mem[st_[1]]))
                    else:
                        r = quiet(use, objs_[st_[1]])
                        hits = [q for q in (1, 2, 3) if r.shape == ref[q].shape and np.allclose(r, ref[q], rtol=0, atol=1e-9, equal_nan=True)]
                        got.append((len(ops), hits[0] if len(hits) == 1 else -1))
                except Exception as ex:
                    chk.fail("holder-raises", f"{name}: {st_} raises {ex!r}", {"holder": name, "ops": ops})
                    break
                ops.append(f"{st_[0]} nat " + " ".join(str(x) for x in st_[1:]))
            exp = [0] * len(ops)
            for pos, v in got:
                exp[pos] = v
            exprs.append("holder_answers " + coq_list(ops))
            expected.append(exp)
            info = {"family": "holder:" + name, "ops": ops}
            meta.append(info)
            chk.count("holder_sequences")
            chk.case(info, ("holder-seq", name, tuple(ops)))

    # ---- (b4) objects extended after they have been used: a later computation sees the additions (nothing derived from
    # the earlier contents is kept) ---------------------------------------------------------------------------------------
    for name in ("Control", "ChainControl", "SystemChain"):
        info = {"extended_after_use": name}
        chk.search_cases += 1
        chk.count("extended_after_use")
        chk.case(info, ("extended", name))
        K1, K2 = np.kron(SX, SX.conj()) + 0j, np.kron(SY, SY.conj()) + 0j
        try:
            if name == "Control":
                def use(c_):
                    return np.array(oqupy.compute_dynamics(oqupy.System(H), initial_state=rho, dt=0.1, num_steps=3, control=c_, progress_type="silent").states)

                def build(full):
                    c_ = oqupy.Control(2)
                    c_.add_single(1, K1)
                    if full:
                        c_.add_single(1, K2)
                        c_.add_single(0.2, K2, True)
                    return c_
                shared = build(False)
                first = use(shared)
                shared.add_single(1, K2)
                shared.add_single(0.2, K2, True)
            else:
                def use(obj_):
                    chain_, cc_ = obj_
                    p_ = oqupy.PtTebd(oqupy.AugmentedMPS([rho, rho.conj()]), chain_, [None, None], oqupy.PtTebdParameters(dt=0.1, order=2, epsrel=1e-8),
                                      dynamics_sites=[0, 1], chain_control=cc_)
                    r_ = p_.compute(2, progress_type="silent")
                    return np.array(r_["dynamics"][0].states + r_["dynamics"][1].states)

                def build(full):
                    chain_ = oqupy.SystemChain([2, 2])
                    chain_.add_site_hamiltonian(0, H)
                    chain_.add_nn_hamiltonian(0, SX, SZ)
                    cc_ = oqupy.ChainControl([2, 2])
                    cc_.add_single_site_control(K1, 0, 1)
                    if full and name == "ChainControl":
                        cc_.add_single_site_control(K2, 1, 1)
                        cc_.add_single_site_control(K2, 0, 1, True)
                    if full and name == "SystemChain":
                        chain_.add_site_hamiltonian(1, O)
                        chain_.add_nn_hamiltonian(0, SY, SX)
                        chain_.add_site_dissipation(0, SX + 1j * SY, 0.3)
                    return chain_, cc_
                shared = build(False)
                first = use(shared)
                if name == "ChainControl":
                    shared[1].add_single_site_control(K2, 1, 1)
                    shared[1].add_single_site_control(K2, 0, 1, True)
                else:
                    shared[0].add_site_hamiltonian(1, O)
                    shared[0].add_nn_hamiltonian(0, SY, SX)
                    shared[0].add_site_dissipation(0, SX + 1j * SY, 0.3)
            second = quiet(use, shared)
            want1, want2 = quiet(use, build(False)), quiet(use, build(True))
        except Exception as ex:
            chk.fail("extended-raises", f"{name}: raises {ex!r}", info)
            continue
        if not np.allclose(first, want1, rtol=0, atol=1e-9) or not np.allclose(second, want2, rtol=0, atol=1e-9):
            chk.fail("stale-after-extension:" + name, f"{name}: used in a computation, then extended through its add_* methods: the next computation differs from the one "
                     f"with a freshly built equal object by {np.abs(second - want2).max():.2e}", info)

    # ---- (b4'') a ChainControl holding several operations for one site at one step (before and after the measurement), used in
    # two computations and asked directly twice: composing the operations of a step must not write into the stored ones ----------
    for variant in ("pre", "post", "both"):
        info = {"reused": "ChainControl", "same_site_same_step": variant}
        chk.search_cases += 1
        chk.count("reused_chain_control")
        chk.case(info, ("reused-cc", variant))
        K1, K2 = np.kron(SX, SX.conj()) + 0j, np.kron(SY, SY.conj()) + 0j
        K3 = np.kron(O, np.eye(2)) * 0.3 + np.eye(4)

        def build_cc():
            cc_ = oqupy.ChainControl([2, 2])
            if variant in ("pre", "both"):
                cc_.add_single_site_control(K1.copy(), 0, 1)
                cc_.add_single_site_control(K3.copy(), 0, 1)
                cc_.add_single_site_control(K2.copy(), 0, 1)
            if variant in ("post", "both"):
                cc_.add_single_site_control(K3.copy(), 1, 1, True)
                cc_.add_single_site_control(K1.copy(), 1, 1, True)
            cc_.add_single_site_control(K2.copy(), 1, 0)
            return cc_

        def use_cc(cc_):
            chain_ = oqupy.SystemChain([2, 2])
            chain_.add_site_hamiltonian(0, H)
            chain_.add_nn_hamiltonian(0, SX, SZ)
            p_ = oqupy.PtTebd(oqupy.AugmentedMPS([rho, rho.conj()]), chain_, [None, None], oqupy.PtTebdParameters(dt=0.1, order=2, epsrel=1e-8),
                              dynamics_sites=[0, 1], chain_control=cc_)
            r_ = p_.compute(3, progress_type="silent")
            return np.array(r_["dynamics"][0].states + r_["dynamics"][1].states)

        def ask(cc_):
            out = []
            for st_ in (0, 1):
                for post_ in (False, True):
                    g_ = cc_.get_single_site_controls(st_, post_)
                    out.append(None if g_ is None else [None if x_ is None else np.array(x_, dtype=complex) for x_ in g_])
            return out

        def same(a_, b_):
            if (a_ is None) != (b_ is None):
                return False
            if a_ is None:
                return True
            if isinstance(a_, list):
                return len(a_) == len(b_) and all(same(x_, y_) for x_, y_ in zip(a_, b_))
            return np.allclose(a_, b_, rtol=0, atol=1e-12)
        try:
            shared = build_cc()
            q1 = ask(shared)
            first = quiet(use_cc, shared)
            q2 = ask(shared)
            second = quiet(use_cc, shared)
            q3 = ask(shared)
            fresh = quiet(use_cc, build_cc())
            qf = ask(build_cc())
        except Exception as ex:
            chk.fail("reuse-raises", f"ChainControl used twice: raises {ex!r}", info)
            continue
        if not (same(q1, qf) and same(q2, qf) and same(q3, qf)):
            chk.fail("reuse-differs:ChainControl", "ChainControl.get_single_site_controls: the same question gives a different answer after the object has been asked / "
                     "used in a computation (a freshly built equal object gives the first answer)", info)
        elif not np.allclose(first, fresh, rtol=0, atol=1e-9) or not np.allclose(second, fresh, rtol=0, atol=1e-9):
            chk.fail("reuse-differs:ChainControl", f"a ChainControl used in a second PT-TEBD computation: the result differs from the first one / from the one with a freshly "
                     f"built equal object by {max(np.abs(first - fresh).max(), np.abs(second - fresh).max()):.2e}", info)

    # ---- (b4c) the same question tied to the model (Model/Holder.v q_pure / ask): one-dimensional sites, so that an operation is an
    # integer and the product of the stored operations is read off exactly; three questions in a row to ChainControl and Control ----
    for i in range(12 if thorough else 6):
        ks = [rng.randint(2, 7) for _ in range(rng.randint(1, 4))]
        which = ("ChainControl", "Control-step", "Control-time")[i % 3]
        info = {"family": "stored-product:" + which, "ops": ks}
        chk.search_cases += 1
        chk.count("stored_product")
        chk.case(info, ("stored-product", which, tuple(ks)))
        try:
            if which == "ChainControl":
                obj = oqupy.ChainControl([1, 1])
                for k_ in ks:
                    obj.add_single_site_control(np.array([[k_]], dtype=complex), 0, 1)

                def q_():
                    g_ = obj.get_single_site_controls(1, False)
                    return int(round(g_[0][0, 0].real))
            else:
                obj = oqupy.Control(1)
                for j_, k_ in enumerate(ks):
                    obj.add_single(1 if which == "Control-step" else 0.1, np.array([[k_]], dtype=complex))

                def q_():
                    return int(round(quiet(obj.get_controls, 1, dt=0.1, start_time=0.0)[0][0, 0].real))
            got = [q_(), q_(), q_()]
        except Exception as ex:
            chk.fail("reuse-raises", f"{which}: asked three times for the product of the stored operations {ks}: raises {ex!r}", info)
            continue
        exprs.append(f"let r := ask nat (q_pure nat Nat.mul) 3 {coq_list([str(k_) for k_ in ks])} in map (fun o => match o with Some v => v | None => 0 end) (fst r)")
        expected.append(got)
        meta.append(info)

    # ---- (b4') a SystemChain extended after use through EACH of its six add_* methods, one at a time (a term added by one method
    # must not depend on another method being called as well) ----------------------------------------------------------------
    Lsite = -1j * (np.kron(O, np.eye(2)) - np.kron(np.eye(2), O.T))
    Lnn = -1j * (np.kron(np.kron(SX, SZ), np.eye(4)) - np.kron(np.eye(4), np.kron(SX, SZ).T))
    # library layout of two-site superoperators: site-major Liouville indices
    Lnn = Lnn.reshape(2, 2, 2, 2, 2, 2, 2, 2).transpose(0, 2, 1, 3, 4, 6, 5, 7).reshape(16, 16)
    MUT = {"add_site_hamiltonian": lambda c_: c_.add_site_hamiltonian(1, O), "add_site_liouvillian": lambda c_: c_.add_site_liouvillian(1, Lsite),
           "add_site_dissipation": lambda c_: c_.add_site_dissipation(0, SX + 1j * SY, 0.3), "add_nn_hamiltonian": lambda c_: c_.add_nn_hamiltonian(0, SY, SX),
           "add_nn_liouvillian": lambda c_: c_.add_nn_liouvillian(0, Lnn), "add_nn_dissipation": lambda c_: c_.add_nn_dissipation(0, SX + 1j * SY, SZ, 0.4)}
    for name, mut in MUT.items():
        info = {"extended_after_use": "SystemChain." + name}
        chk.search_cases += 1
        chk.count("extended_after_use")
        chk.case(info, ("extended-chain", name))

        def use_c(chain_):
            p_ = oqupy.PtTebd(oqupy.AugmentedMPS([rho, rho.conj()]), chain_, [None, None], oqupy.PtTebdParameters(dt=0.1, order=2, epsrel=1e-8), dynamics_sites=[0, 1, (0, 1)])
            r_ = p_.compute(2, progress_type="silent")
            return np.concatenate([np.array(r_["dynamics"][k_].states).reshape(-1) for k_ in (0, 1, (0, 1))])

        def build_c(full):
            chain_ = oqupy.SystemChain([2, 2])
            chain_.add_site_hamiltonian(0, H)
            chain_.add_nn_hamiltonian(0, SX, SZ)
            if full:
                mut(chain_)
            return chain_
        try:
            shared = build_c(False)
            first = quiet(use_c, shared)
            mut(shared)
            second = quiet(use_c, shared)
            want1, want2 = quiet(use_c, build_c(False)), quiet(use_c, build_c(True))
        except Exception as ex:
            chk.fail("extended-raises", f"SystemChain.{name}: raises {ex!r}", info)
            continue
        if np.allclose(want1, want2, rtol=0, atol=1e-6):
            chk.disagree("extension harness", f"SystemChain.{name}: the added term does not change the result")
        if not np.allclose(first, want1, rtol=0, atol=1e-9) or not np.allclose(second, want2, rtol=0, atol=1e-9):
            chk.fail("stale-after-extension:SystemChain", f"SystemChain used in a computation, then extended through {name} alone: the next computation differs from the one "
                     f"with a freshly built equal chain by {np.abs(second - want2).max():.2e}", info)

    # ---- (b5) a process tensor whose tensors are replaced (set_mpo_tensor / set_cap_tensor) after it has been read and used:
    # every later answer (accessors, dynamics) is that of a freshly built object holding the current tensors ----------------
    for rank in (3, 4):
        info = {"modified_after_use": "SimpleProcessTensor", "tensor_rank": rank}
        chk.search_cases += 1
        chk.count("modified_after_use")
        chk.case(info, ("modified", rank))
        g_ = np.random.default_rng(chk.seed + rank)
        shp = (lambda a, b: (a, b, 4)) if rank == 3 else (lambda a, b: (a, b, 4, 4))
        bonds = [1, 2, 2, 1]
        tens = [g_.normal(size=shp(bonds[k], bonds[k + 1])) + 1j * g_.normal(size=shp(bonds[k], bonds[k + 1])) for k in range(3)]
        repl = g_.normal(size=shp(2, 2)) + 1j * g_.normal(size=shp(2, 2))
        caps = [g_.normal(size=(bonds[k],)) + 0j for k in range(4)]

        def build(ts):
            p_ = oqupy.process_tensor.SimpleProcessTensor(2, dt=0.1)
            for k, t_ in enumerate(ts):
                p_.set_mpo_tensor(k, t_)
            for k, c_ in enumerate(caps):
                p_.set_cap_tensor(k, c_)
            return p_

        def use(p_):
            st_ = np.array(quiet(oqupy.compute_dynamics, oqupy.System(H), initial_state=rho, process_tensor=p_, progress_type="silent").states)
            return np.concatenate([st_.reshape(-1)] + [np.array(p_.get_mpo_tensor(k)).reshape(-1) for k in range(3)])
        try:
            shared = build(tens)
            first = use(shared)
            shared.set_mpo_tensor(1, repl)
            second = use(shared)
            want1, want2 = use(build(tens)), use(build([tens[0], repl, tens[2]]))
        except Exception as ex:
            chk.fail("extended-raises", f"SimpleProcessTensor modified after use raises {ex!r}", info)
            continue
        if not np.allclose(first, want1, rtol=0, atol=1e-9) or not np.allclose(second, want2, rtol=0, atol=1e-9):
            chk.fail("stale-after-extension:SimpleProcessTensor", f"SimpleProcessTensor (rank-{rank} tensors): read and used, then one tensor replaced through set_mpo_tensor: "
                     f"the next answers differ from those of a freshly built equal object by {np.abs(second - want2).max():.2e}", info)

    # ---- (b6) methods that take arguments, asked repeatedly on ONE object with one argument changed at a time (band widths, the
    # dagger pattern, flags, times, frequencies): every answer is that of a fresh object asked the same question --------------------
    from oqupy.bath_dynamics import TwoTimeBathCorrelations as _TTBC
    try:
        corr_b6 = oqupy.PowerLawSD(alpha=0.1, zeta=1, cutoff=3.0, cutoff_type="exponential", temperature=0.1)
        pt_b6 = quiet(oqupy.pt_tempo_compute, oqupy.Bath(SZ, corr_b6), 0.0, 0.4, parameters=par, progress_type="silent")
        mk_tb = lambda: _TTBC(oqupy.System(H), oqupy.Bath(SZ, corr_b6), pt_b6, initial_state=rho)
        base_q = dict(freq_1=1.0, time_1=0.3, freq_2=1.3, time_2=0.2, dw=(1.0, 1.0), dagg=(1, 0), interaction_picture=False, change_only=False)
        variants = [dict(dw=(0.5, 0.25)), dict(dw=(1.0, 0.5)), dict(dagg=(0, 1)), dict(dagg=(1, 1)), dict(interaction_picture=True), dict(change_only=True),
                    dict(time_2=0.3), dict(freq_2=0.7), dict()]
        head_, rest_ = variants[:3], variants[3:]
        rng.shuffle(rest_)
        variants = head_ + rest_             # the band widths and one dagger pattern in every run, the others sampled
        shared_tb = mk_tb()
        asked = [base_q] + [dict(base_q, **v_) for v_ in variants[:6 if not thorough else 9]] + [base_q]
        for q_ in asked:
            chk.search_cases += 1
            got_ = complex(quiet(shared_tb.correlation, progress_type="silent", **q_))
            want_ = complex(quiet(mk_tb().correlation, progress_type="silent", **q_))
            if abs(got_ - want_) > 1e-9 * max(1.0, abs(want_)):
                chk.fail("stale-answer:TwoTimeBathCorrelations.correlation", f"TwoTimeBathCorrelations.correlation asked {len(asked)} questions differing in one argument on one "
                         f"object: the answer to {q_} is {got_:.6g}, a fresh object says {want_:.6g}", {"kind": "argument-scan", "question": {k_: str(v_) for k_, v_ in q_.items()}})
                break
        occ_q = [dict(freq=1.0, dw=1.0), dict(freq=1.0, dw=0.5), dict(freq=1.3, dw=0.5), dict(freq=1.0, dw=1.0, change_only=True), dict(freq=1.0, dw=1.0)]
        for q_ in occ_q:
            chk.search_cases += 1
            got_ = np.array(quiet(shared_tb.occupation, progress_type="silent", **q_)[1])
            want_ = np.array(quiet(mk_tb().occupation, progress_type="silent", **q_)[1])
            if got_.shape != want_.shape or np.abs(got_ - want_).max() > 1e-9:
                chk.fail("stale-answer:TwoTimeBathCorrelations.occupation", f"TwoTimeBathCorrelations.occupation on an object already asked other questions: the answer to {q_} "
                         "differs from a fresh object's", {"kind": "argument-scan", "question": {k_: str(v_) for k_, v_ in q_.items()}})
                break
        chk.count("argument_scans")
    except Exception as ex:
        chk.fail("extended-raises", f"argument scan on TwoTimeBathCorrelations raises {ex!r}", {"kind": "argument-scan"})

    # ---- (c) re-using objects in several computations = fresh objects ------------------------
    for it in range(6 if thorough else 3):
        c1 = oqupy.PowerLawSD(alpha=0.1, zeta=1, cutoff=3.0, cutoff_type="exponential", temperature=0.1)
        b1 = oqupy.Bath(O, c1)
        s1 = oqupy.System(H)
        order = list(range(3))
        rng.shuffle(order)
        res = {}
        for job in order + order:
            if job == 0:
                r = np.array(oqupy.Tempo(s1, b1, par, rho, 0.0).compute(0.3, progress_type="silent").states)
            elif job == 1:
                pt = oqupy.pt_tempo_compute(b1, 0.0, 0.3, parameters=par, progress_type="silent")
                r = np.array(oqupy.compute_dynamics(s1, initial_state=rho, process_tensor=pt, progress_type="silent").states)
            else:
                r = np.array(oqupy.Tempo(s1, b1, oqupy.TempoParameters(dt=0.1, epsrel=1e-7, dkmax=1), rho, 0.0).compute(0.3, progress_type="silent").states)
            chk.search_cases += 1
            if job in res and not np.allclose(res[job], r, rtol=0, atol=1e-9):
                chk.fail("reuse-differs", f"re-using the same system/bath/parameter objects changes the result of job {job} (order {order})", {"order": order, "job": job})
            res[job] = r
        cf = oqupy.PowerLawSD(alpha=0.1, zeta=1, cutoff=3.0, cutoff_type="exponential", temperature=0.1)
        fresh = np.array(oqupy.Tempo(oqupy.System(H), oqupy.Bath(O, cf), par, rho, 0.0).compute(0.3, progress_type="silent").states)
        if not np.allclose(res[0], fresh, rtol=0, atol=1e-9):
            chk.fail("reuse-differs", "re-used objects give a result different from fresh equal objects", {"order": order})
        chk.count("reuse_rounds")

    # ---- (d) a pool of shared objects used by a random sequence of DIFFERENT jobs (start times, grids, entry points):
    # every job must give what it gives on freshly constructed equal objects ---------------------------------------------
    def mk_objs():
        cc = oqupy.PowerLawSD(alpha=0.1, zeta=1, cutoff=3.0, cutoff_type="exponential", temperature=0.1)
        bb = oqupy.Bath(O, cc)
        td = oqupy.TimeDependentSystem(lambda t: H + 0.4 * np.sin(1.3 * t) * SZ, gammas=[lambda t: 0.05 + 0.02 * t * t],
                                       lindblad_operators=[lambda t: oqupy.operators.sigma("-") + 0.1 * t * SZ])
        tdf = oqupy.TimeDependentSystemWithField(lambda t, a: H + 0.3 * np.cos(0.7 * t) * SZ + 0.1 * a.real * SX)
        mfs = oqupy.MeanFieldSystem([tdf], field_eom=lambda t, st, a: -0.1 * a + 0.05 * t + 0.1 * np.trace(st[0] @ SZ))
        ps = oqupy.ParameterizedSystem(lambda x, y: x * SX + y * SZ, gammas=[lambda x, y: 0.05 + 0.1 * y * y],
                                       lindblad_operators=[lambda x, y: oqupy.operators.sigma("-") + 0.2 * x * SZ])
        pt = oqupy.pt_tempo_compute(bb, 0.0, 0.3, parameters=par, progress_type="silent")
        # a chain whose first site has no single-site term, the second and third have; nearest-neighbour coupling
        ch = oqupy.SystemChain([2, 2, 2])
        ch.add_site_hamiltonian(1, 0.4 * SX)
        ch.add_site_dissipation(2, oqupy.operators.sigma("-"), gamma=0.3)
        ch.add_nn_hamiltonian(0, 0.5 * SZ, SZ)
        ch.add_nn_hamiltonian(1, 0.3 * SX, SX)
        # a time-independent system with Lindblad terms whose rates are not one
        sl = oqupy.System(H, gammas=[0.3, 2.5], lindblad_operators=[oqupy.operators.sigma("-"), 0.5 * SZ + 0.2 * SX])
        # imaginary-time objects: one GibbsParameters object for baths at two temperatures
        od = np.diag([1.0, -0.5]).astype(complex)
        gb = {k_: oqupy.Bath(od, oqupy.PowerLawSD(alpha=0.2, zeta=1, cutoff=3.0, cutoff_type="exponential", temperature=T_)) for k_, T_ in (("A", 0.5), ("B", 1.3))}
        return {"bath": bb, "td": td, "mfs": mfs, "ps": ps, "pt": pt, "sys": oqupy.System(H), "par": par,
                "par2": oqupy.TempoParameters(dt=0.05, epsrel=1e-7, dkmax=2), "chain": ch, "sysL": sl,
                "gpar": oqupy.GibbsParameters(n_steps=5, epsrel=1e-9), "gbath": gb,
                "par_full": oqupy.TempoParameters(dt=0.1, epsrel=1e-7, dkmax=None),
                "mps": oqupy.AugmentedMPS([rho, rho.conj(), rho]), "tpar": oqupy.PtTebdParameters(dt=0.1, order=2, epsrel=1e-9)}

    def fingerprint(ob):
        """the values a caller can read off the shared parameter objects (they must never change through library calls)"""
        out = [np.array(x) for x in ob["chain"].nn_liouvillians] + [np.array(x) for x in ob["chain"].site_liouvillians]
        for k_ in ("sys", "sysL"):
            out += [np.array(ob[k_].hamiltonian)] + [np.array(x) for x in ob[k_].lindblad_operators] + [np.array(ob[k_].gammas, dtype=complex)]
        out += [np.array([ob["par"].dt, ob["par"].epsrel, ob["par2"].dt, ob["par2"].epsrel]), np.array(ob["bath"].coupling_operator), np.array(ob["bath"].unitary_transform)]
        out += [np.array([ob["gpar"].n_steps, ob["gpar"].epsrel, ob["tpar"].dt, ob["tpar"].epsrel, ob["tpar"].order])]
        # every field of the TEMPO parameter objects (None -> -1)
        nz = lambda v_: -1.0 if v_ is None else float(v_)
        for k_ in ("par", "par2", "par_full"):
            out += [np.array([nz(ob[k_].dt), nz(ob[k_].epsrel), nz(ob[k_].dkmax), nz(ob[k_].add_correlation_time), nz(ob[k_].subdiv_limit),
                              nz(ob[k_].liouvillian_epsrel)])]
        out += [np.array(g_) for g_ in ob["mps"].gammas] + [np.array(l_) for l_ in ob["mps"].lambdas]
        return out

    def job_run(name, ob):
        st = lambda d: np.array(d.states).reshape(-1)
        if name.startswith("tempo@"):
            t0 = float(name[6:])
            return st(oqupy.Tempo(ob["td"], ob["bath"], ob["par"], rho, t0).compute(t0 + 0.3, progress_type="silent"))
        if name.startswith("tempo-dt2@"):
            t0 = float(name[10:])
            return st(oqupy.Tempo(ob["td"], ob["bath"], ob["par2"], rho, t0).compute(t0 + 0.2, progress_type="silent"))
        if name.startswith("dynamics@"):
            t0 = float(name[9:])
            return st(oqupy.compute_dynamics(ob["td"], initial_state=rho, process_tensor=ob["pt"], start_time=t0, progress_type="silent"))
        if name.startswith("dynamics-nosubdiv@"):
            t0 = float(name[18:])
            return st(oqupy.compute_dynamics(ob["td"], initial_state=rho, process_tensor=ob["pt"], start_time=t0, subdiv_limit=None, progress_type="silent"))
        if name.startswith("correlations@"):
            t0 = float(name[13:])
            return np.array(oqupy.compute_correlations(ob["td"], ob["pt"], SZ, SX, times_a=(t0, t0 + 0.3), times_b=t0 + 0.2, time_order="ordered",
                                                       initial_state=rho, start_time=t0, progress_type="silent")[1]).reshape(-1)
        if name.startswith("meanfield@"):
            t0 = float(name[10:])
            d = oqupy.MeanFieldTempo(ob["mfs"], [ob["bath"]], ob["par"], [rho], 0.2 + 0j, t0).compute(t0 + 0.3, progress_type="silent")
            return np.append(st(d.system_dynamics[0]), d.fields)
        if name.startswith("gradient#"):
            k = int(name[9:])
            table = np.array([[0.3 + 0.1 * j * (k + 1), 0.2 - 0.03 * j + 0.1 * k] for j in range(6)])
            g = oqupy.state_gradient(system=ob["ps"], initial_state=rho, target_derivative=SZ.T, process_tensors=[ob["pt"]], parameters=table, progress_type="silent")
            return np.append(np.array(g["gradient"]).reshape(-1), st(g["dynamics"]))
        if name.startswith("tebd#"):
            order = int(name[5:])
            tb = oqupy.PtTebd(oqupy.AugmentedMPS([rho, rho.conj(), rho]), ob["chain"], [None, None, None],
                              oqupy.PtTebdParameters(dt=0.1, order=order, epsrel=1e-9), dynamics_sites=[0, 1, 2])
            r = tb.compute(2, progress_type="silent")
            return np.concatenate([np.array(r["dynamics"][i].states).reshape(-1) for i in range(3)])
        if name.startswith("pt-full#") or name.startswith("tempo-full#"):
            # a parameter object without a memory cut-off, first used for a short process tensor, then for a longer TEMPO run
            n_ = int(name.split("#")[1])
            if name.startswith("pt-full#"):
                pt_ = oqupy.pt_tempo_compute(ob["bath"], 0.0, n_ * 0.1, parameters=ob["par_full"], progress_type="silent")
                return st(oqupy.compute_dynamics(ob["sys"], initial_state=rho, process_tensor=pt_, progress_type="silent"))
            return st(oqupy.Tempo(ob["sys"], ob["bath"], ob["par_full"], rho, 0.0).compute(n_ * 0.1, progress_type="silent"))
        if name.startswith("gibbs@"):
            return np.array(oqupy.gibbs_tempo_compute(ob["sys"], ob["gbath"][name[6:]], ob["gpar"], progress_type="silent")).reshape(-1)
        if name.startswith("meanfield-flip@") or name.startswith("field-dynamics"):
            # the same MeanFieldSystem object with another initial state (and through the other driver)
            r0_ = rho.conj() if "flip" in name else rho
            t0 = float(name.split("@")[1])
            if name.startswith("meanfield-flip@"):
                d = oqupy.MeanFieldTempo(ob["mfs"], [ob["bath"]], ob["par"], [r0_], 0.2 + 0j, t0).compute(t0 + 0.3, progress_type="silent")
            else:
                d = oqupy.compute_dynamics_with_field(ob["mfs"], 0.2 + 0j, dt=0.1, num_steps=3, start_time=t0, initial_state_list=[r0_], progress_type="silent")
            return np.append(st(d.system_dynamics[0]), d.fields)
        if name.startswith("tebd-mps#"):
            # one AugmentedMPS object and one PtTebdParameters object serve several PT-TEBD computations of different length
            tb = oqupy.PtTebd(ob["mps"], ob["chain"], [None, None, None], ob["tpar"], dynamics_sites=[0, 1, 2])
            r = tb.compute(int(name[9:]), progress_type="silent")
            return np.concatenate([np.array(r["dynamics"][i].states).reshape(-1) for i in range(3)])
        if name == "chain-generators":
            return np.concatenate([np.array(x).reshape(-1) for x in ob["chain"].get_nn_full_liouvillians()])
        if name == "tempo-plain":
            return st(oqupy.Tempo(ob["sys"], ob["bath"], ob["par"], rho, 0.0).compute(0.3, progress_type="silent"))
        if name == "guess":
            with warnings.catch_warnings():
                warnings.simplefilter("ignore")
                g_ = oqupy.guess_tempo_parameters(ob["bath"], 0.0, 0.5, ob["sysL"], 0.05)
            return np.array([g_.dt, float(g_.dkmax), g_.epsrel])
        if name == "tempo-guessed":
            with warnings.catch_warnings():
                warnings.simplefilter("ignore")
                return st(oqupy.tempo_compute(ob["sysL"], ob["bath"], rho, 0.0, 0.3, tolerance=0.05, progress_type="silent"))
        if name == "dynamics-lindblad":
            return st(oqupy.compute_dynamics(ob["sysL"], initial_state=rho, dt=0.1, num_steps=3, progress_type="silent"))
        raise KeyError(name)

    JOBS = ["tempo@0.0", "tempo@1.5", "tempo@-0.7", "tempo-dt2@0.0", "tempo-dt2@1.5", "dynamics@0.0", "dynamics@1.5", "dynamics@-0.7",
            "dynamics-nosubdiv@0.0", "dynamics-nosubdiv@1.5", "correlations@0.0", "correlations@1.5", "meanfield@0.0", "meanfield@0.4",
            "gradient#0", "gradient#1", "tempo-plain", "tebd#1", "tebd#2", "chain-generators", "guess", "tempo-guessed", "dynamics-lindblad",
            "gibbs@A", "gibbs@B", "meanfield-flip@0.0", "meanfield-flip@0.4", "field-dynamics@0.0", "field-dynamics-flip@0.0", "tebd-mps#1", "tebd-mps#3",
            "pt-full#3", "tempo-full#8", "pt-full#6"]
    fresh_results = {}
    for it in range(5 if thorough else 2):
        shared = quiet(mk_objs)
        seq = [rng.choice(JOBS) for _ in range(12 if thorough else 8)]
        # always include one pair that differs in the start time only
        fam = rng.choice(["tempo@", "dynamics@", "correlations@", "dynamics-nosubdiv@"])
        pair = [j for j in JOBS if j.startswith(fam)][:2]
        rng.shuffle(pair)
        seq = pair + rng.choice([["tebd#1", "tebd#1"], ["chain-generators", "tebd#2"], ["tebd#2", "chain-generators"]]) \
            + rng.choice([["guess", "dynamics-lindblad"], ["tempo-guessed", "guess", "dynamics-lindblad"]]) \
            + rng.choice([["gibbs@A", "gibbs@B"], ["gibbs@B", "gibbs@A"]]) \
            + rng.choice([["meanfield@0.0", "meanfield-flip@0.0"], ["field-dynamics@0.0", "field-dynamics-flip@0.0"], ["meanfield-flip@0.4", "meanfield@0.4"]]) \
            + rng.choice([["tebd-mps#1", "tebd-mps#3"], ["tebd-mps#3", "tebd-mps#1"]]) \
            + rng.choice([["pt-full#3", "tempo-full#8"], ["pt-full#3", "pt-full#6", "tempo-full#8"]]) + seq
        chain_snapshot = [x.copy() for x in fingerprint(shared)]
        for pos, name in enumerate(seq):
            info = {"kind": "shared-pool", "sequence": seq[:pos + 1], "job": name}
            try:
                got = quiet(job_run, name, shared)
                now = fingerprint(shared)
                if any(a_.shape != b_.shape or not np.array_equal(a_, b_) for a_, b_ in zip(chain_snapshot, now)):
                    chk.fail("input-mutated", f"job {name} modified a parameter object it was given (stored generators of the SystemChain, Hamiltonian / "
                             f"Lindblad operators / rates of a System, parameters, coupling operator: changed by "
                             f"{max(np.abs(a_ - b_).max() for a_, b_ in zip(chain_snapshot, now) if a_.shape == b_.shape and a_.size):.3g})", info)
                    chain_snapshot = [x.copy() for x in now]
                if name not in fresh_results:
                    fresh_results[name] = quiet(job_run, name, quiet(mk_objs))
            except Exception as ex:
                chk.fail("reuse-raises", f"job {name} raises {ex!r} on shared objects after {seq[:pos]}", info)
                continue
            chk.search_cases += 1
            chk.count("shared_pool_jobs")
            want = fresh_results[name]
            if got.shape != want.shape or not np.allclose(got, want, rtol=0, atol=1e-6, equal_nan=True):
                dev = np.abs(got - want).max() if got.shape == want.shape else float("nan")
                chk.fail("reuse-differs", f"job {name} on objects already used by {seq[:pos]} differs from the same job on fresh equal objects by {dev:.2e}", info)
        chk.case({"kind": "shared-pool", "sequence": seq}, ("pool", tuple(seq)))

    vals, errs = run_cases("C20", HEADER, exprs)
    for e in errs:
        chk.disagree("coq evaluation", e)
    for v, exp, m in zip(vals, expected, meta):
        got = ints(v)
        if got != exp:
            chk.disagree("cache/alias sequence", {"meta": m, "impl": exp, "model": got})
            if m["family"].startswith("stored-product"):
                chk.fail("reuse-differs:" + m["family"].split(":")[1],
                         f"{m['family']}: three questions in a row for the product of the stored operations {m['ops']} are answered {exp}; "
                         f"the model (q_pure: the object is left as it was) answers {got}", m)
                continue
            chk.fail("stale-or-aliased:" + m["family"],
                     f"{m['family']}: after the sequence {m['ops']} the answers come from parameter versions {exp}, "
                     f"the current parameters are {got} (0 = no call)", m)

    return chk.finish(
        level="proof",
        trusted=["model: Model/Cache.v (memo table + parameter store + copies)",
                 "the parameter version behind an answer is observed through linearity of the 2D integrals in the parameter"],
        rule="random sequences (3-8 ops) of new / set parameter / memoised call / copy (copy.copy or Bath(...).correlations) on PowerLawSD, CustomSD, "
             "CustomCorrelations; six public entry points called with Fortran-ordered, transposed, strided and read-only arrays (one argument "
             "at a time), byte-compared before/after; repeated and reordered computations on shared objects vs fresh ones; distinct = distinct sequence / (entry, argument, layout)",
        assumptions=["non-mutation of caller arrays and layout independence are outside the model: explored on the implementation only"])
