"""C04 — every reported state is a physical density matrix."""
import numpy as np
import oqupy
from oqupy import operators as opr

from harness.common import run_cases, ints, gflat, coq_list, zlit
from harness.impl import gint, quiet, mat_lit

HEADER = """From Coq Require Import ZArith List Bool.
From OQ Require Import Lib.RingSum Lib.Mat Model.SuperOps Model.Glue.
Import ListNotations. Open Scope Z_scope."""

KINDS = ["commutator", "acommutator", "left_super", "right_super", "left_right_super"]


def herm_int(rng, d):
    a = gint(rng, (d, d), -2, 2)
    return a + a.conj().T


def physical(rho, tol, need_psd):
    rho = np.array(rho)
    bad = []
    if abs(np.trace(rho) - 1) > tol:
        bad.append(f"trace {np.trace(rho):.6f}")
    if np.abs(rho - rho.conj().T).max() > tol:
        bad.append(f"non-Hermitian by {np.abs(rho - rho.conj().T).max():.2e}")
    if need_psd:
        lam = np.linalg.eigvalsh((rho + rho.conj().T) / 2).min()
        if lam < -tol:
            bad.append(f"eigenvalue {lam:.2e}")
    return bad


def rand_rho(rng, d, kind):
    if kind == "pure":
        v = np.array([rng.gauss(0, 1) + 1j * rng.gauss(0, 1) for _ in range(d)])
        v /= np.linalg.norm(v)
        return np.outer(v, v.conj())
    a = np.array([[rng.gauss(0, 1) + 1j * rng.gauss(0, 1) for _ in range(d)] for _ in range(d)])
    if kind == "rank-deficient" and d > 1:
        a[:, -1] = 0
    r = a @ a.conj().T
    return r / np.trace(r)


def search(chk, n_cases):
    rng = chk.rng
    sx, sy, sz = (opr.sigma(a) for a in "xyz")
    sm = opr.sigma("-")
    for it in range(n_cases):
        eps = 1e-6
        tol = 50 * eps
        d = 2
        sx, sy, sz = (opr.sigma(a) for a in "xyz")
        sm = opr.sigma("-")
        method = rng.choice(["tempo", "pttempo", "meanfield", "gibbs", "tebd"])
        alpha = rng.choice([0.05, 0.5, 1.5])
        T = rng.choice([0.0, 0.3, 2.0])
        corr = oqupy.PowerLawSD(alpha=alpha, zeta=rng.choice([1, 1, 3]), cutoff=rng.choice([1.0, 5.0]),
                                cutoff_type=rng.choice(["exponential", "gaussian"]), temperature=T)
        op = rng.choice([0.5 * sz, 0.5 * sx + 0.3 * sz, 0.3 * sx + 0.4 * sy, 0.5 * sy + 0.2 * sz])      # incl. complex eigenbases
        forced_storage = None
        if it == 7:
            # every run: a Gibbs state at sizeable coupling, Hamiltonian not commuting with the coupling, coupling eigenvalues of different magnitude
            method, alpha, T = "gibbs", rng.choice([0.5, 1.5]), rng.choice([0.3, 2.0])
            corr = oqupy.PowerLawSD(alpha=alpha, zeta=1, cutoff=rng.choice([1.0, 5.0]), cutoff_type="exponential", temperature=T)
        if it == 3:
            method = "tebd"           # every run: a chain with recorded site subsets
        if it < 3:
            # every run: a coupling operator with a complex eigenbasis through PT-TEMPO written to a file / exported and imported, and through TEMPO
            method = ["pttempo", "pttempo", "tempo"][it]
            forced_storage = ["file-backed", "exported+imported", None][it]
            op = rng.choice([0.3 * sx + 0.4 * sy, 0.5 * sy + 0.2 * sz])
        unique = False
        if it in (5, 6) or (it > 6 and method in ("tempo", "pttempo") and rng.random() < 0.3):
            # every run (it == 5: PT-TEMPO, it == 6: TEMPO): a three-level system with a REPEATED coupling eigenvalue and the
            # degeneracy compression (unique=True) switched on; non-commuting, complex system Hamiltonian
            d = 3
            if it in (5, 6):
                method = ["pttempo", "tempo"][it - 5]
            unique = it in (5, 6) or rng.random() < 0.7
            op = np.diag(rng.choice([[0.0, 1.0, 1.0], [0.5, -0.5, 0.5], [1.0, 1.0, 0.0]])).astype(complex)
            if rng.random() < 0.5:
                q_, r_ = np.linalg.qr(np.array([[rng.gauss(0, 1) + 1j * rng.gauss(0, 1) for _ in range(3)] for _ in range(3)]))
                op = q_ @ op @ q_.conj().T
        bath = oqupy.Bath(op, corr)
        dkmax = rng.choice([None, None, 2])
        dt, n = 0.1, rng.randint(3, 6)
        tau_add = None
        if it in (2, 4):
            # every run (it == 2: TEMPO, it == 4: mean-field TEMPO): a memory cut-off with additional correlation time, more
            # steps than the cut-off: trace and Hermiticity do not depend on the memory approximation
            dkmax, n, tau_add = 2, 6, [np.inf, 0.25][it // 4]
            if it == 4:
                method = "meanfield"
        elif dkmax is not None and rng.random() < 0.5:
            tau_add = rng.choice([0.15, 1.0, np.inf])
        if it == 0:
            # the file-backed PT-TEMPO case of every run: a longer run at strong coupling without a memory cut-off (the cap tensors
            # of the intermediate steps are far from trivial there)
            n, dkmax, tau_add = 12, None, None
            alpha, T = rng.choice([0.5, 1.0]), rng.choice([0.3, 0.7])
            corr = oqupy.PowerLawSD(alpha=alpha, zeta=1, cutoff=rng.choice([2.0, 4.0]), cutoff_type="exponential", temperature=T)
            bath = oqupy.Bath(op, corr)
        par = oqupy.TempoParameters(dt=dt, epsrel=eps, dkmax=dkmax, add_correlation_time=tau_add, subdiv_limit=None)
        rho0 = rand_rho(rng, d, rng.choice(["pure", "mixed", "rank-deficient"]))
        syskind = rng.choice(["H", "lindblad", "td"])
        h0 = 0.5 * sx + 0.2 * sz
        if d == 3:
            h0 = np.array([[0.0, 0.7, 0.3 - 0.2j], [0.7, 1.0, 0.1], [0.3 + 0.2j, 0.1, 1.2]])
            sm = np.diag([1.0, 1.0], 1).astype(complex)
            sz, sy = np.diag([1.0, 0.0, -1.0]).astype(complex), 1j * (sm.T - sm)
        if syskind == "H":
            sysm = oqupy.System(h0)
        elif syskind == "lindblad":
            sysm = oqupy.System(h0, gammas=[0.3, 0.1], lindblad_operators=[sm, sz])
        else:
            sysm = oqupy.TimeDependentSystem(lambda t: h0 + 0.4 * np.cos(2 * t) * sy, gammas=[lambda t: 0.1 * (1 + t)], lindblad_operators=[lambda t: sm])
        info = {"method": method, "alpha": alpha, "T": T, "dkmax": dkmax, "add_correlation_time": tau_add, "system": syskind, "n": n, "d": d, "unique": unique}
        need_psd = dkmax is None
        try:
            if method == "tempo":
                states = quiet(oqupy.Tempo(sysm, bath, par, rho0, 0.0, unique=unique).compute, n * dt, progress_type="silent").states
            elif method == "pttempo":
                # in memory, written directly to a file, or exported and imported again
                storage = forced_storage or rng.choice(["memory", "file-backed", "exported+imported"])
                info["process_tensor"] = storage
                pt = quiet(oqupy.pt_tempo_compute, bath, 0.0, n * dt, parameters=par, process_tensor_file=True if storage == "file-backed" else None,
                           unique=unique, progress_type="silent")
                if storage == "exported+imported":
                    import tempfile, os
                    fn_ = os.path.join(tempfile.mkdtemp(prefix="c04_"), "pt.hdf5")
                    pt.export(fn_)
                    pt = oqupy.import_process_tensor(fn_, "file")
                states = quiet(oqupy.compute_dynamics, sysm, initial_state=rho0, process_tensor=pt, subdiv_limit=None, progress_type="silent").states
                if storage == "file-backed":
                    pt.remove()
                elif storage == "exported+imported":
                    pt.close()
                    import shutil
                    shutil.rmtree(os.path.dirname(fn_), ignore_errors=True)
            elif method == "meanfield":
                s = oqupy.TimeDependentSystemWithField(lambda t, a: h0 + 0.2 * (a.real) * sz, gammas=[lambda t: 0.1], lindblad_operators=[lambda t: sm])
                mfs = oqupy.MeanFieldSystem([s], field_eom=lambda t, st, a: -0.2 * a + 0.3 * np.trace(st[0] @ sm))
                dyn = quiet(oqupy.MeanFieldTempo(mfs, [bath], par, [rho0], 0.2 + 0j, 0.0).compute, n * dt, progress_type="silent")
                states = list(dyn.system_dynamics[0].states)
                # ... and the same mean-field system (dissipative, complex Hamiltonian) through its process-tensor route: the states of
                # both routes are reported states
                ptm_ = quiet(oqupy.pt_tempo_compute, bath, 0.0, n * dt, parameters=par, unique=unique, progress_type="silent")
                dyn2 = quiet(oqupy.compute_dynamics_with_field, mfs, 0.2 + 0j, process_tensor_list=[ptm_], initial_state_list=[rho0], start_time=0.0,
                             subdiv_limit=None, progress_type="silent")
                states += list(dyn2.system_dynamics[0].states)
                info["routes"] = ["MeanFieldTempo", "compute_dynamics_with_field"]
            elif method == "gibbs":
                if T == 0.0:
                    continue
                gb = oqupy.Bath(np.diag(rng.choice([[1.0, -0.5], [1.0, 0.0], [0.0, 1.0]])), corr)
                hs = rng.choice([0.5 * sz, 0.4 * sx + 0.2 * sz, 0.3 * sy + 0.1 * sz])
                if it == 7:
                    hs = rng.choice([0.4 * sx + 0.2 * sz, 0.3 * sy + 0.1 * sz])       # the forced case: does not commute with the coupling
                g = oqupy.GibbsTempo(oqupy.System(hs), gb, oqupy.GibbsParameters(n_steps=rng.choice([4, 10, 25]), epsrel=1e-9))
                quiet(g.compute, progress_type="silent")
                states = [g.get_state()]
                need_psd = True
            else:
                L = rng.randint(2, 5)
                # sites of different Hilbert-space dimensions (the first one, which carries the bath, is a qubit); the forced
                # case of every run has at least one qutrit
                dims = [2] + [rng.choice([2, 2, 3]) for _ in range(L - 1)]
                if it == 3 and 3 not in dims:
                    dims[rng.randrange(1, L)] = 3
                info["site_dimensions"] = dims
                lower = lambda dd: np.diag(np.sqrt(np.arange(1, dd)), 1).astype(complex)
                szd = lambda dd: np.diag(np.arange(dd)[::-1] - (dd - 1) / 2).astype(complex)
                chain = oqupy.SystemChain(dims)
                for i in range(L):
                    chain.add_site_hamiltonian(i, 0.5 * szd(dims[i]))
                    if rng.random() < 0.5:
                        chain.add_site_dissipation(i, lower(dims[i]), 0.2)
                for i in range(L - 1):
                    chain.add_nn_hamiltonian(i, 0.6 * (lower(dims[i]) + lower(dims[i]).T), lower(dims[i + 1]) + lower(dims[i + 1]).T)
                pt = quiet(oqupy.pt_tempo_compute, bath, 0.0, n * dt, parameters=par, progress_type="silent")
                # single sites and site subsets (neighbours, the two ends, gapped tuples): all of them reported states
                subsets = [(0, 1)] + ([(0, L - 1)] if L >= 3 else []) + [tuple(sorted(rng.sample(range(L), rng.randint(2, min(3, L))))) for _ in range(2)]
                subsets = sorted(set(subsets))
                info["recorded_subsets"] = subsets
                inits = []
                for dd in dims:
                    if dd == 2:
                        inits.append(rho0)
                    else:
                        b_ = np.array([[rng.gauss(0, 1) + 1j * rng.gauss(0, 1) for _ in range(dd)] for _ in range(dd)])
                        inits.append(b_ @ b_.conj().T / np.trace(b_ @ b_.conj().T))
                # single-site control operations that are channels but not unital (reset to the ground state, amplitude damping):
                # trace preserving, so norm and traces stay one
                cc = None
                if it == 3 or rng.random() < 0.5:
                    cc = oqupy.ChainControl(dims)
                    for site_, step_, post_ in [(0, 1, False), (L - 1, 2, True), (rng.randrange(L), min(2, n - 1), False)]:
                        dd_ = dims[site_]
                        ks_ = [np.eye(dd_)[:, [0]] @ np.eye(dd_)[[j_], :] for j_ in range(dd_)] if (site_ + step_) % 2 == 0 else \
                            [np.diag([1.0] + [np.sqrt(0.6)] * (dd_ - 1)), np.sqrt(0.4) * np.eye(dd_)[:, [0]] @ np.eye(dd_)[[dd_ - 1], :]] + \
                            [np.sqrt(0.4) * np.eye(dd_)[:, [0]] @ np.eye(dd_)[[j_], :] for j_ in range(1, dd_ - 1)]
                        sup_ = sum(np.kron(k_, k_.conj()) for k_ in ks_)
                        cc.add_single_site_control(sup_, site_, step_, post_)
                    info["chain_control"] = "non-unital channels"
                lambdas_ = None
                if it == 3 or rng.random() < 0.4:
                    # a correlated (classically mixed) state of the first two sites, handed over as rank-3 tensors with
                    # explicit lambdas: w |0,0><0,0| + (1-w) |1,1><1,1|  (forced in the case of every run)
                    w_ = rng.choice([0.3, 0.5, 0.85])
                    proj = lambda dd, j_: np.diag(np.eye(dd)[j_]).astype(complex).reshape(dd * dd)
                    g0_ = np.zeros((1, dims[0] ** 2, 2), dtype=complex)
                    g1_ = np.zeros((2, dims[1] ** 2, 1), dtype=complex)
                    for j_ in range(2):
                        g0_[0, :, j_] = proj(dims[0], j_)
                        g1_[j_, :, 0] = proj(dims[1], j_)
                    inits = [g0_, g1_] + inits[2:]
                    lambdas_ = [np.array([w_, 1.0 - w_])] + [None] * (L - 2)
                    info["initial_state"] = f"correlated first pair with lambdas [{w_}, {1 - w_}]"
                p = oqupy.PtTebd(oqupy.AugmentedMPS(inits, lambdas_), chain, [pt] + [None] * (L - 1),
                                 oqupy.PtTebdParameters(dt=dt, order=rng.choice([1, 2]), epsrel=eps), dynamics_sites=list(range(L)) + subsets, chain_control=cc)
                res = quiet(p.compute, n, progress_type="silent")
                states = [st for site in list(range(L)) + subsets for st in res["dynamics"][site].states]
                if np.abs(np.array(res["norm"]) - 1).max() > tol:
                    chk.fail("tebd-norm", f"PT-TEBD: reported norm deviates from one by {np.abs(np.array(res['norm']) - 1).max():.2e}", info)
                need_psd = False
        except Exception as ex:
            chk.fail("method-raises", f"{method} raises {ex!r}", info)
            continue
        chk.search_cases += 1
        chk.count("search_" + method)
        for k, st in enumerate(states):
            bad = physical(st, tol, need_psd)
            if bad:
                chk.fail("unphysical-state:" + method, f"{method}: state {k} is not a density matrix ({'; '.join(bad)}), epsrel {eps}", dict(info, step=k))
                break


def run(chk):
    rng = chk.rng
    thorough = chk.tier == "thorough"
    chk.proofs()
    exprs, expected, meta = [], [], []
    # ---- (a) operators.py against the kron model and the index-pair model ----------------------
    for it in range(120 if thorough else 50):
        d = rng.choice([1, 2, 2, 3])
        kind = rng.randrange(5)
        a, b = gint(rng, (d, d), -2, 2), gint(rng, (d, d), -2, 2)
        fn = getattr(opr, KINDS[kind])
        res = fn(a, b) if kind == 4 else fn(a)
        exprs.append(f"superop_flat {kind} {d} {mat_lit(a)} {mat_lit(b)}")
        expected.append(gflat(res) + [777] + gflat(res))
        meta.append({"kind": KINDS[kind], "d": d})
        chk.count(KINDS[kind])
        chk.case(meta[-1], (KINDS[kind], d, it % 7))
    # ---- (a2) operators.preparation: the superoperator of "discard the state, prepare rho" maps every sigma to tr(sigma) rho (exact
    # integers), so as a control operation it keeps traces and yields a physical state whenever rho is one ----------------------
    for it in range(20 if thorough else 8):
        d = rng.choice([1, 2, 3])
        r_, s_ = gint(rng, (d, d), -2, 2), gint(rng, (d, d), -2, 2)
        chk.search_cases += 1
        chk.count("preparation")
        try:
            P = np.array(opr.preparation(r_ if it % 2 == 0 else np.asfortranarray(r_)))
            out = (P @ s_.reshape(-1)).reshape(d, d)
        except Exception as ex:
            chk.fail("preparation", f"operators.preparation raises {ex!r}", {"d": d})
            continue
        if P.shape != (d * d, d * d) or not np.array_equal(out, np.trace(s_) * r_):
            chk.fail("preparation", "operators.preparation(rho) applied to sigma is not tr(sigma) rho", {"d": d, "rho": r_.tolist(), "sigma": s_.tolist()})
    # ---- (b) Lindbladians: System.liouvillian() and TimeDependentSystem.liouvillian(t) ----------
    for it in range(100 if thorough else 40):
        d = rng.choice([1, 2, 2, 3])
        H = herm_int(rng, d) if rng.random() < 0.8 else gint(rng, (d, d), -2, 2)
        nt = rng.randint(0, 3)
        terms = [(rng.randint(-2, 3), gint(rng, (d, d), -1, 1)) for _ in range(nt)]
        if rng.random() < 0.5:
            sysm = oqupy.System(H, gammas=[float(g) for g, _ in terms], lindblad_operators=[A for _, A in terms])
            L = sysm.liouvillian()
            api = "System"
        else:
            sysm = oqupy.TimeDependentSystem(lambda t: H, gammas=[(lambda t, g=g: float(g)) for g, _ in terms],
                                             lindblad_operators=[(lambda t, A=A: A) for _, A in terms])
            L = sysm.liouvillian(0.37)
            api = "TimeDependentSystem"
        tl = coq_list([f"({zlit(g)}, {mat_lit(A)})" for g, A in terms])
        exprs.append(f"liouv2_flat {d} {mat_lit(H)} {tl}")
        expected.append(gflat(2 * np.array(L)))
        info = {"kind": "liouvillian", "api": api, "d": d, "terms": nt}
        meta.append(info)
        chk.count("liouvillian_" + api)
        chk.case(info, ("liouv", api, d, nt, it % 5))
        # property oracle on the implementation: trace and Hermiticity preservation of the generator
        chk.search_cases += 1
        Lm = np.array(L)
        tr = np.eye(d).reshape(-1)
        herm_H = np.array_equal(H, H.conj().T)
        if np.abs(tr @ Lm).max() != 0:
            chk.fail("liouvillian-trace", f"{api}.liouvillian does not preserve the trace", info)
        if herm_H:
            P = np.zeros((d * d, d * d))
            for i in range(d):
                for j in range(d):
                    P[i * d + j, j * d + i] = 1
            if not np.array_equal(P @ Lm.conj() @ P, Lm):
                chk.fail("liouvillian-herm", f"{api}.liouvillian does not preserve Hermiticity", info)

    # ---- (a2) the tabulated states and operators handed out by oqupy.operators are what their names say ----------------
    sig = {a: opr.sigma(a) for a in "xyz"}
    for key in ("up", "down", "z+", "z-", "x+", "x-", "y+", "y-", "mixed"):
        r = np.array(opr.spin_dm(key))
        chk.search_cases += 1
        want = {"up": ("z", 1), "down": ("z", -1), "mixed": None}.get(key, (key[0], 1 if key.endswith("+") else -1) if key not in ("up", "down", "mixed") else None)
        ok = abs(np.trace(r) - 1) < 1e-15 and np.array_equal(r, r.conj().T) and np.linalg.eigvalsh(r).min() > -1e-15
        if want is not None:
            ok = ok and abs(np.trace(r @ sig[want[0]]) - want[1]) < 1e-15 and abs(np.trace(r @ r) - 1) < 1e-15
        else:
            ok = ok and np.array_equal(r, np.eye(2) / 2)
        if not ok:
            chk.fail("spin-dm-table", f"oqupy.operators.spin_dm('{key}') is not the (pure, normalised) state its name says", {"key": key})
    for a, b, c in (("x", "y", "z"), ("y", "z", "x"), ("z", "x", "y")):
        chk.search_cases += 1
        if not np.array_equal(sig[a] @ sig[b] - sig[b] @ sig[a], 2j * sig[c]) or not np.array_equal(sig[a] @ sig[a], np.eye(2)):
            chk.fail("sigma-table", f"oqupy.operators.sigma: [s{a}, s{b}] != 2i s{c} or s{a}^2 != 1", {"axes": a + b + c})
    chk.search_cases += 1
    sp_, sm_ = opr.sigma("+"), opr.sigma("-")
    if not (np.array_equal(opr.sigma("id"), np.eye(2)) and np.array_equal(sp_ + sm_, sig["x"]) and np.array_equal(-1j * (sp_ - sm_), sig["y"])
            and np.array_equal(sp_ @ sm_ - sm_ @ sp_, sig["z"])):
        chk.fail("sigma-table", "oqupy.operators.sigma: 'id' is not the identity or '+' / '-' are not (sx +- i sy)/2", {"axes": "id+-"})
    for n_ in (1, 2, 3, 5):
        chk.search_cases += 1
        a_, ad_ = opr.destroy(n_), opr.create(n_)
        num = np.diag(np.arange(n_)).astype(complex)
        # a|k> = sqrt(k)|k-1>, create = destroy^+, a^+ a = number operator (truncated oscillator)
        if a_.shape != (n_, n_) or not np.array_equal(ad_, a_.conj().T) or not np.allclose(ad_ @ a_, num, atol=1e-14, rtol=0) \
                or any(abs(a_[k - 1, k] - np.sqrt(k)) > 1e-15 for k in range(1, n_)):
            chk.fail("ladder-table", f"oqupy.operators.destroy({n_}) / create({n_}) are not the truncated oscillator ladder operators", {"n": n_})
    chk.count("operator_tables")

    # ---- (b2) two-site generators of SystemChain (add_nn_hamiltonian / add_nn_dissipation, any rate): they are the
    # Lindbladian of the joint space with operator A (x) B, up to the library's leg order ((i_l j_l),(i_r j_r)) ----------
    for it in range(40 if thorough else 14):
        dl, dr = rng.choice([1, 2, 2]), rng.choice([2, 2, 3] if not thorough else [2, 3])
        if dl * dr > 6:
            dr = 2
        D = dl * dr
        chain = oqupy.SystemChain([dl, dr])
        Hj = np.zeros((D, D), dtype=complex)
        for _ in range(rng.randint(0, 2)):
            hl, hr = herm_int(rng, dl), herm_int(rng, dr)
            chain.add_nn_hamiltonian(0, hl, hr)
            Hj = Hj + np.kron(hl, hr)
        nterms = rng.randint(1, 2)
        jterms = []
        for _ in range(nterms):
            g, A, B = rng.choice([0, 1, 2, 3, 5]), gint(rng, (dl, dl), -1, 1), gint(rng, (dr, dr), -1, 1)
            chain.add_nn_dissipation(0, A, B, gamma=float(g))
            jterms.append((g, np.kron(A, B)))
        # single-site terms of both sites (complex Gaussian-integer Lindblad operators: A^dagger A is not symmetric in general)
        site_terms = it % 2 == 1
        if site_terms:
            for site_, dd_ in ((0, dl), (1, dr)):
                hs_ = herm_int(rng, dd_)
                chain.add_site_hamiltonian(site_, hs_)
                Hj = Hj + (np.kron(hs_, np.eye(dr)) if site_ == 0 else np.kron(np.eye(dl), hs_))
                gs_, As_ = rng.choice([1, 2, 3]), gint(rng, (dd_, dd_), -1, 1)
                chain.add_site_dissipation(site_, As_, gamma=float(gs_))
                jterms.append((gs_, np.kron(As_, np.eye(dr)) if site_ == 0 else np.kron(np.eye(dl), As_)))
        L = np.array(chain.get_nn_full_liouvillians()[0])
        # the same generator handed over as matrices (add_nn_liouvillian / add_site_liouvillian add to what is stored)
        chain2 = oqupy.SystemChain([dl, dr])
        half = np.array(chain.nn_liouvillians[0]) / 2
        chain2.add_nn_liouvillian(0, half)
        chain2.add_nn_liouvillian(0, half)
        sl = oqupy.System(herm_int(rng, dl)).liouvillian()
        chain2.add_site_liouvillian(0, sl)
        chain2.add_site_liouvillian(1, np.zeros((dr * dr, dr * dr)))
        L2 = np.array(chain2.get_nn_full_liouvillians()[0])
        if not site_terms and not np.array_equal(L2, L + np.kron(sl, np.eye(dr * dr))):
            chk.fail("liouvillian-add", "SystemChain.add_nn_liouvillian / add_site_liouvillian: the two-site generator is not the sum of what was added",
                     {"kind": "liouvillian", "api": "SystemChain.add_*_liouvillian", "d": [dl, dr]})
        # to the joint-space order (i_l i_r j_l j_r)
        Lj = L.reshape(dl, dl, dr, dr, dl, dl, dr, dr).transpose(0, 2, 1, 3, 4, 6, 5, 7).reshape(D * D, D * D)
        tl = coq_list([f"({zlit(g)}, {mat_lit(C)})" for g, C in jterms])
        exprs.append(f"liouv2_flat {D} {mat_lit(Hj)} {tl}")
        expected.append(gflat(2 * Lj))
        info = {"kind": "liouvillian", "api": "SystemChain.nn", "d": [dl, dr], "terms": nterms, "rates": [g for g, _ in jterms]}
        meta.append(info)
        chk.count("liouvillian_SystemChain_nn")
        chk.case(info, ("liouv-nn", dl, dr, nterms, tuple(g for g, _ in jterms), it % 4))
        chk.search_cases += 1
        trv = np.kron(np.eye(dl).reshape(-1), np.eye(dr).reshape(-1))
        if np.abs(trv @ L).max() != 0:
            chk.fail("liouvillian-trace", f"SystemChain: the two-site generator with nearest-neighbour dissipation (rates {info['rates']}) does not preserve the trace "
                     f"(|tr . L| = {np.abs(trv @ L).max():.3g})", info)

    # ---- (c) the hypotheses of pathsum_trace, observed on the library's own ingredients -------------
    # influence functions are EXACTLY 1 where the later index is a population (exp(0)); basis changes and
    # half-step propagators preserve the trace functional column-wise (1e-12: expm sits in between)
    from oqupy.tempo import influence_matrix
    for it in range(40 if thorough else 14):
        d = rng.choice([2, 2, 3, 4])
        kind = rng.choice(["diagonal", "degenerate", "hermitian"])
        if kind == "diagonal":
            op = np.diag([float(rng.randint(-2, 2)) for _ in range(d)]).astype(complex)
        else:
            a = np.array([[rng.gauss(0, 1) + 1j * rng.gauss(0, 1) for _ in range(d)] for _ in range(d)])
            q, _ = np.linalg.qr(a)
            lam = [float(rng.randint(-1, 1)) for _ in range(d)] if kind == "degenerate" else [rng.uniform(-1, 1) for _ in range(d)]
            op = q @ np.diag(lam) @ q.conj().T
            op = (op + op.conj().T) / 2
        corr = oqupy.PowerLawSD(alpha=rng.choice([0.1, 0.8, 1.5]), zeta=rng.choice([1, 3]), cutoff=rng.choice([1.0, 4.0]),
                                cutoff_type=rng.choice(["exponential", "gaussian"]), temperature=rng.choice([0.0, 0.3, 2.0]))
        info = {"kind": "pathsum-hypotheses", "coupling": kind, "d": d}
        try:
            bath = oqupy.Bath(op, corr)
            dkmax = rng.randint(1, 4)
            par = oqupy.TempoParameters(dt=rng.choice([0.05, 0.1, 0.3]), epsrel=1e-6, dkmax=dkmax,
                                        add_correlation_time=rng.choice([None, 0.2, 1.0]))
            pops = [i * d + i for i in range(d)]
            worst = herm_bad = None
            for dk in list(range(0, dkmax + 1)) + [-1, -3]:
                infl = influence_matrix(dk, par, bath.correlations, bath.coupling_acomm, bath.coupling_comm)
                if infl is None:
                    continue
                cols = np.diag(infl)[pops] if dk == 0 else infl[:, pops]
                if not np.all(cols == 1.0):
                    worst = (dk, float(np.abs(cols - 1.0).max()))
                # hypothesis of pathsum_herm: exchanging the branches of both indices conjugates the influence
                swp = [(i % d) * d + i // d for i in range(d * d)]
                ex = np.diag(infl)[swp] if dk == 0 else infl[np.ix_(swp, swp)]
                ref_ = np.diag(infl) if dk == 0 else infl
                hdev = float(np.abs(ex - ref_.conj()).max() / max(1.0, np.abs(ref_).max()))
                if hdev > 1e-14:
                    herm_bad = (dk, hdev)
            u = bath.unitary_transform
            tr = np.eye(d).reshape(-1)
            sup = [opr.left_right_super(u, u.conj().T), opr.left_right_super(u.conj().T, u)]
            H = herm_int(rng, d)
            nt = rng.randint(0, 2)
            if it % 3 == 0:
                # a Hamiltonian that is a diagonal matrix (also: a multiple of the identity, zero) with Lindblad operators that are not
                H = np.diag([float(rng.randint(-2, 2)) for _ in range(d)]).astype(complex) * rng.choice([1.0, 1.0, 0.0])
                nt = rng.randint(1, 2)
            elif it % 3 == 1:
                # a repeated eigenvalue, written in a rotated basis; no dissipators in half of these
                q_ = np.linalg.qr(np.array([[rng.gauss(0, 1) + 1j * rng.gauss(0, 1) for _ in range(d)] for _ in range(d)]))[0]
                H = q_ @ np.diag([0.8] * (d - 1) + [-0.4]).astype(complex) @ q_.conj().T
                H = (H + H.conj().T) / 2
                nt = rng.choice([0, 0, 1])
            sysm = oqupy.System(H, gammas=[rng.uniform(0, 1) for _ in range(nt)],
                                lindblad_operators=[gint(rng, (d, d), -1, 1) for _ in range(nt)])
            props_ = list(sysm.get_propagators(par.dt, 0.0, None, 1e-6)(0))
            sup += props_
            dev = max(np.abs(tr @ m - tr).max() / max(1.0, np.abs(m).max()) for m in sup)
            # the half-step propagators of a time-independent System are exp(L dt/2) of ITS Liouvillian (tied exactly above)
            from scipy.linalg import expm as _expm
            want_ = _expm(np.array(sysm.liouvillian()) * par.dt / 2.0)
            pdev = max(np.abs(np.array(m) - want_).max() for m in props_)
            if pdev > 1e-11 * max(1.0, np.abs(want_).max()):
                chk.fail("propagator-not-exp-of-liouvillian", f"System.get_propagators: a half-step propagator differs from exp(L dt/2) by {pdev:.2e} "
                         f"(Hamiltonian {'diagonal' if it % 3 == 0 else 'degenerate, rotated' if it % 3 == 1 else 'generic'}, {nt} Lindblad operator(s))",
                         dict(info, hamiltonian_kind=["diagonal", "degenerate-rotated", "generic"][it % 3], lindblad_operators=nt))
        except Exception as ex:
            chk.fail("method-raises", f"building the TEMPO ingredients raises {ex!r}", info)
            continue
        chk.search_cases += 1
        chk.count("pathsum_hypotheses_" + kind)
        chk.case(info, ("hyp", kind, d, it))
        if worst is not None:
            chk.fail("influence-not-one-on-populations", f"influence_matrix(dk={worst[0]}) differs from 1 by {worst[1]:.2e} where the later index "
                     f"is a population: tracing out the latest point does not remove the coupling ({kind} coupling)", info)
        if herm_bad is not None:
            chk.fail("influence-not-branch-symmetric", f"influence_matrix(dk={herm_bad[0]}): exchanging forward and backward branch of both indices does not "
                     f"conjugate it (deviation {herm_bad[1]:.2e}, {kind} coupling)", info)
        if dev > 1e-12:
            chk.fail("propagator-not-trace-preserving", f"a basis change / half-step propagator changes the trace functional by {dev:.2e}", info)

    vals, errs = run_cases("C04", HEADER, exprs, chunk=60)
    for e in errs:
        chk.disagree("coq evaluation", e)
    for v, exp, m in zip(vals, expected, meta):
        got = ints(v)
        if got != exp:
            chk.disagree(m["kind"], {"meta": m, "impl": exp[:40], "model": (got or [])[:40]})
    search(chk, 45 if (thorough or chk.disagreements or chk.broken) else 12)
    return chk.finish(
        level="proof",
        trusted=["models: Model/SuperOps.v (kron form and index-pair form), Model/Shapes.v (influence exponent)",
                 "the theorems are about twice the Lindbladian (no 1/2 in an arbitrary ring)"],
        rule="operators.py superoperators on Gaussian-integer matrices d=1..3 against both model forms; Lindbladians of System and "
             "TimeDependentSystem with 0-3 integer-rate dissipators (exact, incl. non-Hermitian H); two-site generators of SystemChain (nn Hamiltonians, nn dissipation with "
             "rates 0-5) against the joint-space Lindbladian of the model (exact); hypotheses of pathsum_trace on influence_matrix (exactly 1 on population columns, every dk), "
             "Bath.unitary_transform and System propagators; search: Tempo, PtTempo, MeanFieldTempo, GibbsTempo, PtTebd "
             "with alpha up to 1.5, T in {0,.3,2}, pure/mixed/rank-deficient initial states; trace/Hermiticity within 50*epsrel at every step, positivity at full memory",
        assumptions=["positivity and the effect of SVD truncation on the trace are explored on the implementation only (no theorem)",
                     "trace preservation of the full path sum is theorem pathsum_trace (its hypotheses are observed on influence_matrix / Bath / System on every run); Hermiticity of the full path sum is theorem pathsum_herm"])
