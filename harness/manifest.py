"""Regenerates /verif/MANIFEST.json from the table below (python3 harness/manifest.py)."""
import json, os
ROOT = os.path.dirname(os.path.dirname(os.path.abspath(__file__)))

CHECKS = {
 "C18": dict(
   text="Theorems (Coq, unbounded): for every step count and every family of maps the state recorded at step k is read out right after the pre-control of k and right before the post-control of k, each applied once (acts_once_at_step); stacking is append-at-end per (key, side[, site]) and time-sorting is stable (stack_order_*, chain_same_rule); the product matrix acts as the sequence (product_acts_in_order). Tied to /repo by an exact (integer) correspondence of Control.get_controls, ChainControl.get_single_site_controls and compute_dynamics against the executable model on every run.",
   note="Trusted: Coq kernel + vm_compute + primitive floats; hand-written models Model/Control.v, Model/Dyn.v, Model/PT.v; Python harness; injected propagators via System.get_propagators. Not modelled: PT-TEBD application of chain controls (C10).",
   technique="Coq proof over list/fold models + exact integer differential correspondence (Eval vm_compute)",
   design="3/C18"),
}

NOT_YET = {}

def main():
    props = [json.loads(l) for l in open(os.path.join(ROOT, "properties.jsonl"))]
    checks, na = [], []
    for p in props:
        pid = p["id"]
        if pid in CHECKS:
            c = CHECKS[pid]
            checks.append({
                "property_id": pid,
                "quick_cmd": f"./check {pid} --tier quick",
                "thorough_cmd": f"./check {pid} --tier thorough",
                "evidence_file": f"/verif/evidence/{pid}.json",
                "replay_cmd_template": f"./check {pid} --replay {{path}}",
                "engine": "coq+correspondence",
                "level_claimed": {"category": c.get("category", "proof"), "text": c["text"], "design_ref": c["design"]},
                "level_note": c["note"],
                "technique": c["technique"],
            })
        else:
            na.append({"property_id": pid, "reason": NOT_YET.get(pid, "machinery for this property is not built yet in this snapshot (work in progress, see DESIGN.md section 8); not claimed")})
    m = {
        "version": 1,
        "setup_cmd": "./setup.sh",
        "hooks": {"guard": "TEMPOCOLLABORATION_OQUPY_VERIF",
                  "enable": "no source hooks are needed: checks import /repo's working tree directly (PYTHONPATH=/repo) and observe through public extension points",
                  "baseline_off_cmd": "cd /repo && /venv/bin/python -m pytest -ra -q -p no:cacheprovider --timeout=900 --continue-on-collection-errors",
                  "source_commits": [], "add_only": True},
        "engines": [{"name": "coq+correspondence", "path": "/verif/coq, /verif/harness",
                     "serves_properties": sorted(CHECKS),
                     "kind_free_text": "Coq 8.16.1 development (models, proofs, Props/Cxx.v with Print Assumptions) + Python differential harness evaluating the models with Eval vm_compute against /repo"}],
        "checks": checks,
        "not_applicable": na,
        "notes": "See DESIGN.md. known_findings.json lists recorded findings (read-only at run time).",
    }
    json.dump(m, open(os.path.join(ROOT, "MANIFEST.json"), "w"), indent=1)
    print("checks:", len(checks), "not claimed:", len(na))

if __name__ == "__main__":
    main()
