"""Regenerates /verif/MANIFEST.json from the table below (python3 harness/manifest.py)."""
import json, os
ROOT = os.path.dirname(os.path.dirname(os.path.abspath(__file__)))

CHECKS = {
 "C18": dict(
   text="Theorems (Coq, unbounded): for every step count and every family of maps the state recorded at step k is read out right after the pre-control of k and right before the post-control of k, each applied once (acts_once_at_step); stacking is append-at-end per (key, side[, site]) and time-sorting is stable (stack_order_*, chain_same_rule); the product matrix acts as the sequence (product_acts_in_order). Tied to /repo by an exact (integer) correspondence of Control.get_controls, ChainControl.get_single_site_controls and compute_dynamics against the executable model on every run.",
   note="Trusted: Coq kernel + vm_compute + primitive floats; hand-written models Model/Control.v, Model/Dyn.v, Model/PT.v; Python harness; injected propagators via System.get_propagators. Not modelled: PT-TEBD application of chain controls (C10).",
   technique="Coq proof over list/fold models + exact integer differential correspondence (Eval vm_compute)",
   design="3/C18"),
 "C03": dict(
   text="Theorems (Coq, any ring, any dimensions/steps/number of environments): compute_dynamics returns exactly the cap read-outs of the augmented state evolving by pre-control, read-out, post-control, half propagator, every MPO in list order, half propagator (joint_evolution); each MPO application is the joint map on (bond leg, system leg), rank-3 = delta, transforms = pre/post multiplication, caps trace the bonds out; list order is irrelevant for pairwise commuting environments, for every permutation (order_independent_partial) and refuted without that premise. Tied to /repo by exact integer correspondence of compute_dynamics on hand-built process tensors; searched against an independent dense NumPy joint evolution.",
   note="Trusted: Coq kernel/vm_compute; models Model/Dyn.v, Model/PT.v; Python harness and its dense oracle; injected propagators. Known finding: order dependence for non-commuting environments. 'Sum of baths' is explored numerically only.",
   technique="Coq proof (ring-generic tensor model, induction over steps / Permutation) + exact integer differential correspondence",
   design="3/C03"),
 "C16": dict(
   text="Theorems (Coq): slot write/read-back incl. resize and non-interference (set_get); import_simple(export p) = p field by field for every process tensor without the NaN sentinel (roundtrip, by induction over the tensor lists); imported object has initial tensor None (imported_usable); sentinel loss exhibited (sentinel_refuted). Tied to /repo through the real h5py: every exported object is re-imported as 'file' and 'simple' and compared exactly with the model's output; compute_dynamics on original vs imported must be bit-equal; file-backed PT-TEMPO vs in-memory.",
   note="Trusted: Coq kernel/vm_compute; Model/PTFile.v; Python harness. h5py/HDF5 are not modelled (exercised for real).",
   technique="Coq proof over an abstract HDF5 container + exact differential correspondence through h5py",
   design="3/C16"),
 "C17": dict(
   text="Theorems (Coq): for every writer operation sequence not containing close, the file state carries the writing flag, so whatever survives a kill (unreadable, or any earlier state) never opens cleanly (crash_detected, export_crash_detected for every strict prefix of export's operations); a closed file opens clean with complete content (clean_close); mode/existence and remove tables (no_clobber, remove_guard). Tied to /repo by exhaustive decision-table correspondence and by really killing export() and a file-backed PT-TEMPO writer after every _set_data_and_shape call (flushed and unflushed) and inside close().",
   note="Trusted: Coq kernel/vm_compute; Model/PTFile.v; the crash semantics of HDF5 is observed on the real library, not modelled; os._exit stands for process death.",
   technique="Coq invariant over writer operation sequences + crash-point enumeration on the real writer",
   design="3/C17"),
 "C13": dict(
   text="Theorems (Coq): labels are start + k*dt, k = 0..n, n+1 of them, and record_all=False keeps exactly the label of step n (grid_labels, unbounded); Dynamics.add keeps times sorted and every state attached to its time for every sequence of additions (dynamics_sorted, invariant by induction); in binary64 (Coq primitive floats), on the decimal lattice dt=a/100, start in {0,+-0.3,1,2.5,-7.1,100.3}, m<=1000 the step count is m for literal, computed and off-grid end times (num_steps_lattice, 7M points by vm_compute, lifted generically) and tcut<->dkmax round-trips (tcut_dkmax_lattice); the pre-repair truncating formula is refuted. Tied to /repo bit-for-bit: step counts and time labels of Tempo, MeanFieldTempo, PtTempo, compute_dynamics, compute_dynamics_with_field, compute_gradient_and_dynamics, TempoParameters, Dynamics.add against the model on every run.",
   note="Trusted: Coq kernel/vm_compute incl. primitive floats and 63-bit ints (Print Assumptions lists them); Model/TimeGrid.v, Lib/PyFloat.v; Python harness; exact-rational oracle (fractions) for the search. Float statements are finite-lattice statements, the lattice is in the theorem.",
   technique="Coq proof: induction for list/label logic, exhaustive vm_compute sweep over a stated binary64 lattice; bit-exact differential correspondence",
   design="3/C13"),
 "C07": dict(
   text="Theorems (Coq): for any number of operators, any time lists and any value oracle the array built by compute_correlations_nt (rows skipped unless first times ordered, last times masked, values written back under the mask) holds at each index tuple exactly the oracle's value for the steps at those indices if they are non-decreasing and NaN otherwise (aligned, nan_iff_unordered); intervals in both directions incl. those ending at step 0 (interval_spec), lists with negative indices (list_spec), every slice selects valid steps (slice_in_bounds), ints/floats. Tied to /repo exactly: the specification space on small grids through the public API, and values/axes/NaN pattern of 2-4 operator requests and ordered/anti two-time correlations on integer process tensors; searched against an independent dense evaluation.",
   note="Trusted: Coq kernel/vm_compute + primitive floats; Model/Corr.v, Lib/PySem.v, Model/Control.v, Model/PT.v, Model/SuperOps.v; Python harness. Not covered: bath_dynamics.py (no executable model); empty selections are treated as 'nothing requested'.",
   technique="Coq proof (lists/Z arithmetic, lia/nia) + exact integer differential correspondence, exhaustive over small specification grids",
   design="3/C07"),
 "C14": dict(
   text="Theorems (Coq, arbitrary opaque deterministic back-end): any sequence of compute targets equals one compute to the furthest target, reached targets change nothing, labels are 0..t (split_eq_single, reached_target_noop, labels_complete, induction over the call list); fixed-end methods are idempotent (fixed_end_idempotent); a restarted chain computation continues with the same step numbers and network (restart_eq_continue); after a user callable raises the object is in the state of a successful computation to an earlier step and a retry gives the failure-free result (failure_atomic), with refutations for counter-first, late evaluation (mean-field, still in the code: known finding) and repeat-advances. Tied to /repo by running every history of 1-3 targets on real Tempo / MeanFieldTempo / PtTebd objects, repeated compute/get on PtTempo and GibbsTempo, PtTebd restart, and a transient failure at every evaluation index of the user callables.",
   note="Trusted: Coq kernel/vm_compute; Model/History.v; Python harness; determinism of the back-end up to 1e-7 between separate runs. Known finding: MeanFieldTempo failure in a Runge-Kutta stage.",
   technique="Coq proof: state machine over an opaque back-end, induction over call histories + exhaustive small-history and fault enumeration on the implementation",
   design="3/C14"),
 "C19": dict(
   text="Theorems (Coq): the ProgressBar/Timer protocol as a transition system (timer objects, lock-serialised enter/update/exit by the caller, timer firings, pending callbacks running update on the timer thread): for every interleaving of any length, whenever the bar is closed no timer is armed, at most one timer is ever armed, and nothing but a new enter re-opens a closed bar (quiescent, one_timer_at_most, exit_then_nothing_rearms: inductive invariant, unbounded); the unlocked protocol is refuted by a 7-step trace; with a with/finally bracket exit runs for every number of updates and failure point (exit_always). Tied to /repo by replaying every model trace up to a bound on the real ProgressBar with a deterministic Timer, by pre-empting update/exit/callback at each shared-state operation with real threads (outcome must be a serial outcome of the model), by a recording progress class per API x failure point, and by child interpreters with the real Timer.",
   note="Trusted: Coq kernel/vm_compute; Model/Progress.v; Python harness (FakeTimer, scheduler). Not carried by the model: CPython's threading.Timer and interpreter shutdown (observed in child processes only); pre-emption is modelled at Timer construction/start/cancel only.",
   technique="Coq inductive invariant over an interleaving transition system + trace replay / pre-emption injection / fault enumeration on the implementation",
   design="3/C19"),
 "C20": dict(
   text="Theorems (Coq): objects with mutable public parameters, memoised pure methods (memo cleared on every parameter update, as the repaired code does) and copies, for arbitrary parameter/result types and method: for every operation sequence every call answers exactly like a memo-free implementation from the object's current parameters (answers_current: refinement by an inductive 'memo consistent with current parameters' invariant); updates of one object never change another's answers and a copy keeps the parameters it was copied with (derived_unaffected, copy_independent); the pre-repair identity-keyed memo and closure-sharing copy are refuted. Tied to /repo by random new/set/call/copy sequences on PowerLawSD, CustomSD, CustomCorrelations (incl. the copy held by Bath), with the parameter version behind each answer observed through linearity; non-mutation of caller arrays, memory-layout independence and object re-use are explored on six public entry points.",
   note="Trusted: Coq kernel/vm_compute; Model/Cache.v; Python harness. Outside the model (explored only): non-mutation of caller arrays, memory layout, re-use across computations.",
   technique="Coq refinement proof (memoised state machine vs memo-free spec) + differential op-sequence correspondence; layout/mutation search on the implementation",
   design="3/C20"),
 "C02": dict(
   text="Theorems (Coq): TEMPO's row-wise and PT-TEMPO's column-wise tensor networks, modelled operationally (stored MPO, split / replace / shorten per step, grow and end phase), couple every pair of time points with the same influence coefficient for every N, dkmax >= 1, with or without additional correlation time (rows_eq_columns via closed forms tempo_follows_spec / pt_follows_spec by induction over steps), the width-dt rectangle being the square (rect_width_dt_is_square, any ring); full memory follows the spec; the contraction loop is prefix-closed (prefix_consistency). Tied to /repo by running TempoBackend and PtTempoBackend+compute_dynamics on injected integer influences/propagators against the executable exact path-sum model (Model/PathSum.v driven by Model/Schedule.v; 1e-8 relative because SVDs sit in the implementation), by comparing the requested influence keys exactly, and by a public-API search Tempo vs PtTempo at two tolerances.",
   note="Trusted: Coq kernel/vm_compute; Model/Schedule.v, Model/PathSum.v, Model/PT.v; Python harness; back-end level injection. The equality of the two path sums given equal coefficients is by construction of the model (one path-sum function, two schedules); truncation error is explored, not proved.",
   technique="Coq proof (operational schedule models, induction over steps, lia) + differential correspondence against an exact path-sum model",
   design="3/C02"),
 "C01": dict(
   text="Theorems (Coq): the memory settings have their documented meaning for every N, dkmax >= 1, with/without additional correlation time, in both back-ends (cells_spec, long_memory_is_full); tiling over any ring and any twice-integrated correlation function: the cells of the first n steps sum to G(n)-G(0) at full memory and with cut-off plus unbounded additional correlation time, rectangles being exactly the omitted squares (tiling, rectangle_covers_omitted_squares); the independent-boson collapse over any commutative ring, every dimension, step count, memory setting and basis change: a diagonal inter-point propagator reduces the path sum to one path per basis index with the product amplitude (commuting_closed_form, by a sum-over-paths induction); the decoherence exponent vanishes for populations (populations_constant). Tied to /repo by the back-end path-sum correspondence (as C02), by influence_matrix's requested 2D integrals bit-for-bit on primitive floats and its matrix exactly (np.exp of the model's exact exponent), and by a search against the independent-boson closed form with Gamma from an independent quadrature.",
   note="Trusted: Coq kernel/vm_compute + primitive floats; Model/Schedule.v, Model/Shapes.v, Model/PathSum.v; Python harness; exp enters only through 'exp of a sum = product of exps'. Partial: quadrature accuracy, SVD truncation error and the truncated-oscillator comparison are explored / not covered, not proved.",
   technique="Coq proof (ring-generic sums over paths, telescoping sums, schedule closed forms) + differential correspondence (exact / bit-exact / 1e-8) + closed-form search",
   design="3/C01"),
 "C04": dict(
   text="Theorems (Coq, any commutative ring with conjugation, every dimension and number of dissipators): the Lindbladian built by the code preserves the trace (tr.L = 0, liouvillian_trace) and Hermiticity (liouvillian_herm); the influence exponent vanishes whenever the later index is a population, so tracing out the latest point removes the coupling, and exchanging the branches conjugates it, for triangles, squares and rectangles alike (influence_trace, influence_herm); left/right superoperators act as left/right multiplication (super_operators_act). Tied to /repo exactly: operators.py constructions against the kron form and the index-pair form of the model, Lindbladians of System / TimeDependentSystem on integer inputs. Positivity, unit trace under truncation and the PT-TEBD norm are searched on all five methods (incl. strong coupling, rank-deficient states).",
   note="Trusted: Coq kernel/vm_compute; Model/SuperOps.v, Model/Shapes.v; Python harness. Partial: positivity and the effect of SVD truncation are explored, not proved; the composition of the ingredient theorems into trace/Hermiticity of the whole network is argued in DESIGN.md, not mechanised.",
   technique="Coq proof (ring identities with finite sums, index-pair superoperators) + exact integer differential correspondence + physicality search",
   design="3/C04"),
 "C05": dict(
   text="Theorems (Coq, any commutative ring, any dimension): covariance — with W the superoperator of the basis change and Winv W = 1, everything the TEMPO/PT-TEMPO path sum sees of the system (first half step on the initial state, propagation between consecutive time points in the coupling eigenbasis) is unchanged when the problem is rotated, and the read-out is rotated by W (covariance: matrix-algebra proof over finite sums); for a unitary U the two superoperators the back-ends build are mutually inverse (super_u_inverse), and the premise fails without unitarity (contract_needed_refuted). Tied to /repo by the back-end path-sum correspondence with integer basis-change matrices; the eigen-solver contract is searched on the real Bath (Hermitian operators with repeated/zero eigenvalues, Haar and structured rotations) and covariance through Tempo, PtTempo, MeanFieldTempo.",
   note="Trusted: Coq kernel/vm_compute; Model/SuperOps.v, Model/PathSum.v; Python harness. Conditional on the eigen-solver contract (LAPACK eigh is not modelled; checked on the implementation). Independence of the choice of eigenvectors inside a degenerate eigenspace is covered by the search only.",
   technique="Coq proof (functional matrices, finite sums) conditional on the solver contract + differential correspondence + contract/covariance search",
   design="3/C05"),
 "C06": dict(
   text="Theorems (Coq): class maps by first representative are sound for every list of keys (same key at the representative, representative is the first index of the class, same class iff same key: class_map_sound, representative_is_first, same_class_iff_same_key); the influence coefficient depends on the earlier index only through (commutator, anti-commutator) eigenvalues and on the later one only through the commutator eigenvalue, so evaluating it at class representatives reproduces the full matrix (influence_reduced, any ring, all cell shapes). Tied to /repo by comparing Bath's degeneracy maps with the model as partitions on engineered spectra, by running both back-ends WITH maps and reduced integer influences against the FULL path-sum model, and by a public-API search unique=True vs False (Tempo, PtTempo, MeanFieldTempo, rotated degenerate couplings).",
   note="Trusted: Coq kernel/vm_compute; Model/Degeneracy.v, Model/Shapes.v, Model/PathSum.v; Python harness. The scatter loops that build the reduced dk=0 tensors are tied by correspondence, not proved.",
   technique="Coq proof (lists / first-index class maps; ring identity) + exact partition correspondence + reduced-vs-full path-sum correspondence",
   design="3/C06"),
 "C08": dict(
   text="Theorems (Coq, any commutative ring, every dimension and chain length; a computation is a chain of linear maps on the augmented space): pulling a covector back through a chain applies the transposed maps in reverse order (backprop_reverse_order, induction over the chain with <b,Av> = <A^T b,v>); the objective as a function of one map of the chain is the forward state sandwiched with the back-propagated target — the adjoint tensor (adjoint_tensor_correct); the objective is linear in every single map, which is the chain rule (chain_rule_linearity); same-order back-propagation is refuted on two non-commuting maps. Tied to /repo exactly: with injected integer propagators and propagator derivatives every entry of state_gradient must equal the objective re-evaluated with the half-step propagator replaced by its derivative (1-2 integer environments), the reported dynamics must equal compute_dynamics, and the stored adjoint tensors are compared with the Coq model; finite differences on PT-TEMPO tensors with a parameter-dependent dissipator.",
   note="Trusted: Coq kernel/vm_compute; Model/PT.v, Model/Dyn.v; Python harness; public extension points of ParameterizedSystem. The propagator derivatives (user supplied or numerically differentiated) are a contract.",
   technique="Coq proof (finite-sum linear algebra, induction over the chain) + exact multilinearity correspondence + finite-difference search",
   design="3/C08"),
 "C09": dict(
   text="Theorems (Coq): the two mean-field drivers, modelled separately as they are coded (MeanFieldTempo: derivative call, network step, two Runge-Kutta stages; compute_dynamics_with_field: loop with the update leading into step s, then the derivative call, final update after the loop), evaluate the field equation of motion at the same (time, states, field) triples in the same order and return the same field sequence for every N, start time, dt, initial field and equation of motion, over any number type (methods_agree, induction over steps); the stage arguments are those of Heun's rule (heun_args); over the rationals the field is exact for equations linear in time, for every start time and step count (heun_exact_linear); the pre-repair 'one step late' stages are refuted. Tied to /repo bit-for-bit: every (time, step of the states, field) triple passed to field_eom and every field value of both drivers against the model on primitive floats; side-by-side search with 1-3 systems and state-dependent equations.",
   note="Trusted: Coq kernel/vm_compute + primitive floats (Print Assumptions lists them; heun_exact_linear is closed); Model/MeanField.v; Python harness. System states are an oracle (TEMPO vs PT-TEMPO equality is C02).",
   technique="Coq proof (induction over steps; field arithmetic on Q) + bit-exact call-trace correspondence on primitive floats",
   design="3/C09"),
 "C10": dict(
   text="Theorems (Coq): for every chain length the Trotter layers are (even, odd) / (even, odd, odd, even), every bond lies in exactly one layer, gates of a layer are at least two sites apart (layers_spec); every site's Liouvillian is counted with total weight one (site_factors); for ANY gate function and chain state, computing all gates of a layer of pairwise separated gates from the pre-layer snapshot and writing the results back equals the sequential application (snapshot_eq_sequential), and the results may be written back in any order (any_completion_order, induction over Permutation) — so the multi-thread / multi-process branches equal the sequential one regardless of completion order. Tied to /repo exactly for the layer structure and the site weights extracted from get_nn_full_liouvillians; searched: uncoupled chains vs single-site compute_dynamics with PT-TEMPO tensors, two-site and commuting-gate chains vs dense expm with partial-trace consistency and norm, and the three execution modes in fresh interpreters incl. randomly delayed gate completion.",
   note="Trusted: Coq kernel/vm_compute; Model/Chain.v; Python harness. Partial: whether worker pools start on the host, and Trotter error of long non-commuting chains, are outside the model (the former is exercised in child interpreters).",
   technique="Coq proof (lists, Permutation, footprint commutation) + exact structural correspondence + exactness / execution-mode search",
   design="3/C10"),
 "C11": dict(
   text="Theorems (Coq): the imaginary-time network is the path sum of Model/PathSum.v with one index per slice; for a Hamiltonian commuting with the coupling it collapses to one path per coupling eigenstate with the product weight (gibbs_commuting, any ring / dimension / number of slices); the sum of the cells depends on the total imaginary time only, not on the number of slices (cells_sum_independent_of_slicing = tiling); repeating compute() is the identity (gibbs_idempotent). Tied to /repo by running TIBaseBackend with integer non-symmetric propagators and coefficients -m ln 2 (all weights exact powers of two) against the executable path-sum model at every slice count — which fixes the orientation of the read-out — and by a search through GibbsTempo: commuting models vs Boltzmann weights shifted by the reorganisation energy (independent quadrature), complex Hermitian Hamiltonians at zero / weak coupling vs exp(-H/T)/Z, normalisation, Hermiticity, positivity, repeated compute().",
   note="Trusted: Coq kernel/vm_compute; Model/PathSum.v + Glue instantiation; Python harness. Partial: accuracy of the Matsubara quadrature and the zero-coupling limit for non-commuting H are explored (1e-8 at zero coupling), not proved.",
   technique="Coq proof (sum over paths, tiling) + differential correspondence against an exact integer path-sum model + closed-form search",
   design="3/C11"),
 "C12": dict(
   text="Theorems (Coq + Coquelicot real analysis): for a continuous correlation function with first and second antiderivatives F and G (eta_function), for all cell positions and sizes the 2D integrals over rectangle, square and upper-triangle cells are G(t2)-G(t1)-G(t2-d)+G(t1-d), G(t1+d)-2G(t1)+G(t1-d) and G(t1+d)-G(t1)-d*F(t1) (rectangle_cell, square_cell, triangle_cell: fundamental theorem of calculus twice, affine substitution); the integrand of eta_function is the twice-integrated integrand of correlation() for every frequency, vanishing at 0 (kernel_T0); C(-t)=conj C(t) and Re of the triangle integral >= 0 at kernel level (hermitian_sym_and_positivity); tiling and additivity of rectangles over any ring (tiling, rectangle_splits). Tied to /repo by the shape branch of CustomSD.correlation_2d_integral on an exact dyadic polynomial eta (exact), by closed forms of eta_function / correlation for the ohmic exponential density checked inside Coq with the interval tactic on the values Python returned, and by a search against dblquad of the object's own correlation function (all cut-offs, exponents, T through the overflow-guard crossover; offset triangles; tiling; symmetry; custom vs power law; Matsubara realness).",
   note="Trusted: Coq kernel; the standard library's real-number axioms listed by Print Assumptions (ClassicalDedekindReals.sig_forall_dec, sig_not_dec, Classical_Prop.classic, functional_extensionality_dep) via Coquelicot; for the interval goals additionally the primitive-float axioms of Coq Interval; Python harness. Partial: QUADPACK convergence and the overflow guard are explored, not proved.",
   technique="Coq/Coquelicot proof (FTC, substitution) + exact shape correspondence + interval-arithmetic closed-form checks + direct-integration search",
   design="3/C12"),
 "C15": dict(
   text="Theorems (Coq): in exact (rational) arithmetic, for every shift tau: the argument at which a shifted user function is evaluated, the real step coordinate of a shifted float time relative to the shifted start, and the shift of every label are unchanged / exactly tau (shift_invariance_eval, shift_invariance_step, shift_invariance_label); in binary64 (primitive floats), on the lattice dt = a/100, start as in C13, tau in {+-0.37, 1.234, -5.5}, steps 0..100 and offsets {0, +-0.3} dt, the step assigned to the shifted time equals the step assigned to the original time and equals k (shift_lattice, exhaustive vm_compute sweep lifted generically). Tied to /repo bit-for-bit: the times at which a recording Hamiltonian is evaluated through Tempo and compute_dynamics (start + step*dt + dt/4, + 3dt/4) and the steps float control times are assigned to before/after a shift; searched: shifted vs unshifted runs of Tempo, PtTempo+compute_dynamics, MeanFieldTempo, compute_dynamics_with_field, compute_correlations and float-time controls with time-dependent Hamiltonian, rates, Lindblad operators and field equation.",
   note="Trusted: Coq kernel/vm_compute + primitive floats; Model/TimeGrid.v, Model/Control.v, Model/Corr.v; Python harness. The inventory of places where explicit times enter is established by reading the code and by the bit-exact correspondences of C13, C09, C18, C07; in binary64 covariance holds up to rounding (the float statement is a finite-lattice statement).",
   technique="Coq proof (field identities on Q; exhaustive primitive-float lattice sweep) + bit-exact evaluation-time correspondence + shifted-run search",
   design="3/C15"),
}

NOT_YET = {}

def main():
    props = [json.loads(l) for l in open(os.path.join(ROOT, "properties.jsonl"))]
    checks, na = [], []
    for p in props:
        pid = p["id"]
        if pid in CHECKS:
            c = CHECKS[pid]
            checks.append({
                "property_id": pid,
                "quick_cmd": f"./check {pid} --tier quick",
                "thorough_cmd": f"./check {pid} --tier thorough",
                "evidence_file": f"/verif/evidence/{pid}.json",
                "replay_cmd_template": f"./check {pid} --replay {{path}}",
                "engine": "coq+correspondence",
                "level_claimed": {"category": c.get("category", "proof"), "text": c["text"], "design_ref": c["design"]},
                "level_note": c["note"],
                "technique": c["technique"],
            })
        else:
            na.append({"property_id": pid, "reason": NOT_YET.get(pid, "machinery for this property is not built yet in this snapshot (work in progress, see DESIGN.md section 8); not claimed")})
    m = {
        "version": 1,
        "setup_cmd": "./setup.sh",
        "hooks": {"guard": "TEMPOCOLLABORATION_OQUPY_VERIF",
                  "enable": "no source hooks are needed: checks import /repo's working tree directly (PYTHONPATH=/repo) and observe through public extension points",
                  "baseline_off_cmd": "cd /repo && /venv/bin/python -m pytest -ra -q -p no:cacheprovider --timeout=900 --continue-on-collection-errors",
                  "source_commits": [], "add_only": True},
        "engines": [{"name": "coq+correspondence", "path": "/verif/coq, /verif/harness",
                     "serves_properties": sorted(CHECKS),
                     "kind_free_text": "Coq 8.16.1 development (models, proofs, Props/Cxx.v with Print Assumptions) + Python differential harness evaluating the models with Eval vm_compute against /repo"}],
        "checks": checks,
        "not_applicable": na,
        "notes": "See DESIGN.md. known_findings.json lists recorded findings (read-only at run time).",
    }
    json.dump(m, open(os.path.join(ROOT, "MANIFEST.json"), "w"), indent=1)
    print("checks:", len(checks), "not claimed:", len(na))

if __name__ == "__main__":
    main()
