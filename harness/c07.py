"""C07 — multi-time correlations are exact and aligned with the returned time axes."""
import itertools
import math
import warnings
import numpy as np
import oqupy
from oqupy import process_tensor as ptm
from oqupy.operators import left_super, right_super

from harness.common import run_cases, ints, gflat, coq_list, zlit, float_lit, vec_lit, fbits
from harness.impl import gint, InjSystem, rand_intpt, quiet, mat_lit
from harness.ref import ref_dynamics, mpo_transformed

HEADER = """From Coq Require Import ZArith List Bool PrimFloat.
From OQ Require Import Lib.RingSum Lib.Tensor Lib.Mat Lib.PyFloat Lib.PySem Model.PT Model.Control Model.Corr Model.BathTable Model.Glue.
Import ListNotations. Open Scope Z_scope."""


def oz(x):
    return "None" if x is None else f"(Some {zlit(x)})"


def spec_lit(s):
    if isinstance(s, int):
        return f"TInt {zlit(s)}"
    if isinstance(s, slice):
        return f"TSlice {oz(s.start)} {oz(s.stop)} {oz(s.step)}"
    if isinstance(s, list):
        return f"TList {coq_list([zlit(i) for i in s])}"
    if isinstance(s, float):
        return f"TFloat {float_lit(s)}"
    if isinstance(s, tuple):
        return f"TInterval {float_lit(s[0])} {float_lit(s[1])}"
    raise TypeError(s)


def ident_pt(d, N, dt):
    pt = ptm.SimpleProcessTensor(d, dt=dt)
    for k in range(N):
        pt.set_mpo_tensor(k, np.ones((1, 1, d * d), dtype=complex))
    for k in range(N + 1):
        pt.set_cap_tensor(k, np.ones(1, dtype=complex))
    return pt


def rand_spec(rng, N, dt, start):
    kind = rng.choice(["int", "slice", "list", "float", "interval", "interval", "list"])
    r = lambda: rng.choice([None] + list(range(-N - 2, N + 3)))
    if kind == "int":
        return rng.randint(-1, N + 1)
    if kind == "slice":
        return slice(r(), r(), rng.choice([None, 1, 1, 2, -1, -1, -2, 3]))
    if kind == "list":
        return [rng.randint(-N - 1, N) if rng.random() < 0.9 else rng.randint(-N - 3, N + 2) for _ in range(rng.randint(1, 3))]
    off = lambda: rng.choice([0.0, 0.0, 0.3, -0.3, 0.45])
    if kind == "float":
        return float(start + (rng.randint(0, N) + off()) * dt)
    return (float(start + (rng.randint(0, N) + off()) * dt), float(start + (rng.randint(0, N) + off()) * dt))


def steps_of(spec, N, dt, start):
    """The specification's own meaning (python semantics), independent of the library."""
    rnd = lambda t: int(np.round((t - start) / dt))
    if isinstance(spec, int):
        return [spec] if 0 <= spec <= N else None
    if isinstance(spec, slice):
        try:
            return list(range(N + 1))[spec]
        except ValueError:
            return None
    if isinstance(spec, list):
        try:
            return [list(range(N + 1))[i] for i in spec]
        except IndexError:
            return None
    if isinstance(spec, float):
        i = rnd(spec)
        return [i] if 0 <= i <= N else None
    i0, i1 = rnd(spec[0]), rnd(spec[1])
    if not (0 <= i0 <= N and 0 <= i1 <= N):
        return None
    return list(range(i0, i1 + 1)) if i0 <= i1 else list(range(i0, i1 - 1, -1))


def flat_result(times, corr):
    out = [1]
    for ts in times:
        out.append(len(ts))
        for t in ts:
            out += fbits(t)
    for z in np.asarray(corr).reshape(-1):
        if np.isnan(z.real) or np.isnan(z.imag):
            out.append(0)
        else:
            out += [1, int(z.real), int(z.imag)]
    return out


def call_nt(sysm, pt, ops, specs, orders, rho0, start, dt=None):
    with warnings.catch_warnings():
        warnings.simplefilter("ignore")
        return quiet(oqupy.compute_correlations_nt, system=sysm, process_tensor=pt, operators=ops, ops_times=specs,
                     ops_order=orders, initial_state=rho0, start_time=start, dt=dt, progress_type="silent")


def bath_modes(chk, n, exprs=None, expected=None, meta=None):
    """pure-dephasing model: bath-mode occupations and two-time bath correlations derived from the system
    correlations against the displaced-oscillator (independent boson) closed form"""
    from oqupy.bath_dynamics import TwoTimeBathCorrelations
    rng = chk.rng

    def exact_occupation(t, w, g, temp):
        out = g ** 2 / w ** 2 * (2 - 2 * np.cos(w * t))
        return out + ((np.exp(w / temp) - 1) ** (-1) if temp > 0 else 0.0)

    def exact_correlation(t_1, t_2, w_1, w_2, dagg, g_1, g_2, temp):
        ph_1 = np.exp(1j * (2 * dagg[1] - 1) * w_1 * t_1)
        ph_2 = np.exp(1j * (2 * dagg[0] - 1) * w_2 * t_2)
        # free part (equal frequencies only): <a(t2) a^+(t1)> = (n+1) e^{-iw(t2-t1)}, <a^+(t2) a(t1)> = n e^{+iw(t2-t1)}
        nth = (np.exp(w_1 / temp) - 1) ** (-1) if temp > 0 else 0.0
        out = 0
        if w_1 == w_2 and dagg == (0, 1):
            out = nth + 1
        elif w_1 == w_2 and dagg == (1, 0):
            out = nth
        out *= ph_1 * ph_2
        return out + (ph_1 * ph_2 - ph_1 - ph_2 + 1) * (g_1 * g_2) / (w_1 * w_2)
    for it in range(n):
        T = [0.5, 0.0, 2.0][it % 3]            # every run: cold (n ~ 0.1), zero and hot baths
        alpha, wc = rng.choice([0.1, 0.3]), rng.choice([4.0, 10.0])
        dt = rng.choice([0.1, 0.05])
        nst = rng.randint(6, 10)
        up = rng.random() < 0.5
        w0, w1 = rng.choice([1.0, 2.5]), rng.choice([1.0, 3.0])
        corr = oqupy.PowerLawSD(alpha=alpha, zeta=1.0, cutoff=wc, cutoff_type="exponential", temperature=T)
        sz = np.array([[1.0, 0], [0, -1.0]])
        # every second case: the same pure-dephasing model in a rotated basis (coupling and Hamiltonian along another axis,
        # complex eigenvectors for sigma_y): the closed form does not change
        axis = ["z", "y", "n", "x"][it % 4]          # n: a direction with x, y and z components (eigenvectors neither real nor those of sigma_y)
        if axis == "n":
            sz = 0.36 * np.array(oqupy.operators.sigma("x")) + 0.48 * np.array(oqupy.operators.sigma("y")) + 0.8 * np.array(oqupy.operators.sigma("z"))
        elif axis != "z":
            sz = np.array(oqupy.operators.sigma(axis))
        bath = oqupy.Bath(sz, corr)
        sysm = oqupy.System(rng.choice([0.0, 1.0, -0.7]) * sz)
        par = oqupy.TempoParameters(dt=dt, epsrel=1e-8, dkmax=None)
        info = {"kind": "bath-modes", "axis": axis, "T": T, "alpha": alpha, "dt": dt, "steps": nst, "initial": "up" if up else "down", "w": [w0, w1]}
        try:
            pt = quiet(oqupy.pt_tempo_compute, bath, 0.0, nst * dt + 1e-9, parameters=par, progress_type="silent")
            rho0 = (np.eye(2) + (1 if up else -1) * sz) / 2          # eigenstate of the coupling operator
            tb = TwoTimeBathCorrelations(sysm, bath, pt, initial_state=rho0.astype(complex))
            # options: band width (g^2 = J dw for the occupation, g = dw sqrt(J) for each operator of a correlation),
            # change_only (without the initial thermal part), interaction_picture (without the free phases)
            dwo = rng.choice([1.0, 0.5, 2.0])
            ch_o = rng.random() < 0.5
            g0, g1 = corr.spectral_density(w0) ** 0.5, corr.spectral_density(w1) ** 0.5
            bad = False

            def ask_occupation():
                tl_, occ_ = quiet(tb.occupation, w0, dw=dwo, change_only=ch_o, progress_type="silent")
                want_ = exact_occupation(np.array(tl_), w0, g0 * dwo ** 0.5, T if not ch_o else 0.0)
                if not np.allclose(occ_, want_, rtol=1e-4, atol=1e-6):
                    info["first_bad"] = {"occupation": True, "dw": dwo, "change_only": ch_o}
                    return tl_, True
                return tl_, False
            # the order of the questions put to the ONE object: occupation first (the whole table of system correlations is
            # generated at once), or correlations first, at increasing times (the table grows from question to question)
            occupation_first = it % 2 == 0
            info["question_order"] = "occupation first" if occupation_first else "correlations at increasing times first"
            if occupation_first:
                tl, bad = ask_occupation()
            else:
                tl = np.array([k * dt for k in range(nst + 1)])
            dws = rng.choice([(1.0, 1.0), (0.5, 2.0), (2.0, 1.0)])
            ch_c, ip_c = rng.random() < 0.4, rng.random() < 0.4
            info["options"] = {"dw": dws, "change_only": ch_c, "interaction_picture": ip_c}
            sel = len(tl) // 2
            w_other = w1 if w1 != w0 else 3.0
            g_other = corr.spectral_density(w_other) ** 0.5
            # every dagger pattern at equal AND at different frequencies, at different and at equal times
            pairs = [(w0, g0, w0, g0), (w0, g0, w_other, g_other)]
            tpairs = [(tl[sel], tl[-1]), (tl[-1], tl[-1])] if it % 2 == 0 else [(tl[sel], tl[-1]), (tl[sel], tl[sel])]
            # regions of a single cell; it == 1 (every run): the FIRST question to the fresh object is about the first time step only
            tpairs += [(tl[1], tl[-1]), (tl[1], tl[1])] if (it % 3 == 0 or it == 1) else [(tl[1], tl[2])]
            if not occupation_first:
                tpairs = sorted(tpairs, key=lambda p_: max(p_))
            for (wa, ga, wb, gb) in pairs:
                for (ta, tb_) in tpairs:
                    for dagg in ((0, 0), (0, 1), (1, 0), (1, 1)):
                        got = quiet(tb.correlation, wa, ta, wb, tb_, dagg=dagg, dw=dws, change_only=ch_c, interaction_picture=ip_c,
                                    progress_type="silent")
                        ex = exact_correlation(ta, tb_, wa, wb, dagg, ga * dws[0], gb * dws[1], T)
                        if ch_c or ip_c:
                            ph = np.exp(1j * (2 * dagg[1] - 1) * wa * ta) * np.exp(1j * (2 * dagg[0] - 1) * wb * tb_)
                            free = 0.0
                            if wa == wb and dagg in ((0, 1), (1, 0)):
                                free = ((np.exp(wa / T) - 1) ** (-1) if T > 0 else 0.0) + (1 if dagg == (0, 1) else 0)
                            if ch_c:
                                ex = ex - free * ph
                            if ip_c:
                                ex = ex / ph
                        if not np.allclose(got, ex, rtol=1e-4, atol=1e-6):
                            bad = True
                            if "first_bad" not in info:
                                info["first_bad"] = {"freq": [wa, wb], "times": [float(ta), float(tb_)], "dagg": list(dagg), "got": complex(got), "exact": complex(ex)}
            if not occupation_first:
                bad = ask_occupation()[1] or bad
            # the table of system correlations of a fresh object under a sequence of questions (Model/BathTable.v, theorem
            # every_question_answerable): after every question its first dimension and the number of entries of its first row
            if exprs is not None:
                tb2 = TwoTimeBathCorrelations(sysm, bath, pt, initial_state=rho0.astype(complex))
                dims = [1 if it % 2 == 1 else rng.randint(1, nst)] + [rng.randint(1, nst) for _ in range(3)]
                seen = []
                for q_, dm_ in enumerate(dims):
                    quiet(tb2.correlation, w0, dt * max(dm_ - 1, 0), w0, dt * dm_, dagg=(1, 0), progress_type="silent")
                    tab_ = np.asarray(tb2._system_correlations)
                    seen += [int(tab_.shape[0]), int(np.sum(np.isfinite(tab_[0]))) if tab_.size else 0]
                exprs.append("flat_map (fun k => let t := bt_run false (firstn k " + coq_list([str(x_) for x_ in dims]) + "%nat) in "
                             "[Z.of_nat (rows t); Z.of_nat (filled t)]) (seq 1 " + str(len(dims)) + ")")
                expected.append(seen)
                meta.append({"kind": "bath-table", "question_dims": dims})
        except Exception as ex_:
            chk.fail("bath-modes-raise", f"TwoTimeBathCorrelations raises {ex_!r}", info)
            continue
        chk.search_cases += 1
        chk.count("bath_modes")
        chk.case(info, ("bath", T, alpha, dt, nst, up, w0, w1))
        if bad:
            chk.fail("bath-modes-wrong", "bath-mode occupation / two-time bath correlation of a pure-dephasing model deviates from the "
                     "displaced-oscillator closed form", info)


def run(chk):
    rng = chk.rng
    thorough = chk.tier == "thorough"
    chk.proofs()
    exprs, expected, meta = [], [], []

    # ---- (a) the specification space on small grids, through the public API ------------
    sysI = InjSystem(2, [(np.identity(4, dtype=complex), np.identity(4, dtype=complex))])
    rho = np.eye(2, dtype=complex) / 2
    opI = np.eye(2, dtype=complex)
    specs = []
    for N in ([2, 3, 4] if thorough else [2, 4]):
        rngv = [None] + list(range(-N - 1, N + 2))
        all_slices = [slice(a, b, c) for a in rngv for b in rngv for c in (None, 1, 2, -1, -2, 0)]
        all_ints = list(range(-2, N + 3))
        all_lists = [list(p) for r in (1, 2) for p in itertools.product(range(-N - 2, N + 2), repeat=r)]
        pool = [(N, s) for s in all_ints] + [(N, s) for s in all_lists]
        sl = [(N, s) for s in all_slices]
        rng.shuffle(sl)
        pool += sl if thorough else sl[:250]
        grid = [0.0 + k * 0.25 for k in range(N + 1)]
        for t0 in grid + [g + 0.07 for g in grid] + [g - 0.11 for g in grid]:
            pool.append((N, float(t0)))
            for t1 in grid + [grid[-1] + 0.1, grid[0] - 0.05]:
                pool.append((N, (float(t0), float(t1))))
        specs += pool
    if not thorough:
        rng.shuffle(specs)
        specs = specs[:900]
    pts = {N: ident_pt(2, N, 0.25) for N in (2, 3, 4)}
    for N, s in specs:
        if steps_of(s, N, 0.25, 0.0) == []:
            chk.count("spec_empty_skipped")
            continue            # nothing requested: outside the property
        try:
            times, corr = call_nt(sysI, pts[N], [opI, opI], [0, s], ["left", "left"], rho, 0.0)
            got_steps = [int(round(t / 0.25)) for t in times[1]]
            exp = [len(got_steps)] + got_steps
            if len(corr.reshape(-1)) != len(got_steps) or np.isnan(corr).any():
                chk.fail("spec-entries", f"times spec {s!r}: entries missing for ordered times", {"N": N, "spec": repr(s)})
        except IndexError:
            exp = [-1]
        except Exception as ex:
            exp = [-2]
            chk.fail("spec-crash", f"times spec {s!r} on a {N}-step grid raises {ex!r}", {"N": N, "spec": repr(s)})
        want = steps_of(s, N, 0.25, 0.0)
        chk.search_cases += 1
        if exp not in ([-2],):
            wexp = [-1] if want is None else [len(want)] + want
            if wexp != exp:
                chk.fail("spec-meaning", f"times spec {s!r} on a {N}-step grid selects {exp[1:] if exp != [-1] else 'IndexError'}, "
                         f"python semantics gives {want}", {"N": N, "spec": repr(s)})
        exprs.append(f"parse_flat ({spec_lit(s)}) {N} {float_lit(0.25)} {float_lit(0.0)}")
        expected.append(exp)
        kind = type(s).__name__
        meta.append({"kind": "parse", "N": N, "spec": repr(s)})
        chk.count("spec_" + kind)
        chk.case(meta[-1], ("parse", N, repr(s)))

    # ---- (b) values + axes + NaN pattern on integer process tensors ----------------------
    n_b = 160 if thorough else 60
    for i in range(n_b):
        d = rng.choice([1, 2, 2])
        d2 = d * d
        N = rng.randint(1, 4)
        dt, start = rng.choice([0.1, 0.25, 0.3]), rng.choice([0.0, 1.0, -0.7])
        p = rand_intpt(rng, d, N, maxbond=2, lo=-1, hi=1, real=False)
        p.dt = dt
        nops = rng.choice([2, 2, 2, 3, 3, 4])
        ops = [gint(rng, (d, d), -1, 1) for _ in range(nops)]
        orders = [rng.choice(["left", "right"]) for _ in range(nops)]
        sp = [rand_spec(rng, N, dt, start) for _ in range(nops)]
        if nops >= 3:   # keep the array small
            sp = [s if not isinstance(s, slice) else rng.randint(0, N) for s in sp[:-1]] + [sp[-1]]
        if i in (2, 3):
            # every run: four operators whose first three time specifications are lists in descending / mixed order over the
            # whole grid: every ordering pattern of (t1, t2, t3) occurs, incl. t1 > t2 <= t3
            N = max(N, 2)
            p = rand_intpt(rng, d, N, maxbond=2, lo=-1, hi=1, real=False)
            p.dt = dt
            nops = 4
            ops = [gint(rng, (d, d), -1, 1) for _ in range(nops)]
            orders = [rng.choice(["left", "right"]) for _ in range(nops)]
            grid = list(range(N + 1))
            sp = [sorted(rng.sample(grid, min(len(grid), 2)), reverse=True), sorted(rng.sample(grid, min(len(grid), 2))),
                  sorted(rng.sample(grid, min(len(grid), 2)), reverse=(i == 3)), slice(None)]
        props = [(gint(rng, (d2, d2), -1, 1), gint(rng, (d2, d2), -1, 1)) for _ in range(N)]
        rho0 = gint(rng, (d, d), -1, 1)
        sysm = InjSystem(d, props, start=start)     # time-dependent: the propagators belong to this start time only
        info = {"kind": "nt", "d": d, "N": N, "dt": dt, "start": start, "orders": orders, "specs": [repr(s) for s in sp]}
        want_steps = [steps_of(s, N, dt, start) for s in sp]
        if any(w == [] for w in want_steps):
            continue
        try:
            times, corr = call_nt(sysm, p.build(), ops, sp, orders, rho0, start)
            if np.nanmax(np.abs(np.nan_to_num(corr))) > 2 ** 45 if corr.size else False:
                continue
            exp = flat_result(times, corr)
        except IndexError:
            exp = [0]
            times = None
        except Exception as ex:
            exp = ["exception", repr(ex)]
            times = None
            chk.fail("nt-crash", f"compute_correlations_nt raises {ex!r}", info)
        chk.search_cases += 1
        # ---- property oracle (independent dense evaluation, exact integers) ----
        if times is not None and all(w is not None for w in want_steps):
            env = dict(mpos=[mpo_transformed(m, p.tin, p.tout) for m in p.mpos], caps=p.caps)
            ok = list(corr.shape) == [len(w) for w in want_steps]
            ok = ok and all(list(t) == [start + dt * k for k in w] for t, w in zip(times, want_steps))
            if ok:
                for idx in itertools.product(*[range(len(w)) for w in want_steps]):
                    st = [w[j] for w, j in zip(want_steps, idx)]
                    val = corr[idx]
                    if any(b < a for a, b in zip(st, st[1:])):
                        ok = ok and np.isnan(val)
                        continue
                    pre = {}
                    for o, od, s_ in zip(ops[:-1], orders[:-1], st[:-1]):
                        S = left_super(o) if od == "left" else right_super(o)
                        pre[s_] = S @ pre[s_] if s_ in pre else S
                    states = ref_dynamics(d2, [env], pre, {}, props, rho0.reshape(-1), st[-1])
                    wantv = np.trace(ops[-1] @ states[st[-1]].reshape(d, d))
                    ok = ok and (not np.isnan(val)) and val == wantv
                    if not ok:
                        break
            if not ok:
                chk.fail("nt-misaligned", "an entry of compute_correlations_nt is not the correlation for the times returned at its indices "
                         "(or the NaN pattern is not 'exactly the unordered entries')", info)
        elif times is None and exp == [0] and all(w is not None for w in want_steps):
            chk.fail("nt-rejects-valid", "compute_correlations_nt raises IndexError for valid time specifications", info)
        opl = coq_list([f"({'true' if od == 'left' else 'false'}, {mat_lit(o)})" for o, od in zip(ops, orders)])
        pl = coq_list([f"({mat_lit(a)}, {mat_lit(b)})" for a, b in props])
        exprs.append(f"corr_nt_flat {d} [{p.coq(N)}] {pl} {vec_lit(rho0.reshape(-1))} {opl} "
                     f"{coq_list([spec_lit(s) for s in sp])} {N} {float_lit(dt)} {float_lit(start)}")
        expected.append(exp)
        meta.append(info)
        chk.count(f"nt_ops{nops}")
        chk.case(info, ("nt", d, N, nops, tuple(orders), tuple(type(s).__name__ for s in sp)))

    # ---- (c) compute_correlations ordered / anti ; (d) caller's dt -------------------------
    n_c = 60 if thorough else 25
    for i in range(n_c):
        d, N = 2, rng.randint(1, 3)
        dt, start = 0.25, rng.choice([0.0, 1.0])
        p = rand_intpt(rng, d, N, maxbond=2, lo=-1, hi=1)
        stored = rng.choice([dt, None])
        p.dt = stored
        A, B = gint(rng, (d, d), -1, 1), gint(rng, (d, d), -1, 1)
        sa, sb = rand_spec(rng, N, dt, start), rand_spec(rng, N, dt, start)
        props = [(gint(rng, (4, 4), -1, 1), gint(rng, (4, 4), -1, 1)) for _ in range(N)]
        rho0 = gint(rng, (d, d), -1, 1)
        sysm = InjSystem(d, props, start=start)
        info = {"kind": "two-time", "N": N, "stored_dt": stored, "specs": [repr(sa), repr(sb)]}
        wa, wb = steps_of(sa, N, dt, start), steps_of(sb, N, dt, start)
        if not wa or not wb:
            continue
        chk.search_cases += 1
        try:
            with warnings.catch_warnings():
                warnings.simplefilter("ignore")
                t_o, c_o = quiet(oqupy.compute_correlations, sysm, p.build(), A, B, sa, sb, "ordered", rho0, start, dt, "silent")
                t_a, c_a = quiet(oqupy.compute_correlations, sysm, p.build(), A, B, sa, sb, "anti", rho0, start, dt, "silent")
        except Exception as ex:
            chk.fail("two-time-crash", f"compute_correlations (stored dt {stored}, dt={dt} passed) raises {ex!r}", info)
            continue
        env = dict(mpos=[mpo_transformed(m, p.tin, p.tout) for m in p.mpos], caps=p.caps)
        ok = c_o.shape == (len(wa), len(wb)) == c_a.shape
        ok = ok and list(t_o[0]) == [start + dt * k for k in wa] and list(t_o[1]) == [start + dt * k for k in wb]
        ok = ok and list(t_a[0]) == list(t_o[0]) and list(t_a[1]) == list(t_o[1])
        if ok:
            for ia, ka in enumerate(wa):
                for ib, kb in enumerate(wb):
                    # ordered: <B(tb) A(ta)> for ta <= tb ; anti: A and B exchanged, B acting from the right
                    if ka <= kb:
                        st = ref_dynamics(4, [env], {ka: left_super(A)}, {}, props, rho0.reshape(-1), kb)
                        ok = ok and c_o[ia, ib] == np.trace(B @ st[kb].reshape(d, d))
                    else:
                        ok = ok and np.isnan(c_o[ia, ib])
                    if kb <= ka:
                        st = ref_dynamics(4, [env], {kb: right_super(B)}, {}, props, rho0.reshape(-1), ka)
                        ok = ok and c_a[ia, ib] == np.trace(A @ st[ka].reshape(d, d))
                    else:
                        ok = ok and np.isnan(c_a[ia, ib])
        if not ok:
            chk.fail("two-time-misaligned", "compute_correlations: entries / axes / NaN pattern wrong for 'ordered' or 'anti'", info)
        chk.count("two_time")
        chk.case(info, ("2t", N, stored, type(sa).__name__, type(sb).__name__))
    # a caller's dt that contradicts the stored one must not silently relabel the axes
    p = rand_intpt(rng, 2, 2, maxbond=1, lo=-1, hi=1)
    p.dt = 0.1
    props = [(np.identity(4, dtype=complex),) * 2] * 2
    chk.search_cases += 1
    try:
        t, c = call_nt(InjSystem(2, props), p.build(), [np.eye(2), np.eye(2)], [0, slice(None)], ["left", "left"], np.eye(2) / 2, 0.0, dt=0.2)
        chk.fail("dt-relabels-axes", "a dt differing from the stored one is accepted: axes use the caller's dt, the dynamics the stored one",
                 {"stored": 0.1, "passed": 0.2, "axes": [list(x) for x in t]})
    except Exception:
        pass

    bath_modes(chk, 10 if thorough else 3, exprs, expected, meta)

    vals, errs = run_cases("C07", HEADER, exprs, chunk=120)
    for e in errs:
        chk.disagree("coq evaluation", e)
    for v, exp, m in zip(vals, expected, meta):
        got = ints(v)
        if got != exp:
            chk.disagree(m["kind"], {"meta": m, "impl": exp[:50], "model": (got or [])[:50]})

    # ---- a real TimeDependentSystem whose Hamiltonian commutes with itself at all times (H(t) = f(t)/2 sigma_x: the integrated
    # propagators are exact) with an empty environment: every entry against the closed form at exactly the returned times; the
    # SAME system and process tensor objects serve a sequence of calls with different start times (a scan of a pulse sequence)
    from scipy.linalg import expm as _expm
    sxx, syy, szz, smm = (oqupy.operators.sigma(k_) for k_ in "xyz-")
    for it in range(3 if thorough else 1):
        c1_, c2_ = rng.choice([1.0, 2.0]), rng.choice([2.0, 3.0])
        f_ = lambda t: 1.0 + c1_ * t + c2_ * np.sin(t)
        F_ = lambda t: t + c1_ * t * t / 2 - c2_ * np.cos(t)
        U_ = lambda tb, ta: _expm(-0.5j * sxx * (F_(tb) - F_(ta)))
        N_, dt_ = 6, 0.1
        td_sys = oqupy.TimeDependentSystem(lambda t: 0.5 * f_(t) * sxx)
        ept = oqupy.process_tensor.SimpleProcessTensor(hilbert_space_dimension=2, dt=dt_)
        for k_ in range(N_):
            ept.set_mpo_tensor(k_, np.identity(4).reshape(1, 1, 4, 4))
        ept.compute_caps()
        r0_ = np.array([[0.7, 0.2 - 0.1j], [0.2 + 0.1j, 0.3]])
        oa_, ob_ = szz + 0.5 * smm, syy + 0.25j * szz
        starts = [0.0, rng.choice([1.5, 0.8]), -0.7, 0.0]
        worst_, where_ = 0.0, None
        try:
            for s0_ in starts:
                tt_, cc_ = quiet(oqupy.compute_correlations, system=td_sys, process_tensor=ept, operator_a=oa_, operator_b=ob_, times_a=[4, 0, 2],
                                 times_b=slice(None, None, -1), time_order="ordered", initial_state=r0_, start_time=s0_, progress_type="silent")
                for i_, ta_ in enumerate(tt_[0]):
                    for j_, tb_ in enumerate(tt_[1]):
                        if tb_ < ta_ - 1e-12:
                            continue
                        u1_ = U_(ta_, s0_)
                        u2_ = U_(tb_, ta_)
                        ref_ = np.trace(ob_ @ u2_ @ (oa_ @ u1_ @ r0_ @ u1_.conj().T) @ u2_.conj().T)
                        e_ = abs(cc_[i_, j_] - ref_)
                        if not e_ <= worst_:
                            worst_, where_ = e_, (s0_, float(ta_), float(tb_))
        except Exception as ex:
            chk.fail("correlations-raise", f"compute_correlations raises {ex!r} on a system object used for several start times", {"starts": starts})
            continue
        chk.search_cases += 1
        chk.count("closed_form_start_time_scan")
        chk.case({"kind": "start-time scan", "starts": starts}, ("scan", tuple(starts), c1_, c2_))
        if not worst_ <= 1e-6:
            chk.fail("value-at-returned-times", f"compute_correlations with one TimeDependentSystem object used for the start times {starts}: an entry deviates by "
                     f"{worst_:.2e} from the exact correlation at the returned times (start_time, t_a, t_b) = {where_}", {"starts": starts, "where": where_})

    return chk.finish(
        level="proof",
        trusted=["models: Model/Corr.v, Lib/PySem.v (Python slice/list semantics), Model/Control.v, Model/PT.v, Model/SuperOps.v",
                 "values are exact integers (integer process tensors, injected propagators)",
                 "search oracle: independent dense evaluation of the multi-time correlation (harness/ref.py)"],
        rule="every int, every 1-2 element list, sampled (thorough: all) slices with start/stop in [-N-1,N+1] u {None} and steps {None,1,2,-1,-2,0}, "
             "floats and intervals in both directions on and off the grid, for N in {2,4} (thorough 2,3,4); random 2-4 operator requests "
             "with left/right orders on integer process tensors; ordered/anti two-time correlations with and without stored dt; "
             "distinct = distinct specification / (sizes, orders, spec kinds)",
        assumptions=["bath_dynamics.py (bath occupations / correlations from system correlations) has no executable model: it is only explored against the displaced-oscillator closed form on pure-dephasing models",
                     "the step a float time lands on is np.round((t-start)/dt), modelled on primitive floats"])
