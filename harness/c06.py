"""C06 — degeneracy reduction (unique=True) never changes results."""
import numpy as np
import oqupy

from harness.common import run_cases, ints, coq_list, zlit
from harness.impl import gint, quiet, InjSystem
from harness import pathsum as ps
from harness import c02

HEADER = c02.HEADER.replace("Model.Glue.", "Model.Degeneracy Model.Glue.")
_corr = oqupy.PowerLawSD(alpha=0.1, zeta=1, cutoff=2.0, cutoff_type="exponential", temperature=0.3)


def canon(m):
    """renumber classes by first occurrence"""
    seen, out = {}, []
    for x in m:
        x = int(x)
        if x not in seen:
            seen[x] = len(seen)
        out.append(seen[x])
    return out


def first_reps(m):
    m = list(map(int, m))
    return [m.index(c) for c in sorted(set(m), key=m.index)]


def run(chk):
    rng = chk.rng
    thorough = chk.tier == "thorough"
    chk.proofs()
    exprs, expected, meta = [], [], []
    # ---- (a) Bath's degeneracy maps vs the class-map model (as partitions) ---------------------
    for it in range(150 if thorough else 60):
        d = rng.choice([2, 3, 3, 4, 5])
        pool = rng.choice([[0, 1], [-1, 0, 1], [0, 1, 2, 3], [-2, -1, 0, 1, 2, 4], [0.5, 1.0, 1.5], [0, 0.125, 0.25, 0.375, 1]])
        o = [rng.choice(pool) for _ in range(d)]
        scale_ = 8
        if it < 4:
            # every run: spectra with values that nearly coincide (relative 4e-6 .. 1e-5) without coinciding: only equal sums
            # and differences may share a class, whatever their size
            d = 3
            o = [[1.0, 0.999994, -0.3], [50.0, 50.0004, 49.0], [0.999994, -0.3, 1.0], [2000.0, 2000.01, 0.0]][it]
            scale_ = 10 ** 7
        bath = oqupy.Bath(np.diag(np.array(o, dtype=float)), _corr)
        comm = [int(round(scale_ * (o[i] - o[j]))) for i in range(d) for j in range(d)]
        acomm = [int(round(scale_ * (o[i] + o[j]))) for i in range(d) for j in range(d)]
        north, west = bath.north_degeneracy_map, bath.west_degeneracy_map
        info = {"kind": "maps", "o": o}
        for name, m, keys in (("north", north, list(zip(comm, acomm))), ("west", west, [(c, 0) for c in comm])):
            exprs.append("class_flat " + coq_list([f"({zlit(a)}, {zlit(b)})" for a, b in keys]))
            expected.append(("ints", canon(m) + [777] + first_reps(m), 0))
            meta.append(dict(info, map=name))
            chk.case(meta[-1], (name, tuple(o)))
            chk.count("map_" + name)
            # property oracle: same class <=> same key
            chk.search_cases += 1
            mm = list(map(int, m))
            for i in range(d * d):
                for j in range(d * d):
                    if (mm[i] == mm[j]) != (keys[i] == keys[j]):
                        chk.fail("degeneracy-map-wrong", f"Bath.{name}_degeneracy_map groups indices with different eigenvalue sums/differences (or splits equal ones)", dict(info, map=name))
                        break
                else:
                    continue
                break

    # ---- (b) back-ends with degeneracy maps and reduced integer influences vs the FULL path sum ---
    for it in range(40 if thorough else 14):
        d, d2 = 2, 4
        o = rng.choice([[0, 1], [1, 1], [0, 2], [-1, 1]])
        bath = oqupy.Bath(np.diag(np.array(o, dtype=float)), _corr)
        north, west = np.array(bath.north_degeneracy_map), np.array(bath.west_degeneracy_map)
        nn, nw = int(north.max()) + 1, int(west.max()) + 1
        n = rng.randint(2, 4)
        dkmax = rng.choice([None, 1, 2, n])
        rect = dkmax is not None and rng.random() < 0.5
        keys = list(range(-(n + 2), max(n, dkmax or 0) + 3))
        red, full = {}, {}
        for k in keys:
            if k == 0:
                v = gint(rng, (nn,), -1, 1)
                if not v.any():          # an all-zero influence annihilates the network (SVD of a zero matrix)
                    v[0] = 1
                red[k] = v
                full[k] = np.diag(v[north])
            else:
                r = gint(rng, (nn, nw), -1, 1)
                if not r.any():
                    r[0, 0] = 1
                red[k] = r
                full[k] = r[north][:, west]
        u = np.eye(2, dtype=complex)
        props = [(gint(rng, (d2, d2), -1, 1), gint(rng, (d2, d2), -1, 1)) for _ in range(n)]
        rho0 = gint(rng, (d2,), -2, 2)
        info = {"kind": "backend+maps", "o": o, "n": n, "dkmax": dkmax, "rect": rect, "classes": [nn, nw]}
        maps = [north, west]
        sums = (np.ones(nn), np.ones(nw))
        try:
            got, _ = ps.run_tempo_backend(red, rect, u, props, rho0, n, dkmax, maps=maps, sums=sums)
            pt, _ = ps.run_pt_backend(red, rect, u, n, dkmax, maps=maps, sums=sums)
            dyn = quiet(oqupy.compute_dynamics, InjSystem(d, props), initial_state=rho0.reshape(d, d), process_tensor=pt, num_steps=n, progress_type="silent")
            st = [np.array(s).reshape(-1) for s in dyn.states]
        except Exception as ex:
            chk.disagree("back-end with degeneracy maps raised", {"meta": info, "err": repr(ex)})
            continue
        exprs.append(ps.pathsum_expr(True, d, full, dkmax, rect, u, props, rho0, n, n))
        expected.append(("states", got, d2))
        meta.append(dict(info, backend="tempo"))
        exprs.append(ps.pathsum_expr(False, d, full, dkmax, rect, u, props, rho0, n, n))
        expected.append(("final", st, d2))
        meta.append(dict(info, backend="pt"))
        chk.case(info, ("backend", tuple(o), n, dkmax, rect))
        chk.count("backend_maps")
        # property on the implementation: unique vs full, same inputs
        got_f, _ = ps.run_tempo_backend(full, rect, u, props, rho0, n, dkmax)
        chk.search_cases += 1
        if not c02.close(got, got_f):
            chk.fail("unique-differs-backend", "TempoBackend with degeneracy maps differs from the full computation", info)

    vals, errs = run_cases("C06", HEADER, exprs, chunk=40)
    for e in errs:
        chk.disagree("coq evaluation", e)
    c02.compare(chk, vals, expected, meta)

    # ---- (c) unique=True vs unique=False through the public API ---------------------------------
    sx, sz = oqupy.operators.sigma("x"), oqupy.operators.sigma("z")
    for it in range(36 if (thorough or chk.disagreements or chk.broken) else 12):
        d = rng.choice([2, 3, 3, 4])
        o = [rng.choice([-1.0, 0.0, 0.5, 1.0, 2.0]) for _ in range(d)]
        rot = rng.random() < 0.4
        O = np.diag(o).astype(complex)
        if rot:
            z = np.array([[rng.gauss(0, 1) + 1j * rng.gauss(0, 1) for _ in range(d)] for _ in range(d)])
            q, _ = np.linalg.qr(z)
            O = q @ O @ q.conj().T
            O = (O + O.conj().T) / 2
        a = np.array([[rng.gauss(0, 1) + 1j * rng.gauss(0, 1) for _ in range(d)] for _ in range(d)])
        H = (a + a.conj().T) / 4
        r = a @ a.conj().T
        rho0 = r / np.trace(r)
        eps = 1e-7
        dkmax = rng.choice([None, 2])
        par = oqupy.TempoParameters(dt=0.1, epsrel=eps, dkmax=dkmax, add_correlation_time=rng.choice([None, 0.2]) if dkmax else None)
        bath = oqupy.Bath(O, _corr)
        method = rng.choice(["tempo", "pttempo", "meanfield", "meanfield"])
        tend = 0.4
        if it < 3:
            method = "meanfield"      # every run has several-species cases with permuted / rotated copies of one spectrum
        if it in (3, 4):
            # every run (PT-TEMPO, TEMPO): a repeated coupling eigenvalue, a memory cut-off with an additional correlation time and a
            # run well beyond the cut-off (the closing cells are requested at several distances)
            method, d = ["pttempo", "tempo"][it - 3], 3
            o = rng.choice([[1.0, 1.0, 2.0], [0.5, -1.0, 0.5], [0.0, 0.0, 1.0]])
            O = np.diag(o).astype(complex)
            if rot:
                z = np.array([[rng.gauss(0, 1) + 1j * rng.gauss(0, 1) for _ in range(d)] for _ in range(d)])
                q, _ = np.linalg.qr(z)
                O = q @ O @ q.conj().T
                O = (O + O.conj().T) / 2
            a = np.array([[rng.gauss(0, 1) + 1j * rng.gauss(0, 1) for _ in range(d)] for _ in range(d)])
            H = (a + a.conj().T) / 4
            r = a @ a.conj().T
            rho0 = r / np.trace(r)
            dkmax, tend = 2, 0.8
            par = oqupy.TempoParameters(dt=0.1, epsrel=eps, dkmax=dkmax, add_correlation_time=rng.choice([0.25, 0.5]))
            bath = oqupy.Bath(O, _corr)
        info = {"kind": "api", "method": method, "o": o, "rotated": rot, "dkmax": dkmax}
        mf_baths = [bath]
        if method == "meanfield":
            for k in range(rng.choice([0, 1, 1, 2]) if it >= 3 else 1 + it % 2):
                mode = rng.choice(["permuted", "permuted", "rotated", "other"]) if it >= 3 else ["permuted", "rotated", "permuted"][it]
                ok = list(o)
                if mode == "other":
                    ok = [rng.choice([-1.0, 0.0, 0.5, 1.0, 2.0]) for _ in range(d)]
                else:
                    rng.shuffle(ok)
                    if ok == list(o) and len(set(o)) > 1:
                        ok = ok[1:] + ok[:1] if ok[1:] + ok[:1] != list(o) else ok[::-1]
                Ok = np.diag(ok).astype(complex)
                if mode == "rotated":
                    z = np.array([[rng.gauss(0, 1) + 1j * rng.gauss(0, 1) for _ in range(d)] for _ in range(d)])
                    q, _ = np.linalg.qr(z)
                    Ok = q @ Ok @ q.conj().T
                    Ok = (Ok + Ok.conj().T) / 2
                mf_baths.append(oqupy.Bath(Ok, _corr))
            info["species"] = len(mf_baths)
        res = []
        try:
            for unique in (False, True):
                if method == "tempo":
                    res.append(np.array(quiet(oqupy.Tempo(oqupy.System(H), bath, par, rho0, 0.0, unique=unique).compute, tend, progress_type="silent").states))
                elif method == "pttempo":
                    pt = quiet(oqupy.pt_tempo_compute, bath, 0.0, tend, parameters=par, unique=unique, progress_type="silent")
                    res.append(np.array(quiet(oqupy.compute_dynamics, oqupy.System(H), initial_state=rho0, process_tensor=pt, progress_type="silent").states))
                else:
                    # several species, each with its own bath: the same spectrum in a different order / basis (same number
                    # of degeneracy classes, different class pattern) and independently drawn ones
                    ss = [oqupy.TimeDependentSystemWithField(lambda t, f, k=k: H + 0.1 * (k + 1) * f.real * np.diag(np.arange(d)).astype(complex))
                          for k in range(len(mf_baths))]
                    mfs = oqupy.MeanFieldSystem(ss, field_eom=lambda t, st, f: -0.1 * f + 0.2 * sum(np.trace(x @ H) for x in st))
                    dyn = quiet(oqupy.MeanFieldTempo(mfs, mf_baths, par, [rho0] * len(mf_baths), 0.2 + 0j, 0.0, unique=unique).compute, 0.4,
                                progress_type="silent")
                    res.append(np.append(np.concatenate([np.array(sd.states).reshape(-1) for sd in dyn.system_dynamics]), dyn.fields))
        except Exception as ex:
            chk.fail("unique-raises", f"{method} raises {ex!r}", info)
            continue
        chk.search_cases += 1
        chk.count("api_" + method)
        chk.case(info, ("api", method, tuple(o), rot, dkmax))
        if res[0].shape != res[1].shape or np.abs(res[0] - res[1]).max() > 2e3 * eps:
            chk.fail("unique-differs", f"{method}: unique=True differs from unique=False by {np.abs(res[0] - res[1]).max():.2e}", info)

    # ---- (c2) the convenience drivers with GUESSED parameters (parameters=None, a tolerance given): unique=True changes only the
    # cost -- the same guessed time grid / process-tensor length and time step, states within the guessed accuracy ---------------
    import warnings as _w
    for it in range(4 if thorough else 2):
        o = [[1.0, 1.0, -0.5], [0.5, 0.0, 0.5], [1.0, 0.0]][(it + rng.randrange(3)) % 3]
        d = len(o)
        a = np.array([[rng.gauss(0, 1) + 1j * rng.gauss(0, 1) for _ in range(d)] for _ in range(d)])
        H = (a + a.conj().T) / 4
        r = a @ a.conj().T
        rho0 = r / np.trace(r)
        corr_ = oqupy.PowerLawSD(alpha=0.1, zeta=1, cutoff=2.0, cutoff_type="exponential", temperature=0.2)
        tol_ = rng.choice([0.05, 0.02])
        driver = ["tempo_compute", "pt_tempo_compute"][it % 2]
        info = {"kind": "guessed-parameters", "driver": driver, "o": o, "tolerance": tol_}
        chk.search_cases += 1
        chk.count("api_guessed_" + driver)
        chk.case(info, ("guessed", driver, tuple(o), tol_))
        out = []
        # what the driver asks guess_tempo_parameters for (start, end, tolerance, the system) and what it gets: recorded through
        # a wrapper in the modules that call it
        import oqupy.tempo as _tm
        import oqupy.pt_tempo as _pm
        real_guess, asked = _tm.guess_tempo_parameters, []

        def rec_guess(*a_, **k_):
            g_ = real_guess(*a_, **k_)
            asked[-1].append((tuple(x for x in a_ if isinstance(x, (int, float))), sorted((kk, vv) for kk, vv in k_.items() if isinstance(vv, (int, float))),
                              (g_.dt, g_.dkmax, g_.epsrel)))
            return g_
        try:
            _tm.guess_tempo_parameters = _pm.guess_tempo_parameters = rec_guess
            with _w.catch_warnings():
                _w.simplefilter("ignore")
                for unique in (False, True):
                    asked.append([])
                    bath_ = oqupy.Bath(np.diag(o).astype(complex), corr_)
                    if driver == "tempo_compute":
                        dyn = quiet(oqupy.tempo_compute, oqupy.System(H), bath_, rho0, 0.0, 1.0, tolerance=tol_, unique=unique, progress_type="silent")
                        out.append((list(dyn.times), np.array(dyn.states)))
                    else:
                        pt = quiet(oqupy.pt_tempo_compute, bath_, 0.0, 1.0, tolerance=tol_, unique=unique, progress_type="silent")
                        dyn = quiet(oqupy.compute_dynamics, oqupy.System(H), initial_state=rho0, process_tensor=pt, progress_type="silent")
                        out.append((list(dyn.times) + [pt.dt, float(len(pt))], np.array(dyn.states)))
        except Exception as ex:
            chk.fail("unique-raises", f"{driver} with guessed parameters raises {ex!r}", info)
            continue
        finally:
            _tm.guess_tempo_parameters = _pm.guess_tempo_parameters = real_guess
        if len(asked) == 2 and [x[2] for x in asked[0]] != [x[2] for x in asked[1]]:
            chk.fail("unique-differs", f"{driver}(parameters=None, tolerance={tol_}): with unique=True the guessed parameters (dt, dkmax, epsrel) come out "
                     f"different: {asked[1]} against {asked[0]} with unique=False", info)
        elif out[0][0] != out[1][0]:
            chk.fail("unique-differs", f"{driver}(parameters=None, tolerance={tol_}): unique=True gives another time grid ({len(out[1][0])} entries, second {out[1][0][1]:.4g}) "
                     f"than unique=False ({len(out[0][0])} entries, second {out[0][0][1]:.4g})", info)
        elif np.abs(out[0][1] - out[1][1]).max() > 5 * tol_:
            chk.fail("unique-differs", f"{driver}(parameters=None, tolerance={tol_}): unique=True differs from unique=False by {np.abs(out[0][1] - out[1][1]).max():.2e}", info)

    # ---- (d) the representatives handed to influence_matrix by the library's own glue (exact) --------------------
    c02.glue_check(chk, 18 if thorough else 9, force_unique=True,
                   spectra=[[0.5, 0.5, -1.0], [1.0, 1.0, 2.0], [0.0, 0.0, 1.0, 3.0], [1.0, 2.0, 2.0], [0.0, 1.0]])

    return chk.finish(
        level="proof",
        trusted=["models: Model/Degeneracy.v, Model/Shapes.v (exponent), Model/PathSum.v; maps compared as partitions + first representatives",
                 "np.unique / rounding to 12 decimals are exercised on dyadic spectra where rounding is the identity"],
        rule="Bath degeneracy maps for dimension 2-5 spectra with engineered coincidences of sums/differences; TempoBackend / PtTempoBackend "
             "with those maps and reduced integer influences against the FULL path-sum model; public-API search unique=True vs False for "
             "Tempo, PtTempo, MeanFieldTempo incl. rotated (non-diagonal) degenerate couplings; distinct = distinct spectrum / configuration",
        assumptions=["the scatter loops building the 3-/4-leg dk=0 tensors are tied by the back-end correspondence, not proved"])
