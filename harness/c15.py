"""C15 — results are covariant under translation of the time origin."""
import warnings
import numpy as np
import oqupy
from oqupy.control import Control

from harness.common import run_cases, ints, coq_list, float_lit, fbits
from harness.impl import quiet, gint

HEADER = """From Coq Require Import ZArith List Bool PrimFloat.
From OQ Require Import Lib.PyFloat Model.TimeGrid Model.Corr Model.Glue.
Import ListNotations. Open Scope Z_scope."""

SX, SY, SZ = (oqupy.operators.sigma(a) for a in "xyz")
SM = oqupy.operators.sigma("-")
TAUS = [0.37, -0.37, 1.234, -5.5, 3.141592653589793]


def ulp_close(a, b, n=4):
    a, b = np.asarray(a, dtype=float), np.asarray(b, dtype=float)
    return bool(np.all(np.abs(a - b) <= n * np.spacing(np.maximum(np.abs(a), np.abs(b)))))


def run(chk):
    rng = chk.rng
    thorough = chk.tier == "thorough"
    chk.proofs()
    exprs, expected, meta = [], [], []
    corr = oqupy.PowerLawSD(alpha=0.1, zeta=1, cutoff=2.0, cutoff_type="exponential", temperature=0.1)
    bath = oqupy.Bath(0.5 * SZ, corr)

    # ---- (a) the times at which user callables are evaluated, bit for bit ---------------------------
    for it in range(40 if thorough else 15):
        dt = rng.choice([0.1, 0.05, 0.2, 0.125, 0.3])
        start = rng.choice([0.0, 1.0, -0.7, 2.5]) + rng.choice([0.0] + TAUS)
        N = rng.randint(1, 5)
        driver = rng.choice(["tempo", "compute_dynamics"])
        log = []

        def ham(t, log=log):
            log.append(float(t))
            return 0.3 * SX
        sysm = oqupy.TimeDependentSystem(ham)
        log.clear()
        if driver == "tempo":
            par = oqupy.TempoParameters(dt=dt, epsrel=1e-4, dkmax=2, subdiv_limit=None)
            t = oqupy.Tempo(sysm, bath, par, oqupy.operators.spin_dm("z+"), start)
            log.clear()
            quiet(t.compute, start + N * dt + 1e-9, progress_type="silent")
        else:
            quiet(oqupy.compute_dynamics, sysm, initial_state=oqupy.operators.spin_dm("z+"), dt=dt, num_steps=N, start_time=start,
                  subdiv_limit=None, progress_type="silent")
        # np.vectorize (used by the library to wrap the callable) evaluates its first argument twice
        log = [x for i, x in enumerate(log) if i == 0 or x != log[i - 1]]
        exp = []
        for x in log:
            exp += fbits(x)
        exprs.append(f"prop_times_flat {float_lit(start)} {float_lit(dt)} {len(log) // 2}")
        expected.append(exp)
        info = {"kind": "eval-times", "driver": driver, "dt": dt, "start": start, "N": N}
        meta.append(info)
        chk.count("times_" + driver)
        chk.case(info, ("times", driver, dt, start, N))

    # ---- (b) the step a float control time is assigned to, shifted and unshifted --------------------
    for it in range(60 if thorough else 25):
        dt = rng.choice([0.1, 0.05, 0.2, 0.3])
        start = rng.choice([0.0, 1.0, -0.7])
        tau = rng.choice(TAUS)
        ks = [rng.randint(0, 6) for _ in range(4)]
        offs = [rng.choice([0.0, 0.3, -0.3, 0.45]) for _ in ks]
        ts = [start + (k + o) * dt for k, o in zip(ks, offs)]
        got = []
        for s0, shift in ((start, 0.0), (start + tau, tau)):
            for t in ts:
                c = Control(2)
                c.add_single(float(t + shift), np.identity(4), False)
                steps = [s for s in range(-1, 9) if quiet(c.get_controls, s, dt=dt, start_time=s0)[0] is not None]
                got.append(steps[0] if len(steps) == 1 else -99)
        exprs.append(f"float_steps_flat {float_lit(dt)} {float_lit(start)} {coq_list([float_lit(t) for t in ts])} ++ "
                     f"float_steps_flat {float_lit(dt)} {float_lit(start + tau)} {coq_list([float_lit(t + tau) for t in ts])}")
        expected.append(got)
        info = {"kind": "control-steps", "dt": dt, "start": start, "tau": tau, "times": ts}
        meta.append(info)
        chk.count("control_steps")
        chk.case(info, ("steps", dt, start, tau, tuple(ks), tuple(offs)))
        chk.search_cases += 1
        half = len(ts)
        tie = [abs(abs(o) - 0.5) < 1e-6 for o in offs]
        if any(a != b for a, b, ti in zip(got[:half], got[half:], tie) if not ti):
            chk.fail("control-step-shifts", f"a float control time is assigned to a different step after shifting the origin by {tau}", info)

    vals, errs = run_cases("C15", HEADER, exprs)
    for e in errs:
        chk.disagree("coq evaluation", e)
    for v, exp, m in zip(vals, expected, meta):
        got = ints(v)
        if got != exp:
            chk.disagree(m["kind"], {"meta": m, "impl": exp[:24], "model": (got or [])[:24]})

    # ---- (c) the property through every driver: shifted vs unshifted ------------------------------
    n_search = 24 if (thorough or chk.disagreements or chk.broken) else 8
    for it in range(n_search):
        tau = rng.choice(TAUS)
        start = rng.choice([0.0, 1.3])
        dt, N = 0.1, rng.randint(3, 5)
        eps = 1e-7
        sub = rng.choice([None, 256])
        par = oqupy.TempoParameters(dt=dt, epsrel=eps, dkmax=3, subdiv_limit=sub)
        drivers = ["tempo", "pttempo", "meanfield", "dynamics_with_field", "correlations", "controls", "pttempo-final", "dynamics_with_field-final"]
        driver = drivers[it] if it < len(drivers) else rng.choice(drivers)       # every driver in every run
        rec = not driver.endswith("-final")           # record_all=False: only the final state, labelled with ITS time
        driver = driver.replace("-final", "")
        if driver == "controls":
            tau = rng.choice([-31.7, 2000.0, 250.3])      # control times far from the origin as well
        # the end time handed to compute(): every second case exactly the last grid point start + N dt (computed in the frame of
        # the run), otherwise a little beyond it; the forced TEMPO / mean-field TEMPO cases end at NEGATIVE times after the shift
        edge = 0.0 if it % 2 == 0 else 1e-9
        if it in (0, 2):
            tau = rng.choice([-5.5, -2.0, -7.3])
        info = {"kind": "search", "driver": driver, "record_all": rec, "tau": tau, "start": start, "N": N, "subdiv_limit": sub, "end_time_beyond_grid_point": edge}

        def build(s0, sh):
            H = lambda t: 0.4 * SX + 0.3 * np.sin(1.7 * (t - sh)) * SZ
            G = lambda t: 0.1 + 0.05 * np.cos(t - sh)
            A = lambda t: SM + 0.1 * (t - sh) * SZ
            rho0 = oqupy.operators.spin_dm("y+")
            if driver == "tempo":
                sysm = oqupy.TimeDependentSystem(H, gammas=[G], lindblad_operators=[A])
                if sh == 0.0:
                    quiet(oqupy.compute_dynamics, sysm, initial_state=rho0, dt=dt, num_steps=2, start_time=s0 - 0.25, subdiv_limit=sub, progress_type="silent")
                d = quiet(oqupy.Tempo(sysm, bath, par, rho0, s0).compute, s0 + N * dt + edge, progress_type="silent")
                return list(d.times), np.array(d.states)
            if driver in ("pttempo", "controls", "correlations"):
                sysm = oqupy.TimeDependentSystem(H, gammas=[G], lindblad_operators=[A])
                if sh == 0.0 and it % 2 == 0:
                    # in the unshifted frame the system object has already been used from another time origin (same time step)
                    quiet(oqupy.compute_dynamics, sysm, initial_state=rho0, dt=dt, num_steps=2, start_time=s0 - 0.25, subdiv_limit=sub, progress_type="silent")
                pt = quiet(oqupy.pt_tempo_compute, bath, s0, s0 + N * dt + 1e-9, parameters=par, progress_type="silent")
                if driver == "pttempo":
                    d = quiet(oqupy.compute_dynamics, sysm, initial_state=rho0, process_tensor=pt, start_time=s0, subdiv_limit=sub, record_all=rec, progress_type="silent")
                    return list(d.times), np.array(d.states)
                if driver == "controls":
                    c = Control(2)
                    c.add_single(float(s0 + 1.3 * dt), oqupy.operators.left_right_super(SX, SX), False)
                    c.add_single(float(s0 + 2.0 * dt), oqupy.operators.left_right_super(SY, SY), True)
                    # two non-commuting operations 1e-3 dt apart within one step, the later one registered first; one more in
                    # the neighbouring step
                    rz_ = np.diag(np.exp(-0.35j * np.array([1.0, -1.0])))
                    c.add_single(float(s0 + 2.9 * dt + 1e-3 * dt), oqupy.operators.left_right_super(rz_, rz_.conj().T), False)
                    c.add_single(float(s0 + 2.9 * dt), oqupy.operators.left_right_super(SX, SX), False)
                    d = quiet(oqupy.compute_dynamics, sysm, initial_state=rho0, process_tensor=pt, start_time=s0, control=c, subdiv_limit=sub, progress_type="silent")
                    return list(d.times), np.array(d.states)
                t, cc = quiet(oqupy.compute_correlations, sysm, pt, SZ, SX, float(s0 + 1.0 * dt), (float(s0 + 0.2 * dt), float(s0 + (N - 0.3) * dt)),
                              initial_state=rho0, start_time=s0, progress_type="silent")
                return list(t[1]), np.nan_to_num(np.array(cc))
            s = oqupy.TimeDependentSystemWithField(lambda t, a: H(t) + 0.2 * a.real * SZ, gammas=[lambda t: G(t)], lindblad_operators=[lambda t: A(t)])
            mfs = oqupy.MeanFieldSystem([s], field_eom=lambda t, st, a: -0.2 * a + 0.3 * (t - sh) + 0.1 * np.trace(st[0] @ SZ))
            if driver == "meanfield":
                d = quiet(oqupy.MeanFieldTempo(mfs, [bath], par, [rho0], 0.3 + 0j, s0).compute, s0 + N * dt + edge, progress_type="silent")
            else:
                pt = quiet(oqupy.pt_tempo_compute, bath, s0, s0 + N * dt + 1e-9, parameters=par, progress_type="silent")
                # controls of the mean-field driver given as float times (every second case)
                cl_ = None
                if it % 2 == 1 or it == 3:
                    c_ = Control(2)
                    c_.add_single(float(s0 + 1.2 * dt), oqupy.operators.left_right_super(SX, SX), False)
                    c_.add_single(float(s0 + 2.1 * dt), oqupy.operators.left_right_super(SY, SY), True)
                    cl_ = [c_]
                d = quiet(oqupy.compute_dynamics_with_field, mfs, 0.3 + 0j, process_tensor_list=[pt], initial_state_list=[rho0], start_time=s0, subdiv_limit=sub, record_all=rec,
                          control_list=cl_, progress_type="silent")
            return list(d.times), np.append(np.array(d.system_dynamics[0].states).reshape(-1), d.fields)
        try:
            t0, v0 = build(start, 0.0)
            t1, v1 = build(start + tau, tau)
        except Exception as ex:
            chk.fail("shift-raises", f"{driver} raises {ex!r}", info)
            continue
        chk.search_cases += 1
        chk.count("search_" + driver + ("" if rec else "_final_only"))
        chk.case(info, ("search", driver, rec, tau, start, N))
        if not rec and (len(t0) != 1 or not ulp_close(np.array(t0), np.array([start + N * dt]), 8)):
            chk.fail("final-time-label", f"{driver}(record_all=False): the only reported time is {t0}, the final time is {start + N * dt}", info)
        if len(t0) != len(t1) or not ulp_close(np.array(t1), np.array(t0) + tau, 8):
            chk.fail("times-not-shifted", f"{driver}: reported times are not shifted by exactly tau={tau}", info)
        elif v0.shape != v1.shape or np.abs(v0 - v1).max() > 2e3 * eps:
            chk.fail("not-translation-covariant", f"{driver}: shifting the time origin by {tau} changes the results by {np.abs(v0 - v1).max():.2e}", info)

    # ---- (c2) the LENGTH of what is computed does not depend on the origin: for many shifts (a 0.01 grid between -3 and 3, and
    # large ones) the process tensor for [s, s + N dt] has N steps and Tempo / MeanFieldTempo return N + 1 times, with the end time
    # computed in the frame of the run (a grid point up to rounding) --------------------------------------------------------
    from harness.c13 import pt_len, tempo_times, mf_times
    for it in range(90 if thorough else 36):
        dt = rng.choice([0.1, 0.05, 0.2])
        N = rng.choice([3, 7, 10])
        tau = rng.choice([rng.randint(-300, 300) / 100.0, rng.randint(-300, 300) / 100.0, rng.choice([31.7, -250.3, 1999.9])])
        s0 = rng.choice([0.0, 0.4]) + tau
        end = s0 + N * dt
        which = ["pttempo", "pttempo", "tempo", "meanfield"][it % 4]
        info = {"kind": "length", "driver": which, "dt": dt, "N": N, "start": s0, "end": repr(end)}
        chk.search_cases += 1
        chk.count("length_" + which)
        chk.case(info, ("length", which, dt, N, round(s0, 2)))
        try:
            got = quiet(pt_len, s0, end, dt) if which == "pttempo" else len(quiet(tempo_times if which == "tempo" else mf_times, s0, end, dt)) - 1
        except Exception as ex:
            chk.fail("shift-raises", f"{which} raises {ex!r}", info)
            continue
        if got != N:
            chk.fail("times-not-shifted", f"{which} from {s0!r} to start + {N} dt = {end!r} (dt = {dt}): {got} steps instead of {N}: the number of steps depends on "
                     "where the time origin is", info)

    # ---- (d) guessed parameters (parameters=None): the guess made for a shifted problem is the guess for the original one,
    # so the convenience drivers are covariant as well (a chirped drive: the frequencies seen depend on where one looks) -------
    for it in range(4 if thorough else 2):
        tau = rng.choice(TAUS)
        start, span = rng.choice([0.0, 1.3]), rng.choice([1.0, 1.5])
        tol = 0.02
        corr_g = oqupy.PowerLawSD(alpha=0.05, zeta=1, cutoff=1.0, cutoff_type="exponential", temperature=0.0)
        bath_g = oqupy.Bath(0.5 * SZ, corr_g)

        def sys_of(sh):
            return oqupy.TimeDependentSystem(lambda t: (2.0 + 3.0 * (t - sh)) * SX + 0.5 * SZ, gammas=[lambda t: 0.1 + 0.05 * (t - sh) ** 2],
                                             lindblad_operators=[lambda t: SM])
        info = {"kind": "guessed-parameters", "tau": tau, "start": start, "span": span, "tolerance": tol}
        try:
            with warnings.catch_warnings():
                warnings.simplefilter("ignore")
                g0 = quiet(oqupy.guess_tempo_parameters, bath_g, start, start + span, sys_of(0.0), tol)
                g1 = quiet(oqupy.guess_tempo_parameters, bath_g, start + tau, start + tau + span, sys_of(tau), tol)
        except Exception as ex:
            chk.fail("shift-raises", f"guess_tempo_parameters raises {ex!r}", info)
            continue
        chk.search_cases += 1
        chk.count("search_guessed_parameters")
        chk.case(info, ("guess", tau, start, span))
        # the guess is rounded to four significant figures: allow one unit of the last figure
        if abs(g0.dt - g1.dt) > 2e-3 * g0.dt or abs(g0.dkmax - g1.dkmax) > 1 or abs(g0.epsrel - g1.epsrel) > 2e-3 * g0.epsrel:
            chk.fail("guess-not-covariant", f"guess_tempo_parameters: shifting system and interval by {tau} changes the guess "
                     f"(dt {g0.dt:.6g} -> {g1.dt:.6g}, dkmax {g0.dkmax} -> {g1.dkmax}, epsrel {g0.epsrel:.3g} -> {g1.epsrel:.3g})", info)

    # ---- (d2) the bath's share of the guess alone (no system, or one that is slow against the bath): the correlation function depends on
    # time differences only, so the guessed dt / dkmax / epsrel do not depend on where the interval sits ------------------------------------
    for it in range(6 if thorough else 3):
        tau = [1.3, -0.7, 25.0, 0.4, -3.0, 7.5][it % 6]
        span = rng.choice([2.0, 3.0])
        wc_, al_ = rng.choice([3.0, 5.0]), rng.choice([0.05, 0.2])
        with_sys = it % 2 == 1
        bath_b = oqupy.Bath(0.5 * SZ, oqupy.PowerLawSD(alpha=al_, zeta=1, cutoff=wc_, cutoff_type="exponential", temperature=0.0))
        slow = oqupy.System(0.05 * SX) if with_sys else None
        info = {"kind": "guessed-parameters-bath", "tau": tau, "span": span, "cutoff": wc_, "alpha": al_, "system": "slow" if with_sys else None}
        try:
            with warnings.catch_warnings():
                warnings.simplefilter("ignore")
                g0 = quiet(oqupy.guess_tempo_parameters, bath_b, 0.0, span, slow, 0.02)
                g1 = quiet(oqupy.guess_tempo_parameters, bath_b, tau, tau + span, slow, 0.02)
        except Exception as ex:
            chk.fail("shift-raises", f"guess_tempo_parameters raises {ex!r}", info)
            continue
        chk.search_cases += 1
        chk.count("search_guessed_parameters_bath")
        chk.case(info, ("guess-bath", tau, span, wc_, al_, with_sys))
        if abs(g0.dt - g1.dt) > 2e-3 * g0.dt or abs(g0.dkmax - g1.dkmax) > 1 or abs(g0.epsrel - g1.epsrel) > 2e-3 * g0.epsrel:
            chk.fail("guess-not-covariant", f"guess_tempo_parameters(bath with cut-off {wc_}, {'a slow system' if with_sys else 'no system'}): moving the interval "
                     f"[0, {span}] by {tau} changes the guess (dt {g0.dt:.6g} -> {g1.dt:.6g}, dkmax {g0.dkmax} -> {g1.dkmax}, epsrel {g0.epsrel:.3g} -> {g1.epsrel:.3g})", info)

    return chk.finish(
        level="proof",
        trusted=["models: Model/TimeGrid.v, Model/Control.v, Model/Corr.v on primitive floats; rationals for the exact statement",
                 "the inventory of places where explicit times enter is established by reading the code and by the bit-exact correspondences of C13/C09/C18/C07"],
        rule="evaluation times of a recording Hamiltonian through Tempo and compute_dynamics for five dt and shifted start times (bit for bit); steps "
             "assigned to float control times before/after a shift; shifted vs unshifted runs of Tempo, PtTempo+compute_dynamics, MeanFieldTempo, "
             "compute_dynamics_with_field, compute_correlations and float-time controls with time-dependent H, rates, Lindblad operators and "
             "field equation; distinct = distinct configuration",
        assumptions=["in binary64 covariance holds up to rounding: times to 8 ulp, states to 2e3*epsrel; float control times within 1e-6 of a rounding tie are excluded"])
