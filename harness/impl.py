"""Drivers for the implementation under /repo: integer-valued inputs that make
floating-point contraction code exact, injected propagators, hand-built PTs."""
import contextlib
import io
import os
import numpy as np

import oqupy
from oqupy import process_tensor as ptm
from oqupy.system import System

from harness.common import glit, tensor_lit, vec_lit, coq_list, zlit


def gint(rng, shape, lo=-2, hi=2, real=False):
    """random Gaussian-integer array (python random.Random rng)."""
    n = int(np.prod(shape)) if shape else 1
    re = np.array([rng.randint(lo, hi) for _ in range(n)], dtype=float)
    im = np.zeros(n) if real else np.array([rng.randint(lo, hi) for _ in range(n)], dtype=float)
    return (re + 1j * im).reshape(shape)


class InjSystem(System):
    """System whose half-step propagators are injected (public extension point:
    get_propagators).  props: list of (P1, P2) per step, cycled."""

    def __init__(self, dim, props, start=None):
        super().__init__(np.zeros((dim, dim)))
        self._inj = props
        self._start = start     # a time-dependent system: asked for another start time it answers with other propagators

    def get_propagators(self, dt, start_time, subdiv_limit, epsrel):
        wrong = self._start is not None and start_time != self._start
        def propagators(step):
            p1, p2 = self._inj[step % len(self._inj)]
            return (p2 + np.eye(len(p2), dtype=p2.dtype), -p1) if wrong else (p1, p2)
        return propagators


class IntPT:
    """Description of a hand-built integer process tensor, with emitters for both
    sides (oqupy.SimpleProcessTensor / Coq ptensor literal)."""

    def __init__(self, hs_dim, mpos, caps, tin=None, tout=None, dt=None, trivial=False):
        self.hs_dim, self.mpos, self.caps = hs_dim, mpos, caps
        self.tin, self.tout, self.dt, self.trivial = tin, tout, dt, trivial

    def build(self):
        if self.trivial:
            return ptm.TrivialProcessTensor(self.hs_dim)
        pt = ptm.SimpleProcessTensor(self.hs_dim, dt=self.dt,
                                     transform_in=self.tin, transform_out=self.tout)
        for k, m in enumerate(self.mpos):
            pt.set_mpo_tensor(k, m)
        for k, c in enumerate(self.caps):
            pt.set_cap_tensor(k, c)
        return pt

    def coq(self, nsteps):
        d2 = self.hs_dim ** 2
        if self.trivial:
            mpos = coq_list(["None"] * nsteps)
            caps = coq_list([vec_lit([1])] * (nsteps + 1))
            return f"(mkpt {d2} {d2} None None {mpos} {caps})"
        din = self.tin.shape[1] if self.tin is not None else d2
        dout = self.tout.shape[0] if self.tout is not None else d2
        tin = "None" if self.tin is None else f"(Some ({tensor_lit(self.tin)}))"
        tout = "None" if self.tout is None else f"(Some ({tensor_lit(self.tout)}))"
        ms = []
        for m in self.mpos:
            r4 = "true" if m.ndim == 4 else "false"
            ms.append(f"Some (mkmpo {m.shape[0]} {m.shape[1]} {r4} ({tensor_lit(m)}))")
        caps = coq_list([vec_lit(c) for c in self.caps])
        return f"(mkpt {din} {dout} {tin} {tout} {coq_list(ms)} {caps})"


def rand_intpt(rng, hs_dim, nsteps, maxbond=3, allow_rank3=True, transforms=False, lo=-1, hi=1,
               trivial_prob=0.0, real=False, last_trivial=False):
    if rng.random() < trivial_prob:
        return IntPT(hs_dim, [], [], trivial=True)
    d2 = hs_dim ** 2
    din = dout = d2
    tin = tout = None
    rank3 = allow_rank3 and rng.random() < 0.4
    if transforms:
        if rank3:
            din = dout = rng.choice([d2, d2 - 1, d2 + 1]) if d2 > 1 else d2
        else:
            din = rng.choice([d2, max(1, d2 - 1), d2 + 1])
            dout = rng.choice([d2, max(1, d2 - 1), d2 + 1])
        if transforms in ("in", "out"):     # a transform on one side only: the other leg is in the system basis already
            if rank3:
                din = dout = d2
            elif transforms == "in":
                dout = d2
            else:
                din = d2
        tin = gint(rng, (d2, din), lo, hi, real) if transforms != "out" else None
        tout = gint(rng, (dout, d2), lo, hi, real) if transforms != "in" else None
    bonds = [1] + [rng.randint(1, maxbond) for _ in range(nsteps)]
    if last_trivial:
        bonds[-1] = 1
    mpos = []
    for k in range(nsteps):
        if rank3:
            mpos.append(gint(rng, (bonds[k], bonds[k + 1], din), lo, hi, real))
        else:
            mpos.append(gint(rng, (bonds[k], bonds[k + 1], din, dout), lo, hi, real))
    caps = [gint(rng, (bonds[k],), lo, hi, real) for k in range(nsteps + 1)]
    if last_trivial:
        caps[-1] = np.ones(1, dtype=complex)
    return IntPT(hs_dim, mpos, caps, tin, tout)


class LibraryCallTimeout(Exception):
    """a call into the library under test did not return within LIBRARY_CALL_LIMIT seconds (on the unchanged tree every such
    call takes seconds): the input of that call is reported as a failing input by the drivers' `except Exception` branches"""


LIBRARY_CALL_LIMIT = float(os.environ.get("VERIF_CALL_LIMIT", "600"))


def quiet(fn, *a, **k):
    """run fn swallowing stdout (the library prints in places), under a generous wall-clock limit (main thread only)."""
    import signal, threading
    guard = LIBRARY_CALL_LIMIT > 0 and threading.current_thread() is threading.main_thread() and hasattr(signal, "setitimer")
    if guard:
        def on_alarm(signum, frame):
            raise LibraryCallTimeout(f"the library call did not return within {LIBRARY_CALL_LIMIT:.0f} s")
        old_handler = signal.signal(signal.SIGALRM, on_alarm)
        outer_left = signal.setitimer(signal.ITIMER_REAL, LIBRARY_CALL_LIMIT)[0]
    buf = io.StringIO()
    try:
        with contextlib.redirect_stdout(buf):
            return fn(*a, **k)
    finally:
        if guard:
            signal.setitimer(signal.ITIMER_REAL, 0)
            signal.signal(signal.SIGALRM, old_handler)
            if outer_left > 0:
                signal.setitimer(signal.ITIMER_REAL, outer_left)      # an enclosing quiet() keeps its own limit


def mat_lit(m):
    """numpy matrix -> Coq list-of-lists literal of Gaussian integers."""
    return coq_list([vec_lit(r) for r in np.asarray(m)])
