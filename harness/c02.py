"""C02 — TEMPO and PT-TEMPO + compute_dynamics produce the same dynamics."""
import numpy as np
import oqupy

from harness.common import run_cases, ints, coq_list, float_lit, fbits
from harness.impl import gint, InjSystem, quiet
from harness import pathsum as ps

HEADER = """From Coq Require Import ZArith List Bool PrimFloat.
From OQ Require Import Lib.RingSum Lib.Mat Lib.PyFloat Model.Schedule Model.PathSum Model.Glue.
Import ListNotations. Open Scope Z_scope."""

RTOL = 1e-8      # the single tolerance of this correspondence: SVDs sit in the implementation's path


def close(got, want):
    want = np.array(want, dtype=complex)
    got = np.array(got, dtype=complex)
    if got.shape != want.shape:
        return False
    scale = max(1.0, np.abs(want).max())
    return bool(np.abs(got - want).max() <= RTOL * scale)


def model_vectors(flat, d2):
    a = np.array(flat, dtype=float).reshape(-1, d2, 2)
    return a[..., 0] + 1j * a[..., 1]


def backend_cases(chk, n_cases, exprs, expected, meta, degenerate=False):
    """TempoBackend / PtTempoBackend with injected integer influences vs the path-sum model."""
    rng = chk.rng
    for it in range(n_cases):
        d, d2 = 2, 4
        n = rng.randint(2, 4)
        dkmax = rng.choice([None, 1, 1, 2, 3, n, n + 1])
        rect = dkmax is not None and rng.random() < 0.5
        causal = rng.random() < 0.5
        keys = list(range(-(n + 2), max(n, dkmax or 0) + 3))
        table = ps.int_table(rng, d2, keys, causal)
        trivial_dk = None
        if it % 5 == 1 and n >= 3:
            # a trivial influence (all ones: the correlation function passes through zero) at an intermediate distance,
            # non-trivial ones beyond it
            trivial_dk = rng.randint(1, n - 2)
            table[trivial_dk] = np.ones((d2, d2), dtype=complex)
        if causal:
            u = rng.choice(ps.UNITARIES_G)
            props = [(ps.tp_matrix(rng, d2), ps.tp_matrix(rng, d2)) for _ in range(n)]
        else:
            u = gint(rng, (d, d), -1, 1)
            if abs(np.linalg.det(u)) < 0.5:
                u = np.eye(2, dtype=complex)
            props = [(gint(rng, (d2, d2), -1, 1), gint(rng, (d2, d2), -1, 1)) for _ in range(n)]
        rho0 = gint(rng, (d2,), -2, 2)
        if not rho0.any():
            rho0[0] = 1
        info = {"n": n, "dkmax": dkmax, "rect": rect, "family": "causal" if causal else "generic", "trivial_influence_at": trivial_dk}
        # --- TEMPO: every step
        try:
            got, log = ps.run_tempo_backend(table, rect, u, props, rho0, n, dkmax)
        except Exception as ex:
            chk.disagree("TempoBackend raised", {"meta": info, "err": repr(ex)})
            continue
        exprs.append(ps.pathsum_expr(True, d, table, dkmax, rect, u, props, rho0, n, n))
        expected.append(("states", got, d2))
        meta.append(dict(info, backend="tempo"))
        chk.case(meta[-1], ("tempo", n, dkmax, rect, causal))
        chk.count("tempo_" + info["family"])
        # --- PT-TEMPO + compute_dynamics
        try:
            pt, log2 = ps.run_pt_backend(table, rect, u, n, dkmax)
            dyn = quiet(oqupy.compute_dynamics, InjSystem(d, props), initial_state=rho0.reshape(d, d), process_tensor=pt,
                        num_steps=n, progress_type="silent")
            st = [np.array(s).reshape(-1) for s in dyn.states]
        except Exception as ex:
            chk.disagree("PtTempoBackend raised", {"meta": info, "err": repr(ex)})
            continue
        exprs.append(ps.pathsum_expr(False, d, table, dkmax, rect, u, props, rho0, n, n))
        expected.append(("states" if causal else "final", st, d2))
        meta.append(dict(info, backend="pt"))
        chk.case(meta[-1], ("pt", n, dkmax, rect, causal))
        chk.count("pt_" + info["family"])
        # --- the requested keys, exactly
        dk = "None" if dkmax is None else f"(Some {dkmax}%nat)"
        exprs.append(f"requests_flat {dk} {'true' if rect else 'false'} {n}")
        expected.append(("ints", log + [999] + log2, 0))
        meta.append(dict(info, backend="requests"))
        # --- the property itself on the implementation: TEMPO == PT-TEMPO (+ prefix consistency when causal)
        chk.search_cases += 1
        if not close(got[-1], st[-1]) or (causal and not close(got, st)):
            chk.fail("tempo-vs-pttempo", "TempoBackend and PtTempoBackend+compute_dynamics disagree on the same influences/propagators",
                     dict(info, seed=chk.seed, iteration=it))
        if causal and n >= 3:
            short = quiet(oqupy.compute_dynamics, InjSystem(d, props), initial_state=rho0.reshape(d, d), process_tensor=pt,
                          num_steps=n - 1, progress_type="silent")
            chk.search_cases += 1
            if not close([np.array(s).reshape(-1) for s in short.states], st[:n]):
                chk.fail("prefix-differs", "the first n-1 steps from an n-step process tensor differ from num_steps=n-1", dict(info, iteration=it))


def compare(chk, vals, expected, meta):
    for v, exp, m in zip(vals, expected, meta):
        kind, impl, d2 = exp
        got = ints(v)
        if kind == "ints":
            if got != impl:
                chk.disagree("influence requests", {"meta": m, "impl": impl, "model": got})
            continue
        if got is None or len(got) % (2 * d2) != 0:
            chk.disagree("path sum", {"meta": m, "model": "no value"})
            continue
        mv = model_vectors(got, d2)
        ok = close(impl, mv) if kind == "states" else close(impl[-1], mv[-1])
        if not ok:
            chk.disagree("path sum (" + m["backend"] + ")", {"meta": m, "impl": [list(map(complex, s)) for s in impl][-1][:4],
                                                             "model": list(map(complex, mv[-1]))[:4]})


def api_search(chk, n_cases):
    """The property through the public API: Tempo vs PtTempo + compute_dynamics."""
    rng = chk.rng
    sx, sy, sz = (oqupy.operators.sigma(a) for a in "xyz")
    for it in range(n_cases):
        eps = rng.choice([1e-6, 1e-8])
        dt = rng.choice([0.1, 0.2])
        n = rng.randint(3, 5)
        start = rng.choice([0.0, 1.3])
        dkmax = rng.choice([None, 1, 2, n])
        tau = rng.choice([None, None, 0.15, np.inf, 0.0, 0.05]) if dkmax is not None else None
        if it == 6:
            # every run: a memory cut-off shorter than the run with an additional correlation time SHORTER than a time step
            # (0.0 included): the first closing cell of TEMPO (one step wide at most) and of PT-TEMPO must still coincide
            dt, n, dkmax, tau = 0.2, 6, rng.choice([1, 2]), rng.choice([0.0, 0.05, 0.1])
        par = oqupy.TempoParameters(dt=dt, epsrel=eps, dkmax=dkmax, add_correlation_time=tau, subdiv_limit=None)
        corr = oqupy.PowerLawSD(alpha=rng.choice([0.05, 0.3]), zeta=rng.choice([1, 3]), cutoff=rng.choice([1.0, 4.0]),
                                cutoff_type=rng.choice(["exponential", "gaussian"]), temperature=rng.choice([0.0, 0.5]))
        if it == 1:
            # every run: 'agreement tightens with the tolerance' where the long-range influences are nearly trivial: weak
            # coupling, unlimited memory, many steps, a tight tolerance (the whole correlation tail still has to be kept)
            eps, n, dkmax, tau, dt = 1e-9, 24, None, None, 0.1
            par = oqupy.TempoParameters(dt=dt, epsrel=eps, dkmax=None, subdiv_limit=None)
            corr = oqupy.PowerLawSD(alpha=rng.choice([0.0005, 0.001]), zeta=1, cutoff=10.0, cutoff_type="exponential", temperature=0.0)
        op = rng.choice([0.5 * sz, 0.5 * sx + 0.2 * sz, np.diag([1.0, 1.0]) * 0.3 + 0.5 * sy])
        if it == 5 or (it > 5 and dkmax is not None and rng.random() < 0.3):
            # the memory given as a TIME (every run: 0.3 with dt = 0.1, whose float quotient is 2.9999999999999996), more steps
            # than the cut-off: both methods must read the same number of memory steps out of it
            tc_ = 0.3 if it == 5 else (dkmax + rng.choice([0.0, 0.3, -0.3])) * dt
            if it == 5:
                dt, n, tau = 0.1, 6, rng.choice([None, 0.15])
            dkmax = int(round(tc_ / dt))
            par = oqupy.TempoParameters(dt=dt, epsrel=eps, tcut=tc_, add_correlation_time=tau, subdiv_limit=None)
        if it == 4:
            # every run: strong coupling, a memory cut-off shorter than the run and a very tight tolerance: the two methods agree to
            # a small multiple of the tolerance (1e-8 with epsrel = 1e-11): neither back-end may stop refining before the other
            eps, n, dkmax, tau, dt = 1e-11, 12, 5, None, 0.1
            par = oqupy.TempoParameters(dt=dt, epsrel=eps, dkmax=dkmax, subdiv_limit=None)
            corr = oqupy.PowerLawSD(alpha=0.6, zeta=1, cutoff=3.0, cutoff_type="exponential", temperature=0.7)
        if it == 2:
            # every run: a coupling operator with genuinely complex eigenvectors that is neither symmetric nor antisymmetric
            # (conj(O) != +-O), with a Hamiltonian and an initial state that are not real either
            op = 0.4 * sy + 0.3 * sz + 0.2 * sx
        three = (it % 4 == 3)
        if three:
            # a three-level system whose coupling operator has a repeated eigenvalue (non-trivial degeneracy classes), diagonal or rotated
            op = np.diag(rng.choice([[1.0, 1.0, 2.0], [0.5, -1.0, 0.5], [0.0, 0.0, 1.0]])).astype(complex)
            if rng.random() < 0.5:
                z_ = np.array([[rng.gauss(0, 1) + 1j * rng.gauss(0, 1) for _ in range(3)] for _ in range(3)])
                q_, _ = np.linalg.qr(z_)
                op = q_ @ op @ q_.conj().T
                op = (op + op.conj().T) / 2
        bath = oqupy.Bath(op, corr)
        kind = rng.choice(["const", "td", "lindblad", "pulse", "even"]) if it >= 2 else ["pulse", "even"][it]
        h0 = 0.4 * sx + 0.3 * sz
        if it == 2:
            h0, kind = 0.4 * sx + 0.3 * sz + 0.25 * sy, "const"
        if three:
            a3 = np.array([[rng.gauss(0, 1) + 1j * rng.gauss(0, 1) for _ in range(3)] for _ in range(3)])
            h0 = (a3 + a3.conj().T) / 4
            lower = np.diag([1.0, 1.0], -1).astype(complex)
            kind = "const3"
        if kind == "even":
            start = -n * dt / 2          # window symmetric about the centre of an even pulse
        if kind == "const3":
            sysm = oqupy.System(h0, gammas=[0.1], lindblad_operators=[lower]) if rng.random() < 0.5 else oqupy.System(h0)
        elif kind == "const":
            sysm = oqupy.System(h0, gammas=[0.1], lindblad_operators=[oqupy.operators.sigma("-")]) if rng.random() < 0.5 else oqupy.System(h0)
        elif kind == "td":
            sysm = oqupy.TimeDependentSystem(lambda t: h0 + 0.2 * np.sin(t) * sy)
        elif kind == "pulse":
            # a drive switched on and off again inside the window: same generator at the first and the last time
            ta, tb = start + 0.8 * dt, start + (n - 0.8) * dt
            sysm = oqupy.TimeDependentSystem(lambda t: h0 + (0.6 * sy if ta < t < tb else 0.0 * sy),
                                             gammas=[lambda t: 0.1 if not (ta < t < tb) else 0.3], lindblad_operators=[lambda t: oqupy.operators.sigma("-")])
        elif kind == "even":
            sysm = oqupy.TimeDependentSystem(lambda t: h0 + 0.6 * np.exp(-4 * t * t) * sy,
                                             gammas=[lambda t: 0.1 + 0.2 * np.cos(3 * t)], lindblad_operators=[lambda t: oqupy.operators.sigma("-")])
        else:
            sysm = oqupy.TimeDependentSystem(lambda t: h0, gammas=[lambda t: 0.1 + 0.05 * t], lindblad_operators=[lambda t: oqupy.operators.sigma("-")])
        rho0 = oqupy.operators.spin_dm(rng.choice(["x+", "z-", "y+"]))
        unique = rng.random() < 0.5
        if three:
            rho0 = a3 @ a3.conj().T
            rho0 = rho0 / np.trace(rho0)
            unique = rng.random() < 0.75
        if it % 2 == 1:
            # the same initial state in Fortran memory order (same values; y+ / the random three-level states are not symmetric)
            if not three:
                rho0 = oqupy.operators.spin_dm("y+") if it % 4 == 1 else rho0
            rho0 = np.asfortranarray(rho0)
        info = {"dt": dt, "n": n, "start": start, "dkmax": dkmax, "tau_add": tau, "system": kind, "epsrel": eps, "unique": unique,
                "initial_state_order": "F" if it % 2 == 1 else "C"}
        # how the propagators of a time-dependent system are obtained: sampled at the quarter points (subdiv_limit=None, both
        # methods) or integrated with the SAME settings in both methods (every third case; the pulse of it == 0 in every run)
        sub, leps = None, None
        if it % 3 == 0 and it != 6:
            sub, leps = rng.choice([(64, 1e-10), (256, 1e-9)])
            par = oqupy.TempoParameters(dt=par.dt, epsrel=par.epsrel, dkmax=par.dkmax, add_correlation_time=par.add_correlation_time,
                                        subdiv_limit=sub, liouvillian_epsrel=leps)
            info["liouvillian_integration"] = [sub, leps]
        kw_int = dict(subdiv_limit=None) if sub is None else dict(subdiv_limit=sub, liouvillian_epsrel=leps)
        try:
            if it % 3 == 2:
                # the one-call wrapper must be the same computation
                ds = np.array(quiet(oqupy.tempo_compute, sysm, bath, rho0, start, start + n * dt, parameters=par, unique=unique, progress_type="silent").states)
            else:
                t = oqupy.Tempo(sysm, bath, par, rho0, start, unique=unique)
                if it % 2 == 0 and n >= 3:
                    # the TEMPO propagation continued over several compute() calls (legs of one step and more)
                    legs = sorted(set([1, rng.randint(2, n - 1)]))
                    info["tempo_compute_calls"] = legs + [n]
                    for k_ in legs:
                        quiet(t.compute, start + k_ * dt, progress_type="silent")
                dyn_t = quiet(t.compute, start + n * dt, progress_type="silent")
                ds = np.array(dyn_t.states)
                if len(dyn_t.times) != n + 1 or np.abs(np.array(dyn_t.times) - (start + dt * np.arange(n + 1))).max() > 1e-9:
                    chk.fail("tempo-vs-pttempo-api", f"Tempo: the times of the (continued) computation are {list(np.round(dyn_t.times, 6))}, not start + k dt", info)
            # the process tensor in memory or written directly to a file (every run: the generic complex coupling of it == 2)
            file_backed = it == 2 or (it > 5 and rng.random() < 0.2)
            info["process_tensor"] = "file-backed" if file_backed else "memory"
            pt = quiet(oqupy.pt_tempo_compute, bath, start, start + n * dt, parameters=par, unique=unique,
                       process_tensor_file=True if file_backed else None, progress_type="silent")
            dp = np.array(quiet(oqupy.compute_dynamics, sysm, initial_state=rho0, process_tensor=pt, start_time=start,
                                progress_type="silent", **kw_int).states)
            if n >= 4:
                dq_pre = np.array(quiet(oqupy.compute_dynamics, sysm, initial_state=rho0, process_tensor=pt, start_time=start, num_steps=n - 2,
                                        progress_type="silent", **kw_int).states)
            if file_backed:
                pt.remove()
        except Exception as ex:
            chk.fail("api-raises", f"Tempo / PtTempo raise {ex!r}", info)
            continue
        chk.search_cases += 1
        chk.count("api_" + kind)
        err = np.abs(ds - dp).max() if ds.shape == dp.shape else np.inf
        info["difference"] = float(err)
        if err > (2e3 if eps > 1e-10 else 2e2) * eps:
            chk.fail("tempo-vs-pttempo-api", f"Tempo and PtTempo+compute_dynamics differ by {err:.2e} (epsrel {eps})", info)
        if n >= 4:
            dq = dq_pre
            chk.search_cases += 1
            if np.abs(dq - dp[:n - 1]).max() > 2e3 * eps:
                chk.fail("prefix-differs-api", "the first steps from a longer process tensor differ from the full run", info)


def glue_check(chk, n_cases, force_unique=False, spectra=None):
    """the library's own glue between the back-ends and influence_matrix (Tempo._influence, PtTempo._influence,
    MeanFieldTempo._get_influence): whatever step distance dk a back-end asks for, influence_matrix must be called with
    exactly that dk, the object's parameters, the bath's correlations and coupling spectra and, with unique=True, the FIRST
    index of every degeneracy class (None otherwise).  Exact, no physics involved."""
    import oqupy.tempo as tmod
    import oqupy.pt_tempo as pmod
    rng = chk.rng
    sx, sy, sz = (oqupy.operators.sigma(a) for a in "xyz")
    real = tmod.influence_matrix
    for it in range(n_cases):
        method = ["tempo", "pttempo", "meanfield"][it % 3]
        d = rng.choice([2, 3])
        unique = force_unique or rng.random() < 0.6
        dt = rng.choice([0.1, 0.2])
        n = rng.randint(4, 8)
        dkmax = rng.choice([None, 1, 2, 3])
        tau = rng.choice([None, 0.15, 0.33, 0.5, np.inf]) if dkmax is not None else None
        par = oqupy.TempoParameters(dt=dt, epsrel=1e-4, dkmax=dkmax, add_correlation_time=tau)
        ev = [rng.choice([0.0, 1.0, 1.0, 2.0]) for _ in range(d)]
        if spectra:
            ev = list(spectra[(it // 3) % len(spectra)])
            d = len(ev)
        O = np.diag(ev).astype(complex)
        if rng.random() < 0.5:
            z = np.array([[rng.gauss(0, 1) + 1j * rng.gauss(0, 1) for _ in range(d)] for _ in range(d)])
            q, _ = np.linalg.qr(z)
            O = q @ O @ q.conj().T
            O = (O + O.conj().T) / 2
        corr = oqupy.PowerLawSD(alpha=0.1, zeta=1, cutoff=2.0, cutoff_type="exponential", temperature=0.2)
        bath = oqupy.Bath(O, corr)
        calls, asked = [], []

        def rec(dk, parameters=None, correlations=None, coupling_acomm=None, coupling_comm=None, deg_positions=None, **kw):
            calls.append((dk, parameters, correlations, coupling_acomm, coupling_comm, deg_positions, sorted(kw)))
            return real(dk, parameters=parameters, correlations=correlations, coupling_acomm=coupling_acomm, coupling_comm=coupling_comm,
                        deg_positions=deg_positions, **kw)
        info = {"kind": "glue", "method": method, "d": d, "unique": unique, "dkmax": dkmax, "tau_add": tau, "n": n, "dt": dt, "eigenvalues": ev}
        tmod.influence_matrix = rec
        pmod.influence_matrix = rec
        try:
            H = np.diag(np.arange(d)).astype(complex) * 0.3
            rho0 = np.eye(d, dtype=complex) / d
            if method == "tempo":
                obj = oqupy.Tempo(oqupy.System(H), bath, par, rho0, 0.0, unique=unique)
                inner = obj._influence
                obj._backend_instance._influence = lambda dk: (asked.append(dk), inner(dk))[1]
                quiet(obj.compute, n * dt, progress_type="silent")
            elif method == "pttempo":
                obj = oqupy.PtTempo(bath, 0.0, n * dt, par, unique=unique)
                inner = obj._influence
                obj._backend_instance._influence = lambda dk: (asked.append(dk), inner(dk))[1]
                quiet(obj.compute, progress_type="silent")
            else:
                # two species: the second bath carries the same spectrum in another order
                ev2 = ev[1:] + ev[:1]
                bath2 = oqupy.Bath(np.diag(ev2).astype(complex), corr)
                ss_ = [oqupy.TimeDependentSystemWithField(lambda t, a: H) for _ in range(2)]
                mfs = oqupy.MeanFieldSystem(ss_, field_eom=lambda t, st, a: 0.0)
                obj = oqupy.MeanFieldTempo(mfs, [bath, bath2], par, [rho0, rho0], 0.0 + 0j, 0.0, unique=unique)
                quiet(obj.compute, n * dt, progress_type="silent")
                # keep the calls that belong to the first bath for the checks below, verify the second bath's here
                calls2 = [c for c in calls if np.array_equal(c[4], bath2.coupling_comm) and np.array_equal(c[3], bath2.coupling_acomm)
                          and not (np.array_equal(c[4], bath.coupling_comm) and np.array_equal(c[3], bath.coupling_acomm))]
                if unique and calls2:
                    n2, w2 = np.array(bath2.north_degeneracy_map), np.array(bath2.west_degeneracy_map)
                    want2 = [[int(np.where(n2 == c)[0][0]) for c in range(n2.max() + 1)], [int(np.where(w2 == c)[0][0]) for c in range(w2.max() + 1)]]
                    for c in calls2:
                        if c[5] is None or [list(map(int, x)) for x in c[5]] != want2:
                            chk.fail("influence-glue", f"meanfield (unique=True): the second species' influence was requested with degeneracy positions "
                                     f"{None if c[5] is None else [list(map(int, x)) for x in c[5]]}, the first members of ITS classes are {want2}", info)
                            break
                calls[:] = [c for c in calls if c not in calls2]
        except Exception as ex:
            chk.fail("api-raises", f"{method} raises {ex!r}", info)
            continue
        finally:
            tmod.influence_matrix = real
            pmod.influence_matrix = real
        chk.search_cases += 1
        chk.count("glue_" + method)
        chk.case(info, ("glue", method, d, unique, dkmax, tau, n, dt, tuple(ev)))
        if unique:
            nmap, wmap = np.array(bath.north_degeneracy_map), np.array(bath.west_degeneracy_map)
            want_pos = [[int(np.where(nmap == c)[0][0]) for c in range(nmap.max() + 1)], [int(np.where(wmap == c)[0][0]) for c in range(wmap.max() + 1)]]
        bad = None
        if asked and [c[0] for c in calls] != asked:
            bad = f"the back-end asked for step distances {asked[:12]}..., influence_matrix was called with {[c[0] for c in calls][:12]}..."
        for c in calls:
            if bad:
                break
            if c[1] is not par and not (c[1].dt == par.dt and c[1].dkmax == par.dkmax and c[1].add_correlation_time == par.add_correlation_time and c[1].epsrel == par.epsrel):
                bad = "influence_matrix was called with different parameters"
            elif not (np.array_equal(c[3], bath.coupling_acomm) and np.array_equal(c[4], bath.coupling_comm)) or c[6]:
                bad = "influence_matrix was called with coupling spectra other than the bath's"
            elif (c[5] is None) == unique or (unique and [list(map(int, x)) for x in c[5]] != want_pos):
                bad = f"influence_matrix was called with degeneracy positions {None if c[5] is None else [list(map(int, x)) for x in c[5]]}, the first members of the classes are {want_pos if unique else None}"
        if not calls:
            bad = "influence_matrix was never called"
        if bad:
            chk.fail("influence-glue", f"{method} (unique={unique}, dkmax={dkmax}, add_correlation_time={tau}): {bad}", info)


def run(chk):
    thorough = chk.tier == "thorough"
    chk.proofs()
    exprs, expected, meta = [], [], []
    backend_cases(chk, 90 if thorough else 30, exprs, expected, meta)
    vals, errs = run_cases("C02", HEADER, exprs, chunk=30)
    for e in errs:
        chk.disagree("coq evaluation", e)
    compare(chk, vals, expected, meta)
    api_search(chk, 40 if (thorough or chk.disagreements or chk.broken) else 10)
    glue_check(chk, 36 if thorough else 12)
    return chk.finish(
        level="proof",
        trusted=["models: Model/Schedule.v (which influence where), Model/PathSum.v (exact network value), Model/PT.v + Model/Dyn.v",
                 "the implementation's result passes through SVDs: comparison with the exact model at 1e-8 relative (observed 1e-14)",
                 "injected integer influence functions and propagators at back-end level"],
        rule="TempoBackend and PtTempoBackend with one random Gaussian-integer influence matrix per key (generic and causal families), "
             "integer propagators, integer 'unitaries', n in 2..4, dkmax in {None,1,2,3,n,n+1}, with/without rectangles; requested keys "
             "compared exactly; public-API search Tempo vs PtTempo at two tolerances; distinct = (backend, n, dkmax, rect, family)",
        assumptions=["PT-TEMPO intermediate states are compared for causal influences only (arbitrary ones are not a process tensor of a causal environment)"])
