import argparse, importlib, json, os, sys, traceback
from harness.common import Check

def main():
    ap = argparse.ArgumentParser()
    ap.add_argument("pid")
    ap.add_argument("--tier", default=os.environ.get("VERIF_TIER", "quick"))
    ap.add_argument("--replay", default=None)
    a = ap.parse_args()
    seed = int(os.environ.get("VERIF_SEED", "1"))
    mod = importlib.import_module("harness." + a.pid.lower())
    if a.replay:
        obj = json.load(open(a.replay))
        print(f"replay of {a.replay}: property={obj.get('property')} key={obj.get('key')}\n  {obj.get('what')}\n  input: {str(obj.get('replay'))[:1500]}")
        if hasattr(mod, "replay"):
            sys.exit(mod.replay(obj))
        # generic replay: every random choice derives from (seed, property), so re-running the check at the
        # recorded seed and tier regenerates the recorded input; report whether the same failure recurs
        seed = int(obj.get("seed", seed))
        chk = Check(a.pid, obj.get("tier", a.tier), seed)
        rc = mod.run(chk)
        again = [k for k, _, _ in chk.failures if k == obj.get("key")]
        print(f"replay: failure '{obj.get('key')}' {'REPRODUCED' if again or (obj.get('key') == 'no-failing-input' and rc) else 'not reproduced'}")
        sys.exit(rc)
    chk = Check(a.pid, a.tier, seed)
    try:
        rc = mod.run(chk)
    except Exception:
        # the harness itself failed (typically because the implementation now raises or returns
        # something the drivers do not expect): the correspondence no longer checks
        tb = traceback.format_exc()
        print(tb[-2000:])
        chk.disagree("harness exception (implementation behaviour outside what the drivers expect)", tb[-3000:])
        if not chk.obligations:
            try:
                chk.proofs()
            except Exception:
                pass
        rc = chk.finish(level="proof", rule="run aborted by an exception; see disagreements",
                        explanation="aborted")
    sys.exit(rc)

if __name__ == "__main__":
    main()
