import argparse, importlib, json, os, sys, traceback
from harness.common import Check

def main():
    ap = argparse.ArgumentParser()
    ap.add_argument("pid")
    ap.add_argument("--tier", default=os.environ.get("VERIF_TIER", "quick"))
    ap.add_argument("--replay", default=None)
    a = ap.parse_args()
    seed = int(os.environ.get("VERIF_SEED", "1"))
    mod = importlib.import_module("harness." + a.pid.lower())
    if a.replay:
        sys.exit(mod.replay(json.load(open(a.replay))))
    chk = Check(a.pid, a.tier, seed)
    sys.exit(mod.run(chk))

if __name__ == "__main__":
    main()
