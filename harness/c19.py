"""C19 — no computation leaves background activity behind, whether it returns or fails."""
import contextlib
import io
import itertools
import json
import os
import subprocess
import sys
import threading
import numpy as np
import oqupy
import oqupy.util as outil

from harness.common import run_cases, ints, coq_list, REPO
from harness.impl import quiet

HEADER = """From Coq Require Import Arith List Bool.
From OQ Require Import Model.Progress.
Import ListNotations.
Definition code (t : timer) : nat := match t_stat t with New => 0 | Armed => 1 | Cancelled => 2 | Fired => 3 end.
Definition obs (ops : list fop) : list nat :=
  let s := fold_left fstep ops init in pending s :: map code (timers s).
Definition pcode (e : pev) : nat := match e with PEnter => 0 | PUpdate => 1 | PExit => 2 end.
(* the calls of one API run: number of updates of each call, and whether the last one raised *)
Definition paths (upd : list nat) (raised : bool) : list (list outcome) :=
  let n := length upd in
  map (fun p => repeat Go (snd p) ++ (if raised && Nat.eqb (S (fst p)) n then [Raise] else [])) (combine (seq 0 n) upd).
Definition api_log (upd : list nat) (raised : bool) : list nat := map pcode (calls_log 0 (paths upd raised))."""

STAT = {"new": 0, "armed": 1, "cancelled": 2, "fired": 3}


class Sched:
    """Preemption control for FakeTimer: thread X pauses at its k-th shared-state operation and lets
    thread Y run (to completion, or until it blocks on the bar's lock)."""

    def __init__(self):
        self.x_thread = None
        self.at = None
        self.count = 0
        self.y = None
        self.triggered = False

    def point(self):
        if self.x_thread is not threading.current_thread() or self.at is None or self.triggered:
            return
        self.count += 1
        if self.count == self.at:
            self.triggered = True
            self.y.start()
            self.y.join(0.15)


SCHED = Sched()


class FakeTimer:
    """Deterministic stand-in for threading.Timer: never fires by itself."""
    registry = []

    def __init__(self, interval, function, args=None, kwargs=None):
        SCHED.point()
        self.function = function
        self.state = "new"
        FakeTimer.registry.append(self)

    def start(self):
        SCHED.point()
        if self.state == "new":
            self.state = "armed"

    def cancel(self):
        SCHED.point()
        if self.state in ("new", "armed"):
            self.state = "cancelled"


class FlakyStream(io.StringIO):
    """an output stream that raises on write while [broken] is set"""
    broken = False

    def write(self, text):
        if self.broken:
            raise OSError("stream closed")
        return super().write(text)


class Rig:
    """A real ProgressBar wired to FakeTimers and to a stream that can be made to fail."""

    def __init__(self, ctx_exc=False):
        # ctx_exc: drive the bar through its context-manager protocol, leaving the with-block through an exception
        FakeTimer.registry = []
        self.pending = []
        self.buf = FlakyStream()
        self.raised = []
        self.ctx_exc = ctx_exc
        with contextlib.redirect_stdout(self.buf):
            self.bar = outil.ProgressBar(10, None)

    def do(self, op):
        # the bar writes to the stream it captured at construction (self.buf); no global redirect here,
        # because redirect_stdout is process-wide and this method runs on two threads
        if op in ("Uf", "Xf", "Rf"):
            # the same operation with the output stream failing: the exception is the caller's to see
            self.buf.broken = True
            try:
                self.do(op[0])
                self.raised.append(False)
            except OSError:
                self.raised.append(True)
            finally:
                self.buf.broken = False
        elif op == "E":
            if self.ctx_exc:
                self.bar.__enter__()
            else:
                self.bar.enter()
        elif op == "U":
            self.bar.update(1)
        elif op == "X":
            if self.ctx_exc:
                err = Boom("raised inside the with-block")
                self.bar.__exit__(Boom, err, None)
            else:
                self.bar.exit()
        elif op == "R":
            if self.pending:
                self.pending.pop(0)()
        else:
            i = int(op[1:])
            if i < len(FakeTimer.registry) and FakeTimer.registry[i].state == "armed":
                t = FakeTimer.registry[i]
                t.state = "fired"
                # the first timer only prints; every later timer's callback is the one that re-arms (whatever it is called)
                if getattr(t.function, "__name__", "") != "_print_status":
                    self.pending.append(t.function)

    def obs(self):
        return [len(self.pending)] + [STAT[t.state] for t in FakeTimer.registry]


def op_lit(op):
    base = {"E": "Enter", "U": "Update", "X": "Exit", "R": "Run"}
    if op in ("Uf", "Xf", "Rf"):
        return f"PFail {base[op[0]]}"
    return "POk " + (base.get(op) or f"(Fire {int(op[1:])})")


def traces(maxlen, failing=False):
    """all op sequences after Enter over {U, X, R, Fi} with i among existing timers; with [failing] also the
    variants of U, X, R whose print raises (only the sequences containing at least one of them are returned)"""
    out = []
    alphabet = ["U", "X", "R"] + (["Uf", "Xf", "Rf"] if failing else [])

    def rec(prefix, ntimers):
        if len(prefix) > 1 and (not failing or any(o.endswith("f") for o in prefix)):
            out.append(list(prefix))
        if len(prefix) - 1 >= maxlen:
            return
        for op in alphabet + [f"F{i}" for i in range(ntimers)]:
            nt = ntimers + (1 if op[0] in ("U", "R") else 0)      # upper bound on allocated timers
            rec(prefix + [op], nt)
    rec(["E"], 1)
    return out


class Recorder(outil.BaseProgress):
    log = []

    def __init__(self, max_value, title=None):
        Recorder.log.append("init")

    def enter(self):
        Recorder.log.append("enter")
        return self

    def exit(self):
        Recorder.log.append("exit")

    def update(self, step=None):
        Recorder.log.append("update")


class Boom(Exception):
    pass


class BoomBase(BaseException):
    """a failure that is not an Exception (KeyboardInterrupt while a user callable runs, SystemExit, GeneratorExit):
    'however the call ends' includes these"""



def apis():
    """(name, guarded-by-with?, callable(fail_at) -> runs the API with a user callable failing at its
    `fail_at`-th evaluation (None: no failure))"""
    corr = oqupy.PowerLawSD(alpha=0.05, zeta=1, cutoff=3.0, cutoff_type="exponential")
    bath = oqupy.Bath(0.5 * oqupy.operators.sigma("z"), corr)
    par = oqupy.TempoParameters(dt=0.1, epsrel=1e-4, dkmax=2, subdiv_limit=None)
    rho = oqupy.operators.spin_dm("x+")
    pt = oqupy.process_tensor.SimpleProcessTensor(2, dt=0.1)
    for k in range(3):
        pt.set_mpo_tensor(k, np.ones((1, 1, 4), dtype=complex))
    for k in range(4):
        pt.set_cap_tensor(k, np.ones(1, dtype=complex))

    def counted(fail_at):
        st = {"n": 0, "armed": False}

        def tick():
            if st["armed"]:
                st["n"] += 1
                if fail_at is not None and st["n"] == fail_at:
                    raise (BoomBase() if fail_at % 2 == 0 else Boom())      # every second failure point: not an Exception
        return st, tick

    def tempo(fail_at):
        st, tick = counted(fail_at)
        def ham(t):
            tick()
            return 0.3 * oqupy.operators.sigma("x")
        t = oqupy.Tempo(oqupy.TimeDependentSystem(ham), bath, par, rho, 0.0)
        st["armed"] = True
        t.compute(0.3, progress_type="rec")

    def tempo_sd(fail_at):
        # the failing user callable is the bath's spectral density, evaluated lazily inside the influence functions while the
        # computation (and its progress report) is under way
        st, tick = counted(fail_at)
        def jf(w):
            tick()
            return 0.1 * w
        b2 = oqupy.Bath(0.5 * oqupy.operators.sigma("z"), oqupy.CustomSD(jf, cutoff=3.0, cutoff_type="exponential", temperature=0.1))
        t = oqupy.Tempo(oqupy.System(0.3 * oqupy.operators.sigma("x")), b2, oqupy.TempoParameters(dt=0.1, epsrel=1e-4, dkmax=None), rho, 0.0)
        st["armed"] = True
        t.compute(0.3, progress_type="rec")

    def gibbs_sd(fail_at):
        st, tick = counted(fail_at)
        def jf(w):
            tick()
            return 0.1 * w
        g = oqupy.GibbsTempo(oqupy.System(0.3 * oqupy.operators.sigma("x")), oqupy.Bath(np.diag([1.0, -0.5]), oqupy.CustomSD(jf, cutoff=3.0, cutoff_type="exponential", temperature=0.7)),
                             oqupy.GibbsParameters(n_steps=5, epsrel=1e-6))
        st["armed"] = True
        g.compute(progress_type="rec")

    def again(fail_at):
        # calls with nothing left to do: a finished object asked again (the brackets of every call close on its ordinary return path)
        g = oqupy.GibbsTempo(oqupy.System(0.3 * oqupy.operators.sigma("x")), oqupy.Bath(np.diag([1.0, -0.5]), oqupy.PowerLawSD(alpha=0.1, zeta=1, cutoff=3.0,
                             cutoff_type="exponential", temperature=0.7)), oqupy.GibbsParameters(n_steps=5, epsrel=1e-6))
        g.compute(progress_type="rec")
        g.compute(progress_type="rec")
        t = oqupy.Tempo(oqupy.System(0.3 * oqupy.operators.sigma("x")), bath, par, rho, 0.0)
        t.compute(0.3, progress_type="rec")
        t.compute(0.3, progress_type="rec")
        p_ = oqupy.PtTempo(bath, 0.0, 0.3, par)
        p_.compute(progress_type="rec")
        p_.compute(progress_type="rec")
        oqupy.compute_dynamics(oqupy.System(0.3 * oqupy.operators.sigma("x")), initial_state=rho, process_tensor=pt, num_steps=0, progress_type="rec")

    def meanfield(fail_at):
        st, tick = counted(fail_at)
        def eom(t, states, a):
            tick()
            return -0.1 * a
        s = oqupy.TimeDependentSystemWithField(lambda t, a: 0.3 * oqupy.operators.sigma("x"))
        m = oqupy.MeanFieldTempo(oqupy.MeanFieldSystem([s], field_eom=eom), [bath], par, [rho], 0.1 + 0j, 0.0)
        st["armed"] = True
        m.compute(0.3, progress_type="rec")

    def dyn(fail_at):
        st, tick = counted(fail_at)
        def ham(t):
            tick()
            return 0.3 * oqupy.operators.sigma("x")
        s = oqupy.TimeDependentSystem(ham)
        st["armed"] = True
        oqupy.compute_dynamics(s, initial_state=rho, process_tensor=pt, subdiv_limit=None, progress_type="rec")

    def dyn_field(fail_at):
        st, tick = counted(fail_at)
        def eom(t, states, a):
            tick()
            return -0.1 * a
        s = oqupy.TimeDependentSystemWithField(lambda t, a: 0.3 * oqupy.operators.sigma("x"))
        m = oqupy.MeanFieldSystem([s], field_eom=eom)
        st["armed"] = True
        oqupy.compute_dynamics_with_field(m, 0.1 + 0j, process_tensor_list=[pt], initial_state_list=[rho],
                                          subdiv_limit=None, progress_type="rec")

    def grad(fail_at):
        st, tick = counted(fail_at)
        def ham(x):
            tick()
            return x * oqupy.operators.sigma("x")
        s = oqupy.ParameterizedSystem(ham)
        st["armed"] = True
        oqupy.state_gradient(system=s, initial_state=rho, target_derivative=np.eye(2), process_tensors=[pt],
                             parameters=np.ones((6, 1)) * 0.2, progress_type="rec")

    def grad_final(fail_at):
        # the entry point below state_gradient, asked for the final state only (record_all=False)
        from oqupy.gradient import compute_gradient_and_dynamics
        st, tick = counted(fail_at)
        def ham(x):
            tick()
            return x * oqupy.operators.sigma("x")
        s = oqupy.ParameterizedSystem(ham)
        st["armed"] = True
        compute_gradient_and_dynamics(system=s, initial_state=rho, target_derivative=np.eye(2), process_tensors=[pt],
                                      parameters=np.ones((6, 1)) * 0.2, record_all=False, progress_type="rec")

    def grad_target(fail_at):
        # the objective's derivative is a user callable of the final state: it is evaluated after the forward pass
        st, tick = counted(fail_at)
        def target(state):
            tick()
            return np.eye(2, dtype=complex)
        s = oqupy.ParameterizedSystem(lambda x: x * oqupy.operators.sigma("x"))
        st["armed"] = True
        oqupy.state_gradient(system=s, initial_state=rho, target_derivative=target, process_tensors=[pt],
                             parameters=np.ones((6, 1)) * 0.2, progress_type="rec")

    def grad_derivs(fail_at):
        # user-supplied propagator derivatives: evaluated twice per step in the forward/backward pass and again in the chain-rule
        # phase (which has a progress object of its own); fail_at odd/even: raises an Exception / a BaseException; fail_at >= 100:
        # from evaluation fail_at - 100 on it returns an EMPTY list of derivatives (too few for the one parameter)
        st, tick = counted(fail_at if (fail_at is None or fail_at < 100) else None)
        def derivs(dt, params):
            tick()
            if st["armed"] and fail_at is not None and fail_at >= 100:
                st["n"] += 1
                if st["n"] >= fail_at - 100:
                    return []
            return [np.zeros((4, 4), dtype=complex)]
        s = oqupy.ParameterizedSystem(lambda x: x * oqupy.operators.sigma("x"), propagator_derivatives=derivs)
        st["armed"] = True
        try:
            oqupy.state_gradient(system=s, initial_state=rho, target_derivative=np.eye(2), process_tensors=[pt],
                                 parameters=np.ones((6, 1)) * 0.2, progress_type="rec")
        except (IndexError, ValueError, AssertionError, TypeError) as ex:
            if fail_at is None or fail_at < 100:
                raise
            raise Boom() from ex

    def corr_nt(fail_at):
        st, tick = counted(fail_at)
        def ham(t):
            tick()
            return 0.3 * oqupy.operators.sigma("x")
        s = oqupy.TimeDependentSystem(ham)
        st["armed"] = True
        oqupy.compute_correlations_nt(s, pt, [np.eye(2), np.eye(2)], [slice(0, 3), slice(None)], ["left", "left"], rho, 0.0,
                                      progress_type="rec")

    def pttempo(fail_at):
        # the user callable is the bath correlation function (integrated while the process tensor is being computed)
        st, tick = counted(fail_at)

        def cfun(t):
            tick()
            return 0.05 * np.exp(-t * t)
        b2 = oqupy.Bath(0.5 * oqupy.operators.sigma("z"), oqupy.CustomCorrelations(cfun))
        p = oqupy.PtTempo(b2, 0.0, 0.3, par)
        st["armed"] = True
        p.compute(progress_type="rec")

    def tebd(fail_at):
        # the user-supplied object is a process tensor whose tensors fail at the fail_at-th request (e.g. a file-backed
        # tensor that cannot be read, a process tensor shorter than the requested propagation)
        st, tick = counted(fail_at)

        class BoomPT(oqupy.process_tensor.SimpleProcessTensor):
            def get_mpo_tensor(self, step, transformed=True):
                tick()
                return super().get_mpo_tensor(step, transformed)
        bpt = BoomPT(2, dt=0.1)
        for k in range(3):
            bpt.set_mpo_tensor(k, np.ones((1, 1, 4), dtype=complex))
        for k in range(4):
            bpt.set_cap_tensor(k, np.ones(1, dtype=complex))
        chain = oqupy.SystemChain([2, 2])
        chain.add_site_hamiltonian(0, 0.5 * oqupy.operators.sigma("z"))
        p = oqupy.PtTebd(oqupy.AugmentedMPS([rho, rho]), chain, [bpt, None], oqupy.PtTebdParameters(dt=0.1, order=1, epsrel=1e-6))
        st["armed"] = True
        p.compute(3, progress_type="rec")

    def broken_pt(which):
        """a process tensor that fails late: its cap tensor of step `which` has the wrong shape / is absent, every MPO tensor is fine"""
        bp = oqupy.process_tensor.SimpleProcessTensor(2, dt=0.1)
        for k in range(3):
            bp.set_mpo_tensor(k, np.ones((1, 1, 4), dtype=complex))
        for k in range(4):
            if k != which:
                bp.set_cap_tensor(k, np.ones(1, dtype=complex))
            elif which < 3:
                bp.set_cap_tensor(k, np.ones(3, dtype=complex))
        return bp

    def dyn_caps(fail_at):
        # fail_at = 1..4: the cap of step fail_at - 1 (the last one: the final-state extraction after the loop)
        bp = broken_pt(fail_at - 1) if fail_at is not None else pt
        try:
            oqupy.compute_dynamics(oqupy.System(0.3 * oqupy.operators.sigma("x")), initial_state=rho, process_tensor=bp, progress_type="rec")
        except (ValueError, IndexError, TypeError, AttributeError) as ex:
            if fail_at is None:
                raise
            raise Boom() from ex

    def field_caps(fail_at):
        bp = broken_pt(fail_at - 1) if fail_at is not None else pt
        sf = oqupy.TimeDependentSystemWithField(lambda t, a: 0.3 * oqupy.operators.sigma("x"))
        try:
            oqupy.compute_dynamics_with_field(oqupy.MeanFieldSystem([sf], field_eom=lambda t, st_, a: -0.1 * a), 0.1 + 0j, process_tensor_list=[bp],
                                              initial_state_list=[rho], progress_type="rec")
        except (ValueError, IndexError, TypeError, AttributeError) as ex:
            if fail_at is None:
                raise
            raise Boom() from ex

    return [("compute_dynamics(bad cap tensor)", False, dyn_caps, [1, 2, 3, 4]), ("compute_dynamics_with_field(bad cap tensor)", False, field_caps, [1, 2, 3, 4]),
            ("calls with nothing left to do (GibbsTempo, Tempo, PtTempo asked again; compute_dynamics over zero steps)", True, again, False),
            ("Tempo.compute", True, tempo, True), ("MeanFieldTempo.compute", True, meanfield, True),
            ("Tempo.compute(spectral density fails)", True, tempo_sd, [1, 31, 800, 2500]), ("GibbsTempo.compute(spectral density fails)", True, gibbs_sd, [1, 31, 500, 1500]),
            ("compute_correlations_nt", True, corr_nt, True),
            ("compute_dynamics", False, dyn, True), ("compute_dynamics_with_field", False, dyn_field, True),
            ("compute_gradient_and_dynamics", False, grad, True),
            ("compute_gradient_and_dynamics(callable target)", False, grad_target, True),
            ("compute_gradient_and_dynamics(record_all=False)", False, grad_final, True),
            ("state_gradient(user-supplied propagator derivatives)", False, grad_derivs, [1, 2, 3, 6, 7, 101, 102, 104]),
            ("PtTempo.compute", True, pttempo, [1, 30, 200, 1000]), ("PtTebd.compute", True, tebd, True)]


CHILD = r'''
import sys, threading, time, io, contextlib
import numpy as np
import oqupy
mode = sys.argv[1]
class Boom(Exception): pass
corr = oqupy.PowerLawSD(alpha=0.05, zeta=1, cutoff=3.0, cutoff_type="exponential")
bath = oqupy.Bath(0.5 * oqupy.operators.sigma("z"), corr)
par = oqupy.TempoParameters(dt=0.1, epsrel=1e-4, dkmax=2, subdiv_limit=None)
rho = oqupy.operators.spin_dm("x+")
n = [0]
def ham(t):
    n[0] += 1
    if n[0] == 4: raise Boom()
    return 0.3 * oqupy.operators.sigma("x")
buf = io.StringIO()
try:
    with contextlib.redirect_stdout(buf):
        if mode == "tempo":
            t = oqupy.Tempo(oqupy.TimeDependentSystem(ham), bath, par, rho, 0.0); n[0] = 0
            t.compute(0.5, progress_type="bar")
        elif mode == "dynamics":
            pt = oqupy.process_tensor.SimpleProcessTensor(2, dt=0.1)
            for k in range(4): pt.set_mpo_tensor(k, np.ones((1, 1, 4), dtype=complex))
            for k in range(5): pt.set_cap_tensor(k, np.ones(1, dtype=complex))
            s = oqupy.TimeDependentSystem(ham); n[0] = 0
            oqupy.compute_dynamics(s, initial_state=rho, process_tensor=pt, subdiv_limit=None, progress_type="bar")
        elif mode == "brokenstream":
            # the output stream of a bar-mode computation starts failing (closed stdout / broken pipe)
            import oqupy.util as u
            real = threading.Timer
            u.Timer = lambda interval, fn: real(0.05, fn)
            class Broken(io.StringIO):
                attempts = 0
                def write(self, text):
                    Broken.attempts += 1
                    if Broken.attempts > 2: raise OSError("stream closed")
                    return super().write(text)
            br = Broken()
            def ham2(t): return 0.3 * oqupy.operators.sigma("x")
            t = oqupy.Tempo(oqupy.TimeDependentSystem(ham2), bath, par, rho, 0.0)
            try:
                with contextlib.redirect_stdout(br):
                    t.compute(0.5, progress_type="bar")
            except OSError:
                pass
            buf = type("B", (), {"getvalue": staticmethod(lambda: "x" * Broken.attempts)})()
            raise Boom()
        elif mode in ("tebd-threads", "tebd-threads-fail"):
            # PT-TEBD with the documented backend option 'multithread': worker threads belong to the call, not to the object
            chain = oqupy.SystemChain([2, 2, 2])
            for i in range(3): chain.add_site_hamiltonian(i, 0.5 * oqupy.operators.sigma("z"))
            for i in range(2): chain.add_nn_hamiltonian(i, 0.4 * oqupy.operators.sigma("x"), oqupy.operators.sigma("x"))
            spt = oqupy.process_tensor.SimpleProcessTensor(2, dt=0.1)
            for k in range(2): spt.set_mpo_tensor(k, np.ones((1, 1, 4), dtype=complex))
            for k in range(3): spt.set_cap_tensor(k, np.ones(1, dtype=complex))
            KEEP = oqupy.PtTebd(oqupy.AugmentedMPS([rho, rho, rho]), chain, [spt, None, None], oqupy.PtTebdParameters(dt=0.1, order=2, epsrel=1e-6),
                                backend_config={"parallel": "multithread"})
            try:
                # the process tensor covers two steps: asking for four fails inside the third step
                KEEP.compute(2 if mode == "tebd-threads" else 4, progress_type="bar")
            except IndexError:
                pass
            raise Boom()
        elif mode == "zero-steps":
            # bar-mode calls with nothing to do (a bar over zero steps): asked again for a time already reached, a first call to the start
            # time itself, an empty propagation; the objects stay referenced
            def ham3(t): return 0.3 * oqupy.operators.sigma("x")
            KEEP = [oqupy.Tempo(oqupy.TimeDependentSystem(ham3), bath, par, rho, 0.0), oqupy.Tempo(oqupy.TimeDependentSystem(ham3), bath, par, rho, 0.2)]
            KEEP[0].compute(0.3, progress_type="bar")
            KEEP[0].compute(0.3, progress_type="bar")
            KEEP[1].compute(0.2, progress_type="bar")
            pt = oqupy.process_tensor.SimpleProcessTensor(2, dt=0.1)
            for k in range(3): pt.set_mpo_tensor(k, np.ones((1, 1, 4), dtype=complex))
            for k in range(4): pt.set_cap_tensor(k, np.ones(1, dtype=complex))
            oqupy.compute_dynamics(oqupy.System(0.3 * oqupy.operators.sigma("x")), initial_state=rho, process_tensor=pt, num_steps=0, progress_type="bar")
            import oqupy.util as u
            b = u.ProgressBar(0, None); b.enter(); b.update(0); b.exit()
            KEEP.append(b)
            raise Boom()
        elif mode == "gibbs-again":
            KEEP = oqupy.GibbsTempo(oqupy.System(0.3 * oqupy.operators.sigma("x")), oqupy.Bath(np.diag([1.0, -0.5]), oqupy.PowerLawSD(alpha=0.1, zeta=1, cutoff=3.0,
                                    cutoff_type="exponential", temperature=0.7)), oqupy.GibbsParameters(n_steps=5, epsrel=1e-6))
            KEEP.compute(progress_type="bar")
            KEEP.compute(progress_type="bar")
            raise Boom()
        elif mode in ("meanfield-many", "meanfield-many-fail"):
            # mean-field TEMPO with several species, returning / failing in the field equation; the objects stay referenced
            def eom(t, states, a):
                n[0] += 1
                if mode.endswith("fail") and n[0] == 4: raise Boom()
                return -0.1 * a + 0.1 * sum(np.trace(x @ oqupy.operators.sigma("z")) for x in states)
            ss = [oqupy.TimeDependentSystemWithField(lambda t, a, k=k: (0.3 + 0.1 * k) * oqupy.operators.sigma("x") + 0.1 * a.real * oqupy.operators.sigma("z")) for k in range(3)]
            KEEP = oqupy.MeanFieldTempo(oqupy.MeanFieldSystem(ss, field_eom=eom), [bath] * 3, par, [rho] * 3, 0.1 + 0j, 0.0); n[0] = 0
            KEEP.compute(0.4, progress_type="bar")
            raise Boom()
        elif mode == "stress":
            import oqupy.util as u, random
            real = threading.Timer
            u.Timer = lambda interval, fn: real(0.0005, fn)
            rnd = random.Random(int(sys.argv[2]))
            for i in range(250):
                b = u.ProgressBar(5, None); b.enter()
                for k in range(rnd.randint(0, 4)):
                    b.update(k); time.sleep(rnd.choice([0, 0, 0.0004, 0.0007, 0.0011]))
                b.exit()
            raise Boom()
except Boom:
    pass
size = len(buf.getvalue())
time.sleep(0.3 if mode != "stress" else 0.2)
alive = [t.name for t in threading.enumerate() if t is not threading.main_thread()]
if alive:
    # a thread that is merely late in finishing (loaded machine) is gone after a further wait; a leaked timer
    # chain always has a waiting Timer thread
    time.sleep(1.3)
    alive = [t.name for t in threading.enumerate() if t is not threading.main_thread()]
grew = len(buf.getvalue()) - size
print("ALIVE", len(alive), "GREW", grew)
sys.stdout.flush()
import os
os._exit(0 if not alive else 3)
'''


def run_child(mode, seed=0):
    env = dict(os.environ, PYTHONPATH=REPO, PYTHONHASHSEED="0")
    p = subprocess.run([sys.executable, "-c", CHILD, mode, str(seed)], env=env, stdout=subprocess.PIPE,
                       stderr=subprocess.PIPE, text=True, timeout=300)
    alive = grew = None
    for l in p.stdout.splitlines():
        if l.startswith("ALIVE"):
            f = l.split()
            alive, grew = int(f[1]), int(f[3])
    return alive, grew, p.stderr[-400:]


def run(chk):
    thorough = chk.tier == "thorough"
    chk.proofs()
    exprs, expected, meta = [], [], []

    # ---- (i) every model trace up to a bound replayed on the real ProgressBar ----------------
    real_timer = outil.Timer
    outil.Timer = FakeTimer
    validated = 0
    try:
        base_traces = traces(5 if thorough else 4)
        plan = [(tr, False) for tr in base_traces + traces(4 if thorough else 3, failing=True)]
        # the same sequences through the context-manager protocol, the with-block being left through an exception
        plan += [(tr, True) for tr in base_traces if "X" in tr and len(tr) <= (5 if thorough else 5)]
        for tr, ctx_exc in plan:
            rig = Rig(ctx_exc)
            for op in tr:
                rig.do(op)
            exprs.append("obs " + coq_list([op_lit(o) for o in tr]))
            expected.append(rig.obs())
            meta.append({"kind": "trace", "ops": tr, "with_block_left_through_exception": ctx_exc})
            chk.case(meta[-1], tuple(tr) + (ctx_exc,))
            validated += 1
            if ctx_exc:
                chk.count("serial_traces_context_manager_exception")
            # property oracle: after exit no timer is armed, ever
            if ("X" in tr or "Xf" in tr) and 1 in rig.obs()[1:]:
                key = "timer-armed-after-exit" if "Xf" not in tr else "timer-armed-after-failing-exit"
                if ctx_exc:
                    key = "timer-armed-after-exception-exit"
                chk.fail(key, f"ProgressBar: an armed timer remains after {'the with-block was left through an exception' if ctx_exc else 'exit()'} in the serial trace {tr}"
                         + (" (f = the output stream raises in that operation's print)" if any(o.endswith("f") for o in tr) else ""), {"trace": tr, "with_block_left_through_exception": ctx_exc})
            if any(o.endswith("f") for o in tr):
                chk.count("serial_traces_with_failing_prints")
        chk.count("serial_traces", validated)

        # ---- (ii) preemption of one thread's operation by the other at every shared-state op ----
        for nupd in (1, 2):
            for xop, yop in (("X", "R"), ("U", "R"), ("R", "X"), ("R", "U")):
                for at in (1, 2, 3, 4):
                    rig = Rig()
                    prefix = ["E"] + ["U"] * nupd
                    for op in prefix:
                        rig.do(op)
                    tracked = len(FakeTimer.registry) - 1
                    rig.do(f"F{tracked}")
                    prefix.append(f"F{tracked}")
                    SCHED.__init__()
                    ythread = threading.Thread(target=rig.do, args=(yop,))
                    SCHED.y, SCHED.at = ythread, at
                    SCHED.x_thread = threading.current_thread()
                    rig.do(xop)
                    SCHED.x_thread = None
                    if not SCHED.triggered:
                        ythread.start()
                    ythread.join(5)
                    chk.search_cases += 1
                    chk.count("preemptions")
                    got = rig.obs()
                    info = {"kind": "preemption", "prefix": prefix, "x": xop, "y": yop, "x_preempted_at_op": at, "got": got}
                    exprs.append("obs " + coq_list([op_lit(o) for o in prefix + [xop, yop]]) + " ++ [99] ++ obs "
                                 + coq_list([op_lit(o) for o in prefix + [yop, xop]]))
                    expected.append(("either", got))
                    meta.append(info)
                    chk.case(info, ("pre", nupd, xop, yop, at))
                    if ythread.is_alive():
                        chk.fail("deadlock", "ProgressBar: threads deadlock", info)
    finally:
        outil.Timer = real_timer
        SCHED.__init__()

    # ---- (iii) bracket discipline of every API, with a failure at every evaluation ---------
    outil.PROGRESS_DICT["rec"] = Recorder
    try:
        for name, guarded, fn, injectable in apis():
            fails = [None] + (injectable if isinstance(injectable, list) else list(range(1, 5 if not thorough else 9)) if injectable else [])
            for k in fails:
                Recorder.log = []
                raised = False
                log_at_raise = None
                try:
                    quiet(fn, k)
                except (Boom, BoomBase) as caught:
                    raised = True
                    # the state of the progress object at the moment the caller receives the exception and while it still
                    # holds it (a caller that logs or stores the exception keeps every frame of the traceback alive)
                    log_at_raise = list(Recorder.log)
                    del caught
                except Exception as ex:
                    if k is None:
                        chk.disagree("bracket harness", f"{name}: unexpected {ex!r}")
                        continue
                    # the injected failure surfaced as another exception (raised while the library was cleaning up): the call
                    # has still raised, and the same bookkeeping applies
                    raised = True
                    log_at_raise = list(Recorder.log)
                    replaced_by = repr(ex)[:120]
                    del ex
                log = list(Recorder.log)
                if log_at_raise is not None and log_at_raise.count("enter") != log_at_raise.count("exit"):
                    chk.fail("exit-late:" + name, f"{name}: when the caller receives the exception of a failing user callable (evaluation {k}) the progress object has been "
                             f"entered {log_at_raise.count('enter')}x and exited {log_at_raise.count('exit')}x: it is only closed when the exception object is dropped",
                             {"kind": "bracket", "api": name, "fail_at_evaluation": k, "log_when_caught": log_at_raise, "log_later": log})
                chk.search_cases += 1
                chk.count("api_" + name)
                info = {"kind": "bracket", "api": name, "fail_at_evaluation": k, "raised": raised, "log": log}
                chk.case(info, ("bracket", name, k))
                # the log of the run against the call-path model (theorem every_path_exits): every call is enter, its updates, exit --
                # whichever way it ends.  The updates of each call are read off the log; the model supplies the exits
                ev_ = [e_ for e_ in log if e_ != "init"]
                upd_ = []
                for e_ in ev_:
                    if e_ == "enter":
                        upd_.append(0)
                    elif e_ == "update" and upd_:
                        upd_[-1] += 1
                if ev_ and ev_[0] == "enter" and len(upd_) <= 40 and max(upd_) <= 200:
                    exprs.append(f"api_log {coq_list([str(u_) for u_ in upd_])} {'true' if raised else 'false'}")
                    expected.append([{"enter": 0, "update": 1, "exit": 2}[e_] for e_ in ev_])
                    meta.append({"kind": "bracket-path", "api": name, "fail_at_evaluation": k, "raised": raised})
                balanced = log.count("enter") == log.count("exit")
                if not balanced:
                    chk.fail("exit-skipped:" + name,
                             f"{name}: {'the calls return normally' if k is None else f'a user callable raises (evaluation {k})'}; the progress object is entered {log.count('enter')}x but exited {log.count('exit')}x", info)
                if k is not None and not raised:
                    chk.count("failure_not_reached")
    finally:
        outil.PROGRESS_DICT.pop("rec", None)

    # ---- (iv) runtime: real Timer threads in a child interpreter ---------------------------
    for mode in ["tempo", "dynamics", "brokenstream", "tebd-threads", "tebd-threads-fail", "meanfield-many", "meanfield-many-fail", "gibbs-again", "zero-steps"] + ["stress"] * (3 if thorough else 1):
        alive, grew, err = run_child(mode, chk.seed)
        chk.search_cases += 1
        info = {"kind": "runtime", "mode": mode, "threads_alive": alive, "output_grew": grew}
        chk.case(info, ("runtime", mode))
        if alive is None:
            chk.disagree("runtime harness", f"{mode}: child failed: {err}")
        elif alive or grew:
            key = {"tempo": "thread-left:Tempo.compute", "dynamics": "exit-skipped:compute_dynamics", "stress": "timer-race",
                   "brokenstream": "thread-left:failing-output-stream", "tebd-threads": "thread-left:PtTebd-multithread",
                   "tebd-threads-fail": "thread-left:PtTebd-multithread", "meanfield-many": "thread-left:MeanFieldTempo-several-species",
                   "meanfield-many-fail": "thread-left:MeanFieldTempo-several-species", "gibbs-again": "thread-left:GibbsTempo-asked-again", "zero-steps": "thread-left:bar-over-zero-steps"}[mode]
            chk.fail(key, f"{mode}: {alive} thread(s) still alive after the call returned/raised; output grew by {grew} bytes afterwards", info)

    vals, errs = run_cases("C19", HEADER, exprs, chunk=400)
    for e in errs:
        chk.disagree("coq evaluation", e)
    n_val = 0
    for v, exp, m in zip(vals, expected, meta):
        got = ints(v)
        if isinstance(exp, tuple):
            i = got.index(99) if got and 99 in got else -1
            a, b = (got[:i], got[i + 1:]) if i >= 0 else (None, None)
            # timers are allocated in different orders in the two serial orders: compare as multisets + armed count
            norm = lambda o: None if o is None else (o[0], sorted(o[1:]))
            if norm(exp[1]) not in (norm(a), norm(b)):
                chk.disagree("preemption", {"meta": m, "model_xy": a, "model_yx": b})
                if 1 in exp[1][1:] and ("X" in (m["x"], m["y"])):
                    chk.fail("timer-race", "ProgressBar: preempting one thread inside update()/exit() leaves an armed timer after exit (not a serial outcome)", m)
            else:
                n_val += 1
        elif got != exp:
            chk.disagree("trace", {"meta": m, "impl": exp, "model": got})
        else:
            n_val += 1
    chk.extra_cov.update({"states": len(exprs), "transitions": sum(len(m.get("ops", [])) for m in meta),
                          "traces_validated_against_impl": n_val})

    return chk.finish(
        level="proof",
        trusted=["model: Model/Progress.v (timer objects, lock-serialised enter/update/exit, firings, pending callbacks)",
                 "FakeTimer stands for threading.Timer in (i)/(ii); CPython's Timer and interpreter shutdown are exercised only in the child runs (iv)"],
        rule="(i) every operation sequence up to length 4 (thorough 5) after enter over {update, exit, fire i, run callback}; (ii) each of update/exit/"
             "callback preempted by the other thread at each of its shared-state operations; (iii) every progress-reporting API with a user "
             "callable failing at evaluation 1..4 (8); (iv) child interpreters with the real Timer (user failure, failing output stream, stress); "
             "(i) includes every sequence up to length 3 (4) in which any of update/exit/callback has its print raise; distinct = distinct trace / scenario",
        assumptions=["thread pre-emption is modelled at the shared-state operations (Timer construction, start, cancel) only",
                     "interpreter exit is observed in child processes, not modelled"])
