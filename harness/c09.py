"""C09 — mean-field evolution agrees across methods and integrates the field correctly."""
import numpy as np
import oqupy

from harness.common import run_cases, ints, float_lit, fbits
from harness.impl import quiet

HEADER = """From Coq Require Import ZArith List Bool PrimFloat.
From OQ Require Import Lib.PyFloat Model.MeanField Model.Glue.
Import ListNotations. Open Scope Z_scope."""

SX, SZ = oqupy.operators.sigma("x"), oqupy.operators.sigma("z")
_corr0 = oqupy.PowerLawSD(alpha=0.0, zeta=1, cutoff=1.0, cutoff_type="exponential")
_bath0 = oqupy.Bath(0.5 * SZ, _corr0)
RHO = oqupy.operators.spin_dm("z+")


class EomLog:
    """field_eom = alpha + beta*t + gamma*Re(a); logs (t, <sigma_z> of the first state, Re a)"""

    def __init__(self, alpha, beta, gamma):
        self.c, self.log = (alpha, beta, gamma), []

    def __call__(self, t, states, a):
        self.log.append((float(t), float(np.trace(states[0] @ SZ).real), float(np.real(a)), float(np.imag(a))))
        al, be, ga = self.c
        return (al + be * t) + ga * float(np.real(a))


def step_of(sz, traj):
    k = int(np.argmin([abs(sz - x) for x in traj]))
    return k if abs(sz - traj[k]) < 1e-6 else -1


def drive(which, eom, start, dt, N, a0, record_all=True):
    s = oqupy.TimeDependentSystemWithField(lambda t, a: 0.5 * SX)
    mfs = oqupy.MeanFieldSystem([s], field_eom=eom)
    if which == "mft":
        par = oqupy.TempoParameters(dt=dt, epsrel=1e-10, dkmax=2, subdiv_limit=None)
        t = oqupy.MeanFieldTempo(mfs, [_bath0], par, [RHO], a0, start)
        eom.log.clear()
        return quiet(t.compute, start + N * dt, progress_type="silent")
    eom.log.clear()
    return quiet(oqupy.compute_dynamics_with_field, mfs, a0, dt=dt, num_steps=N, start_time=start, initial_state_list=[RHO],
                 record_all=record_all, subdiv_limit=None, progress_type="silent")


def run(chk):
    rng = chk.rng
    thorough = chk.tier == "thorough"
    chk.proofs()
    exprs, expected, meta = [], [], []
    for it in range(60 if thorough else 20):
        dt = rng.choice([0.1, 0.05, 0.2, 0.125])
        start = rng.choice([0.0, 1.0, -0.7, 2.5])
        N = rng.randint(1, 6)
        a0 = rng.choice([0.0, 0.5, -1.25])
        al, be, ga = rng.choice([0.0, 0.3, 2.0]), rng.choice([0.0, 2.0, -0.7]), rng.choice([0.0, 0.0, -0.4])
        traj = [np.cos(k * dt) for k in range(N + 2)]          # <sigma_z> of exp(-i sx t/2) on |z+>
        for which in ("mft", "cdwf"):
            eom = EomLog(al, be, ga)
            try:
                dyn = drive(which, eom, start, dt, N, a0)
            except Exception as ex:
                chk.disagree("driver raised", {"which": which, "err": repr(ex)})
                continue
            fields = [complex(x) for x in dyn.fields]
            calls = [(t, step_of(sz, traj), ar) for (t, sz, ar, ai) in eom.log]
            exp = []
            for x in fields:
                exp += fbits(x.real)
            exp += [888]
            for t, k, a in calls:
                exp += fbits(t) + [k] + fbits(a)
            exprs.append(f"meanfield_flat {'true' if which == 'mft' else 'false'} {float_lit(al)} {float_lit(be)} {float_lit(ga)} "
                         f"{float_lit(start)} {float_lit(dt)} {float_lit(a0)} {N}")
            expected.append(exp)
            info = {"driver": which, "dt": dt, "start": start, "N": N, "a0": a0, "eom": [al, be, ga]}
            meta.append(info)
            chk.count(which)
            chk.case(info, (which, dt, start, N, a0, al, be, ga))
            # the property's own oracle: exact for equations linear in time (gamma = 0), up to rounding
            chk.search_cases += 1
            if ga == 0.0:
                F = lambda t: al * t + be * t * t / 2
                want = [a0 + F(start + k * dt) - F(start) for k in range(N + 1)]
                if len(fields) != N + 1 or max(abs(f.real - w) for f, w in zip(fields, want)) > 1e-12 or max(abs(f.imag) for f in fields) > 0:
                    chk.fail("heun-not-exact:" + which, f"{which}: field for f = {al} + {be} t from t0 = {start} is {[round(f.real, 6) for f in fields][:4]}..., "
                             f"exact {[round(w, 6) for w in want][:4]}...", info)
            if len(list(dyn.times)) != N + 1 or list(dyn.times) != [start + k * dt for k in range(N + 1)]:
                chk.fail("meanfield-times:" + which, f"{which}: times of the mean-field dynamics are not the grid", info)
            if which == "cdwf":
                # record_all=False: the same evaluations of field_eom (time, states, field), the same final field / state / time
                log_all = list(eom.log)
                try:
                    dynf = drive(which, eom, start, dt, N, a0, record_all=False)
                    same_calls = list(eom.log) == log_all
                    same_final = (len(dynf.fields) == 1 and complex(dynf.fields[-1]) == fields[-1] and list(dynf.times) == [list(dyn.times)[-1]]
                                  and np.array_equal(np.array(dynf.system_dynamics[0].states[-1]), np.array(dyn.system_dynamics[0].states[-1])))
                    chk.search_cases += 1
                    chk.count("cdwf_record_all_false")
                    if not (same_calls and same_final):
                        first = next((i for i, (x, y) in enumerate(zip(eom.log, log_all)) if x != y), None)
                        chk.fail("record-all-changes-result", "compute_dynamics_with_field(record_all=False) " +
                                 (f"evaluates field_eom with different (time, states, field) from evaluation {first} on" if not same_calls else
                                  "returns a final field / state / time different from the last entry of the record_all=True run"), info)
                except Exception as ex:
                    chk.fail("meanfield-raises", f"compute_dynamics_with_field(record_all=False) raises {ex!r}", info)

    vals, errs = run_cases("C09", HEADER, exprs)
    for e in errs:
        chk.disagree("coq evaluation", e)
    for v, exp, m in zip(vals, expected, meta):
        got = ints(v)
        if got != exp:
            chk.disagree("field update (" + m["driver"] + ")", {"meta": m, "impl": exp[:30], "model": (got or [])[:30]})

    # ---- both methods side by side with state-dependent equations and real baths ------------------
    for it in range(16 if (thorough or chk.disagreements or chk.broken) else 5):
        eps = 1e-7
        dt, N = 0.1, rng.randint(3, 5)
        start = rng.choice([0.0, 1.5])
        nsys = rng.choice([1, 2, 2, 3])
        corr = oqupy.PowerLawSD(alpha=0.2, zeta=1, cutoff=2.0, cutoff_type="exponential", temperature=0.1)
        ops = [0.5 * SZ, 0.5 * SX + 0.2 * SZ, np.diag([1.0, 0.0, -1.0])]
        dims = [2, 2, 3][:nsys]
        baths = [oqupy.Bath(ops[i], corr) for i in range(nsys)]
        tau_ = rng.choice([None, 0.25, 0.5])
        if tau_ is not None:
            N = rng.randint(6, 8)          # well beyond dkmax + 2: the additional correlation time keeps growing the closing cell
        par = oqupy.TempoParameters(dt=dt, epsrel=eps, dkmax=3 if tau_ is None else 2, add_correlation_time=tau_, subdiv_limit=None)
        hs = [0.4 * SX, 0.3 * SZ + 0.2 * SX, np.diag([0.0, 0.5, 1.2]).astype(complex)]
        cs = [SZ, SX, np.diag([1.0, 0.0, -1.0])]
        systems = [oqupy.TimeDependentSystemWithField(lambda t, a, i=i: hs[i] + 0.3 * (a.real + 0.1 * t) * cs[i]) for i in range(nsys)]
        eom = lambda t, states, a: -0.3j * a - 0.1 * a + 0.2 * t + sum(0.2 * np.trace(states[i] @ cs[i]) for i in range(nsys))
        mfs = oqupy.MeanFieldSystem(systems, field_eom=eom)
        rhos = [np.eye(dm, dtype=complex) / dm + 0.2 * np.diag([1] + [0] * (dm - 2) + [-1]) for dm in dims]
        # coherences with a phase (the matrices are not symmetric), handed over in C or in Fortran memory order
        for r_ in rhos:
            r_[0, -1] += 0.1 - 0.15j
            r_[-1, 0] += 0.1 + 0.15j
        # every run: initial states that are not normalised (the library takes any square matrix of the right dimension; the field
        # equation sees the states as they are)
        traces = [1.5, 0.8, 1.2][:nsys] if it % 3 == 2 else [1.0] * nsys
        rhos = [r_ * tr_ for r_, tr_ in zip(rhos, traces)]
        layout = "F" if it % 2 == 1 else "C"
        if layout == "F":
            rhos = [np.asfortranarray(r_) for r_ in rhos]
        a0 = 0.4 + 0.1j
        info = {"systems": nsys, "start": start, "N": N, "dkmax": par.dkmax, "add_correlation_time": tau_, "initial_state_layout": layout,
                "initial_state_traces": traces}
        try:
            d1 = quiet(oqupy.MeanFieldTempo(mfs, baths, par, rhos, a0, start).compute, start + N * dt, progress_type="silent")
            pts = [quiet(oqupy.pt_tempo_compute, b, start, start + N * dt, parameters=par, progress_type="silent") for b in baths]
            d2 = quiet(oqupy.compute_dynamics_with_field, mfs, a0, process_tensor_list=pts, start_time=start, initial_state_list=rhos,
                       subdiv_limit=None, progress_type="silent")
        except Exception as ex:
            chk.fail("meanfield-raises", f"mean-field drivers raise {ex!r}", info)
            continue
        chk.search_cases += 1
        chk.count("side_by_side")
        try:
            d3 = quiet(oqupy.compute_dynamics_with_field, mfs, a0, process_tensor_list=pts, start_time=start, initial_state_list=rhos,
                       subdiv_limit=None, record_all=False, progress_type="silent")
            devf = max([abs(complex(d3.fields[-1]) - complex(d2.fields[-1]))] +
                       [np.abs(np.array(d3.system_dynamics[i].states[-1]) - np.array(d2.system_dynamics[i].states[-1])).max() for i in range(nsys)])
            if devf > 1e-12 or list(d3.times) != [list(d2.times)[-1]]:
                chk.fail("record-all-changes-result", f"compute_dynamics_with_field(record_all=False): final field / states differ from the record_all=True run by {devf:.2e}", info)
        except Exception as ex:
            chk.fail("meanfield-raises", f"compute_dynamics_with_field(record_all=False) raises {ex!r}", info)
        dev = np.abs(np.array(d1.fields) - np.array(d2.fields)).max()
        for i in range(nsys):
            dev = max(dev, np.abs(np.array(d1.system_dynamics[i].states) - np.array(d2.system_dynamics[i].states)).max())
        if dev > 2e3 * eps or list(d1.times) != list(d2.times):
            chk.fail("methods-disagree", f"MeanFieldTempo and compute_dynamics_with_field differ by {dev:.2e}", info)
        for nm_, dy_ in (("MeanFieldTempo", d1), ("compute_dynamics_with_field", d2)):
            dev0 = max(np.abs(np.array(dy_.system_dynamics[i].states[0]) - np.array(rhos[i])).max() for i in range(nsys))
            if dev0 > 2e3 * eps:         # (the process-tensor route contracts the truncated caps into the first state as well)
                chk.fail("initial-state-changed", f"{nm_}: the states recorded at the start time differ from the initial states handed in by {dev0:.2e} "
                         f"(traces {traces})", dict(info, run=nm_))

        # the Heun rule read off the reported trajectory: a_{k+1} = a_k + dt/2 (f(t_k, rho_k, a_k) + f(t_{k+1}, rho_{k+1}, a_k + dt f(t_k, rho_k, a_k)))
        def heun_residual(dyn):
            f_, ts_ = [complex(x) for x in dyn.fields], list(dyn.times)
            st_ = [[np.array(dyn.system_dynamics[i].states[k]) for i in range(nsys)] for k in range(len(ts_))]
            worst_ = 0.0
            for k in range(len(ts_) - 1):
                k1 = eom(ts_[k], st_[k], f_[k])
                k2 = eom(ts_[k + 1], st_[k + 1], f_[k] + dt * k1)
                worst_ = max(worst_, abs(f_[k + 1] - (f_[k] + dt / 2 * (k1 + k2))))
            return worst_
        # ... also when the SAME MeanFieldSystem / systems / baths objects are used again with other initial states and field
        rhos2 = [np.eye(dm, dtype=complex) / dm - 0.25 * np.diag([1] + [0] * (dm - 2) + [-1]) for dm in dims]
        try:
            d4 = quiet(oqupy.MeanFieldTempo(mfs, baths, par, rhos2, a0, start).compute, start + N * dt, progress_type="silent")
            d5 = quiet(oqupy.compute_dynamics_with_field, mfs, a0, process_tensor_list=pts, start_time=start, initial_state_list=rhos2,
                       subdiv_limit=None, progress_type="silent")
        except Exception as ex:
            chk.fail("meanfield-raises", f"mean-field drivers raise {ex!r} when the MeanFieldSystem is used a second time", info)
            continue
        chk.search_cases += 2
        for nm_, dy_ in (("MeanFieldTempo", d1), ("compute_dynamics_with_field", d2), ("MeanFieldTempo, MeanFieldSystem used again with other initial states", d4),
                         ("compute_dynamics_with_field, MeanFieldSystem used again with other initial states", d5)):
            res_ = heun_residual(dy_)
            if res_ > 1e-10:
                chk.fail("heun-residual", f"{nm_}: the reported fields are not the Heun update from the reported states and times at both ends of each step "
                         f"(residual {res_:.2e})", dict(info, run=nm_))
                break

    # ---- stationary systems (Hamiltonian, coupling and initial state diagonal in one basis: the states do not move at all) with a
    # field equation that depends on time and on the field: the Heun rule is exact for equations linear in time whatever the systems
    # do, and both methods agree --------------------------------------------------------------------------------------------
    for it in range(6 if thorough else 2):
        dt, N, start = rng.choice([0.1, 0.2]), rng.randint(3, 6), rng.choice([0.0, 1.5])
        al, be = rng.choice([0.3, 2.0]) + 0.2j, rng.choice([2.0, -0.7]) + 0.1j
        nsys = rng.choice([1, 2])
        real_bath = it % 2 == 1
        corr_ = oqupy.PowerLawSD(alpha=0.2 if real_bath else 0.0, zeta=1, cutoff=2.0, cutoff_type="exponential", temperature=0.1)
        ops_, hs_ = [0.5 * SZ, np.diag([1.0, 0.0, -1.0])], [0.4 * SZ, np.diag([0.0, 0.5, 1.2]).astype(complex)]
        r0s_ = [np.diag([0.8, 0.2]).astype(complex), np.diag([0.5, 0.3, 0.2]).astype(complex)][:nsys]
        ss_ = [oqupy.TimeDependentSystemWithField(lambda t, a, i=i: hs_[i] * (1 + 0.1 * a.real)) for i in range(nsys)]
        # the field in other units: every second case the whole field (initial value and equation of motion) is smaller by 1e-14
        # (nothing in the Heun rule has an absolute scale)
        sc_ = 1.0 if it % 2 == 0 else 1e-14
        al, be = al * sc_, be * sc_
        eom_ = lambda t, st, a: al + be * t
        mfs_ = oqupy.MeanFieldSystem(ss_, field_eom=eom_)
        par_ = oqupy.TempoParameters(dt=dt, epsrel=1e-7, dkmax=3, subdiv_limit=None)
        baths_ = [oqupy.Bath(ops_[i], corr_) for i in range(nsys)]
        a0 = (0.4 + 0.1j) * sc_
        info = {"kind": "stationary-systems", "field_scale": sc_, "systems": nsys, "dt": dt, "N": N, "start": start, "eom": [str(al), str(be)], "coupled": real_bath}
        chk.search_cases += 1
        chk.count("stationary_systems")
        chk.case(info, ("stationary", nsys, dt, N, start, real_bath))
        F = lambda t: al * t + be * t * t / 2
        want = [a0 + F(start + k * dt) - F(start) for k in range(N + 1)]
        try:
            d1 = quiet(oqupy.MeanFieldTempo(mfs_, baths_, par_, r0s_, a0, start).compute, start + N * dt, progress_type="silent")
            pts_ = [quiet(oqupy.pt_tempo_compute, b_, start, start + N * dt, parameters=par_, progress_type="silent") for b_ in baths_]
            d2 = quiet(oqupy.compute_dynamics_with_field, mfs_, a0, process_tensor_list=pts_, start_time=start, initial_state_list=r0s_, subdiv_limit=None, progress_type="silent")
        except Exception as ex:
            chk.fail("meanfield-raises", f"mean-field drivers raise {ex!r} for stationary systems", info)
            continue
        for nm_, dy_ in (("mft", d1), ("cdwf", d2)):
            fl_ = [complex(x) for x in dy_.fields]
            if len(fl_) != N + 1 or max(abs(f_ - w_) for f_, w_ in zip(fl_, want)) > 1e-11 * sc_:
                chk.fail("heun-not-exact:" + nm_, f"{nm_}: systems that do not move, field equation {al} + {be} t from t0 = {start}: the field deviates from the exact "
                         f"integral by {max(abs(f_ - w_) for f_, w_ in zip(fl_, want)):.2e}", info)
                break

    # ---- strong feedback between field and systems with environments that are switched off (alpha = 0: no truncation error
    # anywhere), so that the two methods must agree to rounding: Hamiltonians that depend strongly on the field, a field equation
    # that depends on time, states and the field itself ----------------------------------------------------------------------
    for it in range(6 if thorough else 2):
        dt, N, start = rng.choice([0.1, 0.2]), rng.randint(4, 7), rng.choice([0.0, 0.7])
        nsys = rng.choice([1, 2])
        corr_ = oqupy.PowerLawSD(alpha=0.0, zeta=1, cutoff=2.0, cutoff_type="exponential", temperature=0.1)
        hs_, cs_ = [0.4 * SX + 0.1 * SZ, np.diag([0.0, 0.5, 1.2]).astype(complex) + 0.3 * np.diag([1.0, 1.0], 1) + 0.3 * np.diag([1.0, 1.0], -1)], [SZ, np.diag([1.0, 0.0, -1.0])]
        g_ = rng.choice([0.8, 1.5])
        ss_ = [oqupy.TimeDependentSystemWithField(lambda t, a, i=i: hs_[i] + g_ * (a.real + 0.3 * a.imag + 0.2 * t) * cs_[i]) for i in range(nsys)]
        eom_ = lambda t, st, a: (-1.3j - 0.4) * a + 0.5 * t + sum(0.7 * np.trace(st[i] @ cs_[i]) for i in range(nsys))
        mfs_ = oqupy.MeanFieldSystem(ss_, field_eom=eom_)
        par_ = oqupy.TempoParameters(dt=dt, epsrel=1e-10, dkmax=2, subdiv_limit=None)
        baths_ = [oqupy.Bath(0.5 * cs_[i], corr_) for i in range(nsys)]
        r0s_ = [np.array([[0.6, 0.2 - 0.1j], [0.2 + 0.1j, 0.4]]), np.diag([0.5, 0.3, 0.2]).astype(complex) + 0.1 * (np.diag([1.0, 1.0], 1) + np.diag([1.0, 1.0], -1))][:nsys]
        a0 = 0.4 + 0.1j
        info = {"kind": "strong-feedback-zero-coupling", "systems": nsys, "dt": dt, "N": N, "start": start, "feedback": g_}
        chk.search_cases += 1
        chk.count("strong_feedback")
        chk.case(info, ("feedback", nsys, dt, N, start, g_))
        try:
            d1 = quiet(oqupy.MeanFieldTempo(mfs_, baths_, par_, r0s_, a0, start).compute, start + N * dt, progress_type="silent")
            pts_ = [quiet(oqupy.pt_tempo_compute, b_, start, start + N * dt, parameters=par_, progress_type="silent") for b_ in baths_]
            d2 = quiet(oqupy.compute_dynamics_with_field, mfs_, a0, process_tensor_list=pts_, start_time=start, initial_state_list=r0s_, subdiv_limit=None, progress_type="silent")
        except Exception as ex:
            chk.fail("meanfield-raises", f"mean-field drivers raise {ex!r}", info)
            continue
        dev = np.abs(np.array(d1.fields) - np.array(d2.fields)).max()
        for i in range(nsys):
            dev = max(dev, np.abs(np.array(d1.system_dynamics[i].states) - np.array(d2.system_dynamics[i].states)).max())
        if dev > 1e-9 or list(d1.times) != list(d2.times):
            chk.fail("methods-disagree", f"MeanFieldTempo and compute_dynamics_with_field differ by {dev:.2e} with the environments switched off "
                     f"(strong feedback between field and systems, {N} steps)", info)

    # ---- systems that do not depend on the field: each evolves exactly as in a plain TEMPO run / plain compute_dynamics with
    # the same (explicitly time-dependent) Hamiltonian, rates and Lindblad operators ---------------------------------------
    for it in range(9 if (thorough or chk.disagreements or chk.broken) else 3):
        eps = 1e-8
        dt, N = rng.choice([0.1, 0.05]), rng.randint(3, 6)
        start = rng.choice([0.0, 0.7, -1.1])
        corr = oqupy.PowerLawSD(alpha=0.15, zeta=1, cutoff=2.0, cutoff_type="exponential", temperature=0.2)
        bath = oqupy.Bath(0.5 * SZ, corr)
        tau_ = rng.choice([None, 0.3]) if it != 0 else 0.3
        par = oqupy.TempoParameters(dt=dt, epsrel=eps, dkmax=rng.choice([None, 3]) if tau_ is None else 2, add_correlation_time=tau_,
                                    subdiv_limit=rng.choice([None, 256]) if it % 2 == 0 else 256)       # static field: the integrating branch
        if tau_ is not None:
            N = 7
        hfun = lambda t: 0.4 * SX + 0.3 * np.sin(1.7 * t) * SZ
        gfun = lambda t: 0.05 + 0.6 * abs(t - start)
        lfun = lambda t: oqupy.operators.sigma("-") + 0.2 * np.cos(t) * SZ
        sysf = oqupy.TimeDependentSystemWithField(lambda t, a: hfun(t), gammas=[lambda t: gfun(t)], lindblad_operators=[lambda t: lfun(t)])
        sysp = oqupy.TimeDependentSystem(hfun, gammas=[gfun], lindblad_operators=[lfun])
        # every second case: a field that does not move at all (equation of motion identically zero), every fourth one starting at 0
        static = it % 2 == 1
        f0 = (0.0 + 0j) if it % 4 == 3 else (0.1 + 0j)
        mfs = oqupy.MeanFieldSystem([sysf], field_eom=(lambda t, st, a: 0.0 * a) if static else (lambda t, st, a: 0.3 * t - 0.1 * a))
        rho = oqupy.operators.spin_dm("x+")
        info = {"kind": "field-independent", "dt": dt, "N": N, "start": start, "subdiv_limit": par.subdiv_limit, "static_field": static}
        try:
            mf = quiet(oqupy.MeanFieldTempo(mfs, [bath], par, [rho], f0, start).compute, start + N * dt, progress_type="silent")
            pl = quiet(oqupy.Tempo(sysp, bath, par, rho, start).compute, start + N * dt, progress_type="silent")
            pt = quiet(oqupy.pt_tempo_compute, bath, start, start + N * dt, parameters=par, progress_type="silent")
            cf = quiet(oqupy.compute_dynamics_with_field, mfs, f0, process_tensor_list=[pt], start_time=start, initial_state_list=[rho],
                       subdiv_limit=par.subdiv_limit, progress_type="silent")
            cd = quiet(oqupy.compute_dynamics, sysp, initial_state=rho, process_tensor=pt, start_time=start, subdiv_limit=par.subdiv_limit, progress_type="silent")
        except Exception as ex:
            chk.fail("meanfield-raises", f"mean-field drivers raise {ex!r}", info)
            continue
        chk.search_cases += 1
        chk.count("field_independent")
        chk.case(info, ("fieldindep", dt, N, start, par.subdiv_limit, it))
        d1 = np.abs(np.array(mf.system_dynamics[0].states) - np.array(pl.states)).max()
        d2_ = np.abs(np.array(cf.system_dynamics[0].states) - np.array(cd.states)).max()
        if max(d1, d2_) > 2e3 * eps:
            chk.fail("field-independent-differs-from-plain", f"a system that ignores the field does not evolve as in the plain computation: MeanFieldTempo vs Tempo "
                     f"{d1:.2e}, compute_dynamics_with_field vs compute_dynamics {d2_:.2e} (time-dependent Hamiltonian, rate and Lindblad operator)", info)

    return chk.finish(
        level="proof",
        trusted=["model: Model/MeanField.v on primitive floats; the states passed to field_eom are identified through <sigma_z> of a known rotation",
                 "TEMPO vs PT-TEMPO equality of the system states is C02"],
        rule="state-independent equations alpha + beta t + gamma a on four dt, four start times, 1-6 steps, both drivers: every (time, step of the "
             "states, field) triple passed to field_eom and every field value bit-for-bit; closed form for gamma = 0; side-by-side runs with "
             "1-3 systems of different dimension, state- and time-dependent equations, real baths; distinct = distinct configuration",
        assumptions=["'no system depends on the field -> plain TEMPO' is covered by the side-by-side search only"])
