"""C05 — results are basis-covariant and every Hermitian coupling operator is accepted."""
import os
import numpy as np
import oqupy

from harness.common import run_cases, ints
from harness.impl import quiet
from harness import c02

HEADER = c02.HEADER
_corr = oqupy.PowerLawSD(alpha=0.15, zeta=1, cutoff=2.0, cutoff_type="exponential", temperature=0.2)


def haar(rng, d):
    z = np.array([[rng.gauss(0, 1) + 1j * rng.gauss(0, 1) for _ in range(d)] for _ in range(d)])
    q, r = np.linalg.qr(z)
    return q * (np.diag(r) / np.abs(np.diag(r)))


def structured(rng, d):
    kind = rng.choice(["perm", "block", "phase"])
    if kind == "perm":
        p = list(range(d))
        rng.shuffle(p)
        return np.eye(d)[p].astype(complex)
    if kind == "phase":
        return np.diag(np.exp(1j * np.array([rng.uniform(0, 6) for _ in range(d)])))
    u = np.eye(d, dtype=complex)
    u[:2, :2] = haar(rng, 2)
    return u


def run(chk):
    rng = chk.rng
    thorough = chk.tier == "thorough"
    chk.proofs()
    exprs, expected, meta = [], [], []
    # ---- (a) wiring of the basis change inside the back-ends: integer 'unitaries' (C02 machinery) --
    c02.backend_cases(chk, 30 if thorough else 10, exprs, expected, meta)
    vals, errs = run_cases("C05", HEADER, exprs, chunk=30)
    for e in errs:
        chk.disagree("coq evaluation", e)
    c02.compare(chk, vals, expected, meta)

    # ---- (b) the solver contract on the real Bath: unitary, real eigenvalues, reconstruction ------
    for it in range(300 if thorough else 100):
        d = rng.choice([2, 3, 3, 4, 5])
        ev = [rng.choice([-1.0, 0.0, 0.0, 0.5, 1.0, 1.0, 2.0]) for _ in range(d)]
        V = haar(rng, d) if rng.random() < 0.6 else structured(rng, d)
        shape = "generic"
        if it % 10 == 1:
            # stratum: all diagonal entries of the operator equal (circulant: the eigenbasis is the Fourier basis) although the
            # spectrum is not degenerate
            shape = "constant-diagonal"
            ev = rng.sample([-1.0, 0.0, 0.5, 1.0, 2.0], d)
            V = np.array([[np.exp(2j * np.pi * j_ * k_ / d) for k_ in range(d)] for j_ in range(d)]) / np.sqrt(d)
        if it % 10 in (3, 6, 9):
            # strata: a basis only slightly tilted away from the eigenbasis (rotation angle 1e-2 .. 1e-5), a large multiple of the
            # identity on top of the operator, a tiny off-diagonal element on a diagonal operator
            shape = {3: "slightly-tilted", 6: "identity-offset", 9: "tiny-off-diagonal"}[it % 10]
            if len(set(ev)) == 1:
                ev[0] += 1.0
            if shape == "slightly-tilted":
                g_ = np.array([[rng.gauss(0, 1) + 1j * rng.gauss(0, 1) for _ in range(d)] for _ in range(d)])
                from scipy.linalg import expm as _expm
                V = _expm(1j * rng.choice([1e-2, 1e-3, 1e-4, 1e-5]) * (g_ + g_.conj().T) / 2)
            elif shape == "identity-offset":
                ev = [x + rng.choice([150.0, -40.0, 1e4]) for x in ev]
            else:
                V = np.eye(d, dtype=complex)
        O = V @ np.diag(ev) @ V.conj().T
        if shape == "tiny-off-diagonal":
            O[0, d - 1] += rng.choice([1e-3, 1e-6]) * (1 + 0.5j)
        O = (O + O.conj().T) / 2
        info = {"kind": "bath", "d": d, "eigenvalues": ev, "shape": shape}
        chk.search_cases += 1
        chk.count("bath_d%d" % d)
        chk.case(info, ("bath", d, tuple(sorted(ev)), it % 3))
        try:
            b = oqupy.Bath(O, _corr)
        except Exception as ex:
            chk.fail("bath-rejects-hermitian", f"Bath rejects a Hermitian coupling operator with eigenvalues {ev}: {ex!r}", info)
            continue
        u, w = b.unitary_transform, b.coupling_operator
        dev_u = np.abs(u.conj().T @ u - np.eye(d)).max()
        dev_r = np.abs(u @ w @ u.conj().T - O).max()
        scale_ = max(1.0, np.abs(O).max())
        if dev_u > 1e-10 or dev_r > 1e-10 * scale_ or np.abs(np.diag(w).imag).max() > 1e-10 * scale_ or np.abs(w - np.diag(np.diag(w))).max() > 1e-10 * scale_:
            chk.fail("transform-not-unitary", f"Bath.unitary_transform: |U^+U-1|={dev_u:.2e}, reconstruction error {dev_r:.2e} for eigenvalues {ev}", info)
        # the degeneracy maps (used with unique=True) depend on the spectrum only: two index pairs share a class exactly if they
        # have the same eigenvalue difference (west) / the same difference and sum (north); exact for the generated spectra
        if shape in ("generic", "constant-diagonal") and dev_r <= 1e-10:
            lam = np.round(np.diag(w).real, 6)
            pairs = [(i_, j_) for i_ in range(d) for j_ in range(d)]
            for nm_, keyf in (("west", lambda i_, j_: (lam[i_] - lam[j_],)), ("north", lambda i_, j_: (lam[i_] - lam[j_], lam[i_] + lam[j_]))):
                m_ = np.array(getattr(b, nm_ + "_degeneracy_map"))
                same_map = [[m_[x_] == m_[y_] for y_ in range(d * d)] for x_ in range(d * d)]
                same_key = [[bool(np.allclose(keyf(*pairs[x_]), keyf(*pairs[y_]), atol=1e-5)) for y_ in range(d * d)] for x_ in range(d * d)]
                # (a finer map only compresses less; merging pairs with different keys changes the physics)
                if len(m_) != d * d or any(same_map[x_][y_] and not same_key[x_][y_] for x_ in range(d * d) for y_ in range(d * d)):
                    chk.fail("degeneracy-map:" + nm_, f"Bath.{nm_}_degeneracy_map merges index pairs with different eigenvalue "
                             f"{'differences' if nm_ == 'west' else 'differences and sums'} (eigenvalues {list(lam)}: map {m_.tolist()})", info)
                    break

    # ---- (c) covariance through the public methods ------------------------------------------------
    for it in range(30 if (thorough or chk.disagreements or chk.broken) else 9):
        d = rng.choice([2, 3]) if it not in (7, 8) else 3
        ev = [rng.choice([-1.0, 0.0, 0.5, 1.0, 1.0]) for _ in range(d)]
        if len(set(ev)) == 1:
            ev[0] += 1.0
        Q = haar(rng, d)
        O = Q @ np.diag(ev) @ Q.conj().T
        O = (O + O.conj().T) / 2
        a = np.array([[rng.gauss(0, 1) + 1j * rng.gauss(0, 1) for _ in range(d)] for _ in range(d)])
        H = (a + a.conj().T) / 4
        r = a @ a.conj().T
        rho0 = r / np.trace(r)
        V = haar(rng, d) if rng.random() < 0.7 else structured(rng, d)
        eps = 1e-7
        dkmax = rng.choice([None, 2])
        par = oqupy.TempoParameters(dt=0.1, epsrel=eps, dkmax=dkmax)
        method = rng.choice(["tempo", "pttempo", "meanfield"])
        unique = rng.random() < 0.5
        storage = rng.choice(["memory", "file-backed", "exported+imported", "exported+imported-simple"]) if method == "pttempo" else "memory"
        if it < 3:
            method, storage = "pttempo", ["file-backed", "exported+imported", "exported+imported-simple"][it]      # every run: all file routes of PT-TEMPO
        if it in (3, 4):
            # every run (TEMPO and PT-TEMPO): degeneracy checking on, non-degenerate spectrum, and a rotated basis in which all
            # DIAGONAL ENTRIES of the coupling operator are equal (Fourier basis)
            method, unique, storage = ["tempo", "pttempo"][it - 3], True, "memory"
            ev = rng.sample([-1.0, 0.0, 0.5, 1.0], d)
            O = np.diag(ev).astype(complex)
            V = np.array([[np.exp(2j * np.pi * j_ * k_ / d) for k_ in range(d)] for j_ in range(d)]) / np.sqrt(d)
        if it in (5, 6):
            # every run (PT-TEMPO, then TEMPO or mean-field): a coupling operator that is ALMOST diagonal -- its eigenbasis is tilted
            # away from the given basis by a few 1e-3 rad (off-diagonal elements far above rounding, diagonal of the eigenvector
            # matrix equal to one within 1e-5) -- against the same problem in a Haar-rotated basis; tight tolerance
            from scipy.linalg import expm as _expm
            method, storage = ("pttempo", rng.choice(["memory", "file-backed"])) if it == 5 else (rng.choice(["tempo", "meanfield"]), "memory")
            ev = rng.sample([-0.5, 0.5, 1.0], d)
            if it == 5:
                ev = sorted(ev)             # (the eigenvector matrix a solver returns in ascending order is then close to the identity)
            g_ = np.array([[rng.gauss(0, 1) + 1j * rng.gauss(0, 1) for _ in range(d)] for _ in range(d)])
            g_ = (g_ + g_.conj().T) / 2
            g_ = g_ - np.diag(np.diag(g_))
            W = _expm(1j * rng.choice([1.5e-3, 3e-3]) * g_ / np.linalg.norm(g_, 2))
            O = W @ np.diag(ev) @ W.conj().T
            O = (O + O.conj().T) / 2
            V = haar(rng, d)
            eps = 1e-9
            par = oqupy.TempoParameters(dt=0.1, epsrel=eps, dkmax=dkmax)
        if it in (7, 8):
            # every run (TEMPO, PT-TEMPO): a system Hamiltonian with a REPEATED eigenvalue, diagonal in the first frame and a full
            # matrix in the rotated one (also the zero Hamiltonian / a multiple of the identity), no dissipators
            method, storage = ["tempo", "pttempo"][it - 7], "memory"
            H = np.diag(rng.choice([[0.8, 0.8, -0.4], [0.8, 0.8, -0.4], [-0.3, 0.6, 0.6], [0.5] * d])).astype(complex)
            V = haar(rng, d)
        info = {"kind": "covariance", "method": method, "d": d, "eigenvalues": ev, "dkmax": dkmax, "unique": unique, "process_tensor": storage}

        # dissipative systems in every third case (never in the closed-system cases 7, 8): real decay operators, which the complex
        # basis change turns into operators with a complex, non-symmetric A^dagger A
        diss = it % 3 == 1 and it not in (7, 8)
        Lops = [np.diag(np.ones(d - 1), 1).astype(complex), np.diag([1.0] + [0.0] * (d - 1)).astype(complex)] if diss else []
        info["dissipative"] = diss

        def solve(Hh, Oo, rr, Ls=()):
            mk_sys = lambda: oqupy.System(Hh, gammas=[0.3, 0.15][:len(Ls)], lindblad_operators=list(Ls)) if len(Ls) else oqupy.System(Hh)
            bath = oqupy.Bath((Oo + Oo.conj().T) / 2, _corr)
            if method == "tempo":
                return np.array(quiet(oqupy.Tempo(mk_sys(), bath, par, rr, 0.0, unique=unique).compute, 0.4, progress_type="silent").states)
            if method == "pttempo":
                pt = quiet(oqupy.pt_tempo_compute, bath, 0.0, 0.4, parameters=par, unique=unique,
                           process_tensor_file=True if storage == "file-backed" else None, progress_type="silent")
                if storage.startswith("exported+imported"):
                    import tempfile, os, shutil
                    dd_ = tempfile.mkdtemp(prefix="c05_")
                    pt.export(os.path.join(dd_, "pt.hdf5"))
                    pt = oqupy.import_process_tensor(os.path.join(dd_, "pt.hdf5"), "simple" if storage.endswith("simple") else "file")
                if it % 2 == 0:
                    from harness.c03 import look_at
                    look_at(pt)              # reading a process tensor through its accessors (transformed or not) changes nothing
                out = np.array(quiet(oqupy.compute_dynamics, mk_sys(), initial_state=rr, process_tensor=pt, progress_type="silent").states)
                if storage == "file-backed":
                    pt.remove()
                elif storage.startswith("exported+imported"):
                    if not storage.endswith("simple"):
                        pt.close()
                    shutil.rmtree(dd_, ignore_errors=True)
                return out
            X = Hh
            s = oqupy.TimeDependentSystemWithField(lambda t, f: X + 0.1 * f.real * X @ X, gammas=[(lambda t, g_=g_: g_) for g_ in [0.3, 0.15][:len(Ls)]],
                                                   lindblad_operators=[(lambda t, L_=L_: L_) for L_ in Ls])
            mfs = oqupy.MeanFieldSystem([s], field_eom=lambda t, st, f: -0.1 * f + 0.2 * np.trace(st[0] @ X))
            dyn = quiet(oqupy.MeanFieldTempo(mfs, [bath], par, [rr], 0.2 + 0j, 0.0, unique=unique).compute, 0.4, progress_type="silent")
            return np.array(dyn.system_dynamics[0].states)
        try:
            base = solve(H, O, rho0, Lops)
            rotd = solve(V @ H @ V.conj().T, V @ O @ V.conj().T, V @ rho0 @ V.conj().T, [V @ L_ @ V.conj().T for L_ in Lops])
        except Exception as ex:
            chk.fail("covariance-raises", f"{method} raises {ex!r}", info)
            continue
        back = np.array([V.conj().T @ s @ V for s in rotd])
        chk.search_cases += 1
        chk.count("cov_" + method)
        chk.case(info, ("cov", method, d, tuple(ev), dkmax, unique))
        if np.abs(back - base).max() > (2e3 if it not in (5, 6) else 2e2) * eps:
            chk.fail("not-covariant", f"{method}: simulating in a rotated basis and rotating back differs by {np.abs(back - base).max():.2e}", info)

    # ---- (d) mean-field TEMPO with several species, EACH rotated by its own unitary ---------------------------------
    # (same spectrum in different bases, independent spectra): every species' state must come back rotated, the field unchanged
    for it in range(10 if (thorough or chk.disagreements or chk.broken) else 3):
        d = rng.choice([2, 2, 3])
        ns = rng.choice([2, 2, 3])
        eps = 1e-7
        par = oqupy.TempoParameters(dt=0.1, epsrel=eps, dkmax=rng.choice([None, 2]))
        unique = rng.random() < 0.5
        ev0 = [rng.choice([-1.0, 0.0, 0.5, 1.0, 1.0]) for _ in range(d)]
        if len(set(ev0)) == 1:
            ev0[0] += 1.0
        specs = []
        for k in range(ns):
            ev = list(ev0) if (k == 0 or rng.random() < 0.7) else [rng.choice([-1.0, 0.0, 0.5, 1.0]) for _ in range(d)]
            a = np.array([[rng.gauss(0, 1) + 1j * rng.gauss(0, 1) for _ in range(d)] for _ in range(d)])
            H = (a + a.conj().T) / 4
            r = a @ a.conj().T
            Vk = np.eye(d, dtype=complex) if k == 0 and rng.random() < 0.5 else (haar(rng, d) if rng.random() < 0.7 else structured(rng, d))
            specs.append({"O": np.diag(ev).astype(complex), "H": H, "rho": r / np.trace(r), "V": Vk})
        info = {"kind": "covariance", "method": "meanfield-several-species", "d": d, "species": ns, "eigenvalues": ev0, "unique": unique}

        def solve_mf(rot):
            Hs = [(sp["V"] @ sp["H"] @ sp["V"].conj().T) if rot else sp["H"] for sp in specs]
            Os = [(sp["V"] @ sp["O"] @ sp["V"].conj().T) if rot else sp["O"] for sp in specs]
            rs = [(sp["V"] @ sp["rho"] @ sp["V"].conj().T) if rot else sp["rho"] for sp in specs]
            ss = [oqupy.TimeDependentSystemWithField(lambda t, f, X=X: X + 0.1 * f.real * X @ X) for X in Hs]
            mfs = oqupy.MeanFieldSystem(ss, field_eom=lambda t, st, f: -0.1 * f + 0.2 * sum(np.trace(x @ X) for x, X in zip(st, Hs)))
            baths = [oqupy.Bath((Oo + Oo.conj().T) / 2, _corr) for Oo in Os]
            dyn = quiet(oqupy.MeanFieldTempo(mfs, baths, par, rs, 0.2 + 0j, 0.0, unique=unique).compute, 0.4, progress_type="silent")
            return [np.array(sd.states) for sd in dyn.system_dynamics], np.array(dyn.fields)
        try:
            base_s, base_f = solve_mf(False)
            rot_s, rot_f = solve_mf(True)
        except Exception as ex:
            chk.fail("covariance-raises", f"MeanFieldTempo ({ns} species) raises {ex!r}", info)
            continue
        chk.search_cases += 1
        chk.count("cov_meanfield_several_species")
        chk.case(info, ("covmf", d, ns, tuple(ev0), unique, it))
        dev = np.abs(rot_f - base_f).max()
        for sp, b_, r_ in zip(specs, base_s, rot_s):
            dev = max(dev, np.abs(np.array([sp["V"].conj().T @ x @ sp["V"] for x in r_]) - b_).max())
        if dev > 2e3 * eps:
            chk.fail("not-covariant", f"mean-field TEMPO with {ns} species, each written in its own basis: states rotated back / field differ by {dev:.2e}", info)

    # ---- (e) parameters chosen by the library (guess_tempo_parameters / tempo_compute(parameters=None)): the guess for a problem
    # written in another basis is the same guess (time step, memory steps, tolerance), so the convenience driver is covariant too.
    # Systems whose fastest scale is a non-Hermitian Lindblad operator (a lowering operator with a large rate), and Hamiltonian-dominated ones
    import warnings as _w
    for it in range(6 if thorough else 2):
        d = rng.choice([2, 3])
        ev = rng.sample([-0.5, 0.0, 0.5, 1.0], d)
        O = np.diag(ev).astype(complex)
        a = np.array([[rng.gauss(0, 1) + 1j * rng.gauss(0, 1) for _ in range(d)] for _ in range(d)])
        lind_dominated = it % 2 == 0
        H = (a + a.conj().T) / (8 if lind_dominated else 1)
        Lop = np.diag(np.ones(d - 1), 1).astype(complex)          # lowering operator: not Hermitian, zero lower triangle
        gam = 4.0 if lind_dominated else 0.1
        r = a @ a.conj().T
        rho0 = r / np.trace(r)
        V = haar(rng, d)
        tol_ = rng.choice([0.05, 0.02])
        info = {"kind": "guessed-parameters", "d": d, "eigenvalues": ev, "lindblad_dominated": lind_dominated, "tolerance": tol_}
        chk.search_cases += 1
        chk.count("cov_guess")
        chk.case(info, ("guess", d, tuple(ev), lind_dominated, tol_))
        try:
            with _w.catch_warnings():
                _w.simplefilter("ignore")
                res_ = []
                for W in (np.eye(d), V):
                    rot = lambda X: W @ X @ W.conj().T
                    sysm = oqupy.System(rot(H), gammas=[gam], lindblad_operators=[rot(Lop)])
                    OO = rot(O)
                    bath = oqupy.Bath((OO + OO.conj().T) / 2, _corr)
                    g_ = oqupy.guess_tempo_parameters(bath, 0.0, 0.4, sysm, tol_)
                    dyn = quiet(oqupy.tempo_compute, sysm, bath, rot(rho0), 0.0, 0.4, tolerance=tol_, progress_type="silent")
                    res_.append(((g_.dt, g_.dkmax, g_.epsrel), list(dyn.times), np.array([W.conj().T @ x @ W for x in dyn.states])))
        except Exception as ex:
            chk.fail("covariance-raises", f"guess_tempo_parameters / tempo_compute raise {ex!r}", info)
            continue
        (g0, t0, s0), (g1, t1, s1) = res_
        # the guess alone in two more bases: the order of the basis states reversed (a lowering operator becomes a raising one),
        # and a second Haar basis
        try:
            with _w.catch_warnings():
                _w.simplefilter("ignore")
                for W in (np.eye(d)[::-1].astype(complex), haar(rng, d)):
                    rot = lambda X: W @ X @ W.conj().T
                    OO = rot(O)
                    g_ = oqupy.guess_tempo_parameters(oqupy.Bath((OO + OO.conj().T) / 2, _corr), 0.0, 0.4,
                                                      oqupy.System(rot(H), gammas=[gam], lindblad_operators=[rot(Lop)]), tol_)
                    if g_.dkmax != g0[1] or abs(g_.dt - g0[0]) > 1e-9 * g0[0] or abs(g_.epsrel - g0[2]) > 1e-6 * g0[2]:
                        g1, t1 = (g_.dt, g_.dkmax, g_.epsrel), t0
        except Exception as ex:
            chk.fail("covariance-raises", f"guess_tempo_parameters raises {ex!r}", info)
            continue
        if g0[1] != g1[1] or abs(g0[0] - g1[0]) > 1e-9 * g0[0] or abs(g0[2] - g1[2]) > 1e-6 * g0[2] or len(t0) != len(t1):
            chk.fail("not-covariant", f"guess_tempo_parameters: the guess (dt, dkmax, epsrel) for the problem written in a rotated basis is {g1}, in the original basis {g0} "
                     f"(tolerance {tol_})", info)
        elif np.abs(s0 - s1).max() > 20 * max(g0[2], 1e-6):
            chk.fail("not-covariant", f"tempo_compute with guessed parameters: rotated-basis result rotated back differs by {np.abs(s0 - s1).max():.2e} (guessed epsrel {g0[2]:.1e})", info)

    return chk.finish(
        level="proof",
        trusted=["models: Model/SuperOps.v (index-pair superoperators), Model/PathSum.v, Model/Schedule.v",
                 "LAPACK's eigh is not modelled: the theorem is conditional on 'U unitary', which the search checks on the real Bath"],
        rule="back-end path sums with integer basis-change matrices (as C02); Bath on Hermitian operators of dimension 2-5 with repeated / zero "
             "eigenvalues conjugated by Haar-random and structured (permutation, block, phase) unitaries; covariance of Tempo, PtTempo, "
             "MeanFieldTempo under a random unitary; MeanFieldTempo with 2-3 species each rotated by its own unitary; distinct = distinct configuration",
        assumptions=["the eigen-solver contract (unitary eigenvectors, real eigenvalues) is checked on the implementation, not proved"])
