(* C16 — process tensors survive export, import and file-backed computation unchanged. *)
From Coq Require Import Arith List Bool.
From OQ Require Import Model.PTFile Proofs.PTFileSpec.
Import ListNotations.

(* (1) _set_data_and_shape / _get_data_and_shape: writing slot k and reading it back
   returns the tensor (None for the HDF5None sentinel), for every step incl. growth by
   resize, and leaves every other existing slot unchanged. *)
Theorem set_get :
  forall (X : Type) step t (sl : list (slot X)),
    get_slot X step (set_slot X step t sl) = Ok (normalize X t) /\
    (forall j, j <> step -> j < length sl -> get_slot X j (set_slot X step t sl) = get_slot X j sl).
Proof. intros. split; [apply get_set_same|intros; apply get_set_other; assumption]. Qed.
Print Assumptions set_get.

(* (2) export followed by import as an in-memory object is the identity, field by field
   (dimension, dt, transforms, name, description, initial tensor, every MPO tensor with its
   shape, every cap tensor) for EVERY process tensor of any length, ranks and bond
   dimensions, provided no stored tensor is the one-element NaN array (the sentinel). *)
Theorem roundtrip :
  forall (X D S : Type) (p : spt X D S), wf X D S p -> import_simple X D S (export X D S p) = Ok p.
Proof. exact roundtrip_simple. Qed.
Print Assumptions roundtrip.

(* (3) the imported object is usable by compute_dynamics' input check: its initial tensor
   is None whenever the original's was *)
Theorem imported_usable :
  forall (X D S : Type) (p : spt X D S), wf X D S p -> s_init X D S p = None ->
  exists q, import_simple X D S (export X D S p) = Ok q /\ s_init X D S q = None.
Proof. exact imported_initial_none. Qed.
Print Assumptions imported_usable.

(* (3b) name and description given AFTER the file was created: a file object created with one name, renamed / described any
   number of times while it is being filled (any writer operations in between), then closed -- whatever is imported from it
   carries the attributes that were set last *)
Theorem names_set_later :
  forall (X D S : Type) (p : spt X D S) (ops : list (wop X S)) q,
    import_simple X D S (close X D S (fold_left (wstep X D S) ops (create X D S p))) = Ok q ->
    s_name X D S q = last_name X S ops (s_name X D S p) /\ s_desc X D S q = last_desc X S ops (s_desc X D S p).
Proof. exact PTFileSpec.names_set_later. Qed.
Print Assumptions names_set_later.

Example names_set_later_example :
  import_simple nat nat nat (close nat nat nat (fold_left (wstep nat nat nat)
     [WMpo nat nat 0 ([1;1;1], [Some 1]); WName nat nat 7; WCap nat nat 0 ([1], [Some 1]); WDesc nat nat 8; WName nat nat 9; WCap nat nat 1 ([1], [Some 1])]
     (create nat nat nat (Build_spt nat nat nat 2 None None None 1 2 None [] []))))
  = Ok {| s_hs := 2; s_dt := None; s_tin := None; s_tout := None; s_name := 9; s_desc := 8; s_init := None;
          s_mpos := [([1;1;1], [Some 1])]; s_caps := [([1], [Some 1]); ([1], [Some 1])] |}.
Proof. reflexivity. Qed.

(* non-vacuity: a two-step process tensor with a rank-4 and a rank-3 tensor is well formed *)
Example wf_example :
  wf nat nat nat
     {| s_hs := 2; s_dt := Some 1; s_tin := None; s_tout := None; s_name := 0; s_desc := 0; s_init := None;
        s_mpos := [([1;2;1;1], [Some 1; Some 2]); ([2;1;1], [Some 3; None])];
        s_caps := [([1], [Some 1]); ([2], [Some 1; Some 1]); ([1], [Some 1])] |}.
Proof. repeat split; repeat constructor. Qed.

(* the sentinel really is lossy: a cap tensor equal to the 1-element NaN array does not survive *)
Theorem sentinel_refuted :
  exists p : spt nat nat nat, import_simple nat nat nat (export nat nat nat p) <> Ok p.
Proof.
  exists {| s_hs := 1; s_dt := None; s_tin := None; s_tout := None; s_name := 0; s_desc := 0; s_init := None;
            s_mpos := []; s_caps := [([1], [None])] |}.
  vm_compute. discriminate.
Qed.
Print Assumptions sentinel_refuted.
