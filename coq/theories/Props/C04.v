(* C04 — every reported state is a physical density matrix. *)
From Coq Require Import Arith List Bool.
From OQ Require Import Lib.RingSum Model.SuperOps Model.Shapes Proofs.SuperOpsSpec Proofs.ShapesSpec.
Import ListNotations.

(* Throughout: K any commutative ring with an involutive ring automorphism conj and an element iu
   with conj iu = -iu (the complex numbers); liouv2 is twice the Lindbladian the code builds. *)

(* (1) the generator preserves the trace: tr . L = 0, for every dimension, Hamiltonian, rates and
   Lindblad operators (any number of them) *)
Theorem liouvillian_trace :
  forall (K : Ring) (conj : K -> K) (iu : K),
    (forall a b, conj (radd a b) = radd (conj a) (conj b)) ->
    (forall a b, conj (rmul a b) = rmul (conj a) (conj b)) ->
    (forall a, conj (ropp a) = ropp (conj a)) -> conj r1 = r1 -> conj r0 = r0 ->
    (forall a, conj (conj a) = a) -> conj iu = ropp iu ->
    forall d (H : M2 K) (terms : list (K * M2 K)) k l, k < d -> l < d ->
      sumn d (fun i => liouv2 conj iu d H terms i i k l) = r0.
Proof. intros K conj iu H1 H2 H3 H4 H5 H6 H7. exact (SuperOpsSpec.liouvillian_trace K conj iu). Qed.
Print Assumptions liouvillian_trace.

(* (2) the generator preserves Hermiticity: L[(j,i),(l,k)] = conj L[(i,j),(k,l)] for a Hermitian
   Hamiltonian and real rates *)
Theorem liouvillian_herm :
  forall (K : Ring) (conj : K -> K) (iu : K),
    (forall a b, conj (radd a b) = radd (conj a) (conj b)) ->
    (forall a b, conj (rmul a b) = rmul (conj a) (conj b)) ->
    (forall a, conj (ropp a) = ropp (conj a)) -> conj r1 = r1 -> conj r0 = r0 ->
    (forall a, conj (conj a) = a) -> conj iu = ropp iu ->
    forall d (H : M2 K) (terms : list (K * M2 K)) i j k l,
      hermitian K conj H -> (forall g A, In (g, A) terms -> conj g = g) ->
      liouv2 conj iu d H terms j i l k = conj (liouv2 conj iu d H terms i j k l).
Proof. intros K conj iu H1 H2 H3 H4 H5 H6 H7. exact (SuperOpsSpec.liouvillian_herm K conj iu H1 H2 H3 H4 H5 H6 H7). Qed.
Print Assumptions liouvillian_herm.

(* (3) the influence functional: its exponent vanishes whenever the later index is a population
   (so I(., j) = exp 0 = 1 there: tracing out the latest point removes the coupling — the
   causality that makes partial networks and caps read out unit-trace states), and exchanging
   forward and backward branch conjugates it (Hermiticity), for every coefficient (triangle,
   square or rectangle alike) and every coupling spectrum *)
Theorem influence_trace :
  forall (K : Ring) (iu er ei : K) (m p : nat -> K) i j, m j = r0 -> exponent iu er ei m p i j = r0.
Proof. intros. apply exponent_trace. assumption. Qed.
Print Assumptions influence_trace.

Theorem influence_herm :
  forall (K : Ring) (iu : K) (conj : K -> K),
    (forall a b, conj (radd a b) = radd (conj a) (conj b)) ->
    (forall a b, conj (rmul a b) = rmul (conj a) (conj b)) ->
    (forall a, conj (ropp a) = ropp (conj a)) -> conj iu = ropp iu ->
    forall er ei (m p : nat -> K) (sw : nat -> nat) i j,
      conj er = er -> conj ei = ei -> (forall x, conj (m x) = m x) -> (forall x, conj (p x) = p x) ->
      (forall x, m (sw x) = ropp (m x)) -> (forall x, p (sw x) = p x) ->
      exponent iu er ei m p (sw i) (sw j) = conj (exponent iu er ei m p i j).
Proof. intros K iu conj H1 H2 H3 H4. exact (exponent_herm K iu conj H1 H2 H3 H4). Qed.
Print Assumptions influence_herm.

(* (4) left_super(A) vec(rho) = vec(A rho) and right_super(B) vec(rho) = vec(rho B) *)
Theorem super_operators_act :
  forall (K : Ring) d (A rho : M2 K) i j, i < d -> j < d ->
    sumn d (fun k => sumn d (fun l => rmul (ls_f A i j k l) (rho k l))) = mm d A rho i j /\
    sumn d (fun k => sumn d (fun l => rmul (rs_f A i j k l) (rho k l))) = mm d rho A i j.
Proof. intros. split; [apply left_super_acts|apply right_super_acts]; assumption. Qed.
Print Assumptions super_operators_act.
