(* C04 — every reported state is a physical density matrix. *)
From Coq Require Import ZArith Arith List Bool Lia.
From OQ Require Import Lib.RingSum Lib.Mat Model.SuperOps Model.Shapes Model.PathSum Proofs.SuperOpsSpec Proofs.ShapesSpec Proofs.PathSumTrace.
Import ListNotations.

(* Throughout: K any commutative ring with an involutive ring automorphism conj and an element iu
   with conj iu = -iu (the complex numbers); liouv2 is twice the Lindbladian the code builds. *)

(* (1) the generator preserves the trace: tr . L = 0, for every dimension, Hamiltonian, rates and
   Lindblad operators (any number of them) *)
Theorem liouvillian_trace :
  forall (K : Ring) (conj : K -> K) (iu : K),
    (forall a b, conj (radd a b) = radd (conj a) (conj b)) ->
    (forall a b, conj (rmul a b) = rmul (conj a) (conj b)) ->
    (forall a, conj (ropp a) = ropp (conj a)) -> conj r1 = r1 -> conj r0 = r0 ->
    (forall a, conj (conj a) = a) -> conj iu = ropp iu ->
    forall d (H : M2 K) (terms : list (K * M2 K)) k l, k < d -> l < d ->
      sumn d (fun i => liouv2 conj iu d H terms i i k l) = r0.
Proof. intros K conj iu H1 H2 H3 H4 H5 H6 H7. exact (SuperOpsSpec.liouvillian_trace K conj iu). Qed.
Print Assumptions liouvillian_trace.

(* (2) the generator preserves Hermiticity: L[(j,i),(l,k)] = conj L[(i,j),(k,l)] for a Hermitian
   Hamiltonian and real rates *)
Theorem liouvillian_herm :
  forall (K : Ring) (conj : K -> K) (iu : K),
    (forall a b, conj (radd a b) = radd (conj a) (conj b)) ->
    (forall a b, conj (rmul a b) = rmul (conj a) (conj b)) ->
    (forall a, conj (ropp a) = ropp (conj a)) -> conj r1 = r1 -> conj r0 = r0 ->
    (forall a, conj (conj a) = a) -> conj iu = ropp iu ->
    forall d (H : M2 K) (terms : list (K * M2 K)) i j k l,
      hermitian K conj H -> (forall g A, In (g, A) terms -> conj g = g) ->
      liouv2 conj iu d H terms j i l k = conj (liouv2 conj iu d H terms i j k l).
Proof. intros K conj iu H1 H2 H3 H4 H5 H6 H7. exact (SuperOpsSpec.liouvillian_herm K conj iu H1 H2 H3 H4 H5 H6 H7). Qed.
Print Assumptions liouvillian_herm.

(* (3) the influence functional: its exponent vanishes whenever the later index is a population
   (so I(., j) = exp 0 = 1 there: tracing out the latest point removes the coupling — the
   causality that makes partial networks and caps read out unit-trace states), and exchanging
   forward and backward branch conjugates it (Hermiticity), for every coefficient (triangle,
   square or rectangle alike) and every coupling spectrum *)
Theorem influence_trace :
  forall (K : Ring) (iu er ei : K) (m p : nat -> K) i j, m j = r0 -> exponent iu er ei m p i j = r0.
Proof. intros. apply exponent_trace. assumption. Qed.
Print Assumptions influence_trace.

Theorem influence_herm :
  forall (K : Ring) (iu : K) (conj : K -> K),
    (forall a b, conj (radd a b) = radd (conj a) (conj b)) ->
    (forall a b, conj (rmul a b) = rmul (conj a) (conj b)) ->
    (forall a, conj (ropp a) = ropp (conj a)) -> conj iu = ropp iu ->
    forall er ei (m p : nat -> K) (sw : nat -> nat) i j,
      conj er = er -> conj ei = ei -> (forall x, conj (m x) = m x) -> (forall x, conj (p x) = p x) ->
      (forall x, m (sw x) = ropp (m x)) -> (forall x, p (sw x) = p x) ->
      exponent iu er ei m p (sw i) (sw j) = conj (exponent iu er ei m p i j).
Proof. intros K iu conj H1 H2 H3 H4. exact (exponent_herm K iu conj H1 H2 H3 H4). Qed.
Print Assumptions influence_herm.

(* (4) left_super(A) vec(rho) = vec(A rho) and right_super(B) vec(rho) = vec(rho B) *)
Theorem super_operators_act :
  forall (K : Ring) d (A rho : M2 K) i j, i < d -> j < d ->
    sumn d (fun k => sumn d (fun l => rmul (ls_f A i j k l) (rho k l))) = mm d A rho i j /\
    sumn d (fun k => sumn d (fun l => rmul (rs_f A i j k l) (rho k l))) = mm d rho A i j.
Proof. intros. split; [apply left_super_acts|apply right_super_acts]; assumption. Qed.
Print Assumptions super_operators_act.

(* (5) composition: the WHOLE path sum (the exact value of the TEMPO / PT-TEMPO network, Model/PathSum.v:
   any number of time points n, any memory schedule [coef], any basis change, time-dependent half-step
   propagators) has the trace of the initial state at every step, provided
     - every half-step propagator and the two basis changes preserve the trace functional t
       column-wise (what (1) gives for exp(L dt/2): tr.L = 0; exp itself is not modelled), and
     - the influence functions are 1 where the LATER index is a population, stated ring-generally as
       "multiplied by t(later index) they disappear" (what (3) gives: exp(0) = 1).
   [traced n] is sum_s t(s) * (state after n points)(s). *)
Theorem pathsum_trace :
  forall (K : Ring) (d2 : nat) (diag0 : nat -> K) (coef : nat -> nat -> option (list (list K)))
         (uin uout : list (list K)) (props : nat -> list (list K) * list (list K)) (rho0 : list K) (t : nat -> K),
    square K d2 uin -> square K d2 uout ->
    (forall k, square K d2 (fst (props k)) /\ square K d2 (snd (props k))) -> length rho0 = d2 ->
    col_tp K d2 t uin -> col_tp K d2 t uout ->
    (forall k, col_tp K d2 t (fst (props k)) /\ col_tp K d2 t (snd (props k))) ->
    (forall j, j < d2 -> rmul (t j) (diag0 j) = t j) ->
    (forall kp k m jp j, coef kp k = Some m -> j < d2 -> rmul (t j) (entry K m jp j) = t j) ->
    forall n, traced K d2 diag0 coef uin uout props rho0 t (S n) = trace K d2 t rho0.
Proof. intros K d2 diag0 coef uin uout props rho0 t H1 H2 H3 H4 H5 H6 H7 H8 H9. exact (PathSumTrace.pathsum_trace K d2 diag0 coef uin uout props rho0 t H1 H2 H3 H4 H5 H6 H7 H8 H9). Qed.
Print Assumptions pathsum_trace.

(* the hypotheses are satisfiable by a non-trivial network (d = 2: indices 0,3 are the populations; a
   propagator that mixes populations and coherences, influences different from 1 on the coherences),
   and on it the conclusion is not an artefact of everything being the identity *)
Open Scope Z_scope.
Definition ex_t (j : nat) : Z := match j with 0%nat | 3%nat => 1 | _ => 0 end.
Definition ex_id : list (list Z) := [[1;0;0;0];[0;1;0;0];[0;0;1;0];[0;0;0;1]].
Definition ex_p : list (list Z) := [[2;1;0;-1];[3;5;1;2];[0;7;2;4];[-1;-1;0;2]].
Definition ex_diag (j : nat) : Z := match j with 1%nat => 3 | 2%nat => 5 | _ => 1 end.
Definition ex_m : list (list Z) := [[1;2;3;1];[1;-1;4;1];[1;6;2;1];[1;0;7;1]].
Definition ex_coef (kp k : nat) : option (list (list Z)) := if Nat.leb (k - kp) 2 then Some ex_m else None.
Example pathsum_trace_nonvacuous :
  square ZRing 4 ex_p /\ col_tp ZRing 4 ex_t ex_p /\
  (forall j, (j < 4)%nat -> ex_t j * ex_diag j = ex_t j) /\
  map (fun n => traced ZRing 4 ex_diag ex_coef ex_id ex_id (fun _ => (ex_p, ex_p)) [1;2;0;3] ex_t n) [1;2;3;4]%nat = [4;4;4;4] /\
  map (@state_entry ZRing 4 ex_diag ex_coef ex_id ex_id (fun _ => (ex_p, ex_p)) [1;2;0;3] 2) [0;1;2;3]%nat <> [1;2;0;3].
Proof.
  split; [split; [reflexivity|intros r Hr; repeat (destruct Hr as [<-|Hr]; [reflexivity|]); destruct Hr]|].
  split; [intros i Hi; do 4 (destruct i as [|i]; [reflexivity|]); lia|].
  split; [intros j Hj; do 4 (destruct j as [|j]; [reflexivity|]); lia|].
  split; [vm_compute; reflexivity|vm_compute; discriminate].
Qed.
