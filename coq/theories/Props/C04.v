(* C04 — every reported state is a physical density matrix. *)
From Coq Require Import ZArith Arith List Bool Lia.
From OQ Require Import Lib.RingSum Lib.Mat Model.SuperOps Model.Shapes Model.PathSum Proofs.SuperOpsSpec Proofs.ShapesSpec Proofs.PathSumTrace Proofs.PathSumHerm.
Import ListNotations.

(* Throughout: K any commutative ring with an involutive ring automorphism conj and an element iu
   with conj iu = -iu (the complex numbers); liouv2 is twice the Lindbladian the code builds. *)

(* (1) the generator preserves the trace: tr . L = 0, for every dimension, Hamiltonian, rates and
   Lindblad operators (any number of them) *)
Theorem liouvillian_trace :
  forall (K : Ring) (conj : K -> K) (iu : K),
    (forall a b, conj (radd a b) = radd (conj a) (conj b)) ->
    (forall a b, conj (rmul a b) = rmul (conj a) (conj b)) ->
    (forall a, conj (ropp a) = ropp (conj a)) -> conj r1 = r1 -> conj r0 = r0 ->
    (forall a, conj (conj a) = a) -> conj iu = ropp iu ->
    forall d (H : M2 K) (terms : list (K * M2 K)) k l, k < d -> l < d ->
      sumn d (fun i => liouv2 conj iu d H terms i i k l) = r0.
Proof. intros K conj iu H1 H2 H3 H4 H5 H6 H7. exact (SuperOpsSpec.liouvillian_trace K conj iu). Qed.
Print Assumptions liouvillian_trace.

(* (2) the generator preserves Hermiticity: L[(j,i),(l,k)] = conj L[(i,j),(k,l)] for a Hermitian
   Hamiltonian and real rates *)
Theorem liouvillian_herm :
  forall (K : Ring) (conj : K -> K) (iu : K),
    (forall a b, conj (radd a b) = radd (conj a) (conj b)) ->
    (forall a b, conj (rmul a b) = rmul (conj a) (conj b)) ->
    (forall a, conj (ropp a) = ropp (conj a)) -> conj r1 = r1 -> conj r0 = r0 ->
    (forall a, conj (conj a) = a) -> conj iu = ropp iu ->
    forall d (H : M2 K) (terms : list (K * M2 K)) i j k l,
      hermitian K conj H -> (forall g A, In (g, A) terms -> conj g = g) ->
      liouv2 conj iu d H terms j i l k = conj (liouv2 conj iu d H terms i j k l).
Proof. intros K conj iu H1 H2 H3 H4 H5 H6 H7. exact (SuperOpsSpec.liouvillian_herm K conj iu H1 H2 H3 H4 H5 H6 H7). Qed.
Print Assumptions liouvillian_herm.

(* (3) the influence functional: its exponent vanishes whenever the later index is a population
   (so I(., j) = exp 0 = 1 there: tracing out the latest point removes the coupling — the
   causality that makes partial networks and caps read out unit-trace states), and exchanging
   forward and backward branch conjugates it (Hermiticity), for every coefficient (triangle,
   square or rectangle alike) and every coupling spectrum *)
Theorem influence_trace :
  forall (K : Ring) (iu er ei : K) (m p : nat -> K) i j, m j = r0 -> exponent iu er ei m p i j = r0.
Proof. intros. apply exponent_trace. assumption. Qed.
Print Assumptions influence_trace.

Theorem influence_herm :
  forall (K : Ring) (iu : K) (conj : K -> K),
    (forall a b, conj (radd a b) = radd (conj a) (conj b)) ->
    (forall a b, conj (rmul a b) = rmul (conj a) (conj b)) ->
    (forall a, conj (ropp a) = ropp (conj a)) -> conj iu = ropp iu ->
    forall er ei (m p : nat -> K) (sw : nat -> nat) i j,
      conj er = er -> conj ei = ei -> (forall x, conj (m x) = m x) -> (forall x, conj (p x) = p x) ->
      (forall x, m (sw x) = ropp (m x)) -> (forall x, p (sw x) = p x) ->
      exponent iu er ei m p (sw i) (sw j) = conj (exponent iu er ei m p i j).
Proof. intros K iu conj H1 H2 H3 H4. exact (exponent_herm K iu conj H1 H2 H3 H4). Qed.
Print Assumptions influence_herm.

(* (4) left_super(A) vec(rho) = vec(A rho) and right_super(B) vec(rho) = vec(rho B) *)
Theorem super_operators_act :
  forall (K : Ring) d (A rho : M2 K) i j, i < d -> j < d ->
    sumn d (fun k => sumn d (fun l => rmul (ls_f A i j k l) (rho k l))) = mm d A rho i j /\
    sumn d (fun k => sumn d (fun l => rmul (rs_f A i j k l) (rho k l))) = mm d rho A i j.
Proof. intros. split; [apply left_super_acts|apply right_super_acts]; assumption. Qed.
Print Assumptions super_operators_act.

(* (5) composition: the WHOLE path sum (the exact value of the TEMPO / PT-TEMPO network, Model/PathSum.v:
   any number of time points n, any memory schedule [coef], any basis change, time-dependent half-step
   propagators) has the trace of the initial state at every step, provided
     - every half-step propagator and the two basis changes preserve the trace functional t
       column-wise (what (1) gives for exp(L dt/2): tr.L = 0; exp itself is not modelled), and
     - the influence functions are 1 where the LATER index is a population, stated ring-generally as
       "multiplied by t(later index) they disappear" (what (3) gives: exp(0) = 1).
   [traced n] is sum_s t(s) * (state after n points)(s). *)
Theorem pathsum_trace :
  forall (K : Ring) (d2 : nat) (diag0 : nat -> K) (coef : nat -> nat -> option (list (list K)))
         (uin uout : list (list K)) (props : nat -> list (list K) * list (list K)) (rho0 : list K) (t : nat -> K),
    square K d2 uin -> square K d2 uout ->
    (forall k, square K d2 (fst (props k)) /\ square K d2 (snd (props k))) -> length rho0 = d2 ->
    col_tp K d2 t uin -> col_tp K d2 t uout ->
    (forall k, col_tp K d2 t (fst (props k)) /\ col_tp K d2 t (snd (props k))) ->
    (forall j, j < d2 -> rmul (t j) (diag0 j) = t j) ->
    (forall kp k m jp j, coef kp k = Some m -> j < d2 -> rmul (t j) (entry K m jp j) = t j) ->
    forall n, traced K d2 diag0 coef uin uout props rho0 t (S n) = trace K d2 t rho0.
Proof. intros K d2 diag0 coef uin uout props rho0 t H1 H2 H3 H4 H5 H6 H7 H8 H9. exact (PathSumTrace.pathsum_trace K d2 diag0 coef uin uout props rho0 t H1 H2 H3 H4 H5 H6 H7 H8 H9). Qed.
Print Assumptions pathsum_trace.

(* (6) ... and preserves Hermiticity: with sw the exchange (a,b) -> (b,a) of the vectorised index, if every
   factor maps Hermitian matrices to Hermitian matrices (M[sw i][sw j] = conj M[i][j]: what (2) gives
   for the generator), the initial state is Hermitian and exchanging the branches of both indices
   conjugates the influence functions ((3)), then every state of the whole path sum is Hermitian *)
Theorem pathsum_herm :
  forall (K : Ring) (conj : K -> K),
    (forall a b, conj (radd a b) = radd (conj a) (conj b)) ->
    (forall a b, conj (rmul a b) = rmul (conj a) (conj b)) -> conj r0 = r0 -> conj r1 = r1 ->
  forall (d2 : nat) (sw : nat -> nat),
    (forall i, i < d2 -> sw i < d2) -> (forall i, i < d2 -> sw (sw i) = i) ->
  forall (diag0 : nat -> K) (coef : nat -> nat -> option (list (list K)))
         (uin uout : list (list K)) (props : nat -> list (list K) * list (list K)) (rho0 : list K),
    square K d2 uin -> square K d2 uout ->
    (forall k, square K d2 (fst (props k)) /\ square K d2 (snd (props k))) -> length rho0 = d2 ->
    hmat K conj d2 sw uin -> hmat K conj d2 sw uout ->
    (forall k, hmat K conj d2 sw (fst (props k)) /\ hmat K conj d2 sw (snd (props k))) ->
    rel K conj d2 sw rho0 rho0 ->
    (forall j, j < d2 -> diag0 (sw j) = conj (diag0 j)) ->
    (forall kp k m jp j, coef kp k = Some m -> jp < d2 -> j < d2 -> entry K m (sw jp) (sw j) = conj (entry K m jp j)) ->
    forall n s, s < d2 ->
      state_entry d2 diag0 coef uin uout props rho0 (S n) (sw s) = conj (state_entry d2 diag0 coef uin uout props rho0 (S n) s).
Proof.
  intros K conj C1 C2 C3 C4 d2 sw S1 S2 diag0 coef uin uout props rho0 H1 H2 H3 H4 H5 H6 H7 H8 H9 H10.
  exact (PathSumHerm.pathsum_herm K conj C1 C2 C3 C4 d2 sw S1 S2 diag0 coef uin uout props rho0 H1 H2 H3 H4 H5 H6 H7 H8 H9 H10).
Qed.
Print Assumptions pathsum_herm.

(* the hypotheses are satisfiable by a non-trivial network (d = 2: indices 0,3 are the populations; a
   propagator that mixes populations and coherences, influences different from 1 on the coherences),
   and on it the conclusion is not an artefact of everything being the identity *)
Open Scope Z_scope.
Definition ex_t (j : nat) : Z := match j with 0%nat | 3%nat => 1 | _ => 0 end.
Definition ex_id : list (list Z) := [[1;0;0;0];[0;1;0;0];[0;0;1;0];[0;0;0;1]].
Definition ex_p : list (list Z) := [[2;1;0;-1];[3;5;1;2];[0;7;2;4];[-1;-1;0;2]].
Definition ex_diag (j : nat) : Z := match j with 1%nat => 3 | 2%nat => 5 | _ => 1 end.
Definition ex_m : list (list Z) := [[1;2;3;1];[1;-1;4;1];[1;6;2;1];[1;0;7;1]].
Definition ex_coef (kp k : nat) : option (list (list Z)) := if Nat.leb (k - kp) 2 then Some ex_m else None.
Example pathsum_trace_nonvacuous :
  square ZRing 4 ex_p /\ col_tp ZRing 4 ex_t ex_p /\
  (forall j, (j < 4)%nat -> ex_t j * ex_diag j = ex_t j) /\
  map (fun n => traced ZRing 4 ex_diag ex_coef ex_id ex_id (fun _ => (ex_p, ex_p)) [1;2;0;3] ex_t n) [1;2;3;4]%nat = [4;4;4;4] /\
  map (@state_entry ZRing 4 ex_diag ex_coef ex_id ex_id (fun _ => (ex_p, ex_p)) [1;2;0;3] 2) [0;1;2;3]%nat <> [1;2;0;3].
Proof.
  split; [split; [reflexivity|intros r Hr; repeat (destruct Hr as [<-|Hr]; [reflexivity|]); destruct Hr]|].
  split; [intros i Hi; do 4 (destruct i as [|i]; [reflexivity|]); lia|].
  split; [intros j Hj; do 4 (destruct j as [|j]; [reflexivity|]); lia|].
  split; [vm_compute; reflexivity|vm_compute; discriminate].
Qed.

(* (6) is not vacuous either: a Gaussian-integer network (d = 2, sw = (0 2 1 3)) whose propagator is
   rho -> U rho U^+ for a non-unitary complex U, complex influence functions obeying the branch-exchange
   symmetry, a Hermitian complex initial state *)
Definition hx_sw (i : nat) : nat := match i with 1%nat => 2%nat | 2%nat => 1%nat | _ => i end.
Definition hx_u (a c : nat) : G :=
  match a, c with 0%nat, 0%nat => (1, 0) | 0%nat, _ => (0, 1) | _, 0%nat => (2, 0) | _, _ => (1, -1) end.
Definition hx_p : list (list G) :=
  map (fun i => map (fun j => gmul (hx_u (i / 2) (j / 2)) (gconj (hx_u (i mod 2) (j mod 2)))) (seq 0 4)) (seq 0 4).
Definition hx_id : list (list G) := map (fun i => map (fun j => if Nat.eqb i j then g1 else g0) (seq 0 4)) (seq 0 4).
Definition hx_a (j : nat) : G := match j with 0%nat => (1, 0) | 1%nat => (0, 1) | 2%nat => (0, -1) | _ => (2, 0) end.
Definition hx_b (j : nat) : G := match j with 0%nat => (1, 0) | 1%nat => (1, 1) | 2%nat => (1, -1) | _ => (1, 0) end.
Definition hx_m : list (list G) := map (fun jp => map (fun j => gmul (hx_a jp) (hx_b j)) (seq 0 4)) (seq 0 4).
Definition hx_rho : list G := [(2, 0); (1, 1); (1, -1); (3, 0)].
Example pathsum_herm_nonvacuous :
  hmat GRing gconj 4 hx_sw hx_p /\ rel GRing gconj 4 hx_sw hx_rho hx_rho /\
  (forall jp j, (jp < 4)%nat -> (j < 4)%nat -> entry GRing hx_m (hx_sw jp) (hx_sw j) = gconj (entry GRing hx_m jp j)) /\
  map (@state_entry GRing 4 hx_b (fun _ _ => Some hx_m) hx_id hx_id (fun _ => (hx_p, hx_p)) hx_rho 2) [0; 1; 2; 3]%nat
  = [(55, 0); (-10, 240); (-10, -240); (1140, 0)].
Proof.
  split; [intros i j Hi Hj; do 4 (destruct i as [|i]; [do 4 (destruct j as [|j]; [vm_compute; reflexivity|]); lia|]); lia|].
  split; [intros i Hi; do 4 (destruct i as [|i]; [vm_compute; reflexivity|]); lia|].
  split; [intros i j Hi Hj; do 4 (destruct i as [|i]; [do 4 (destruct j as [|j]; [vm_compute; reflexivity|]); lia|]); lia|].
  vm_compute. reflexivity.
Qed.
