(* C19 — no computation leaves background activity behind, whether it returns or fails. *)
From Coq Require Import Arith List Bool.
From OQ Require Import Model.Progress Proofs.ProgressSpec.
Import ListNotations.

(* (1) The progress timer protocol.  For EVERY interleaving — any sequence of enter, update and
   exit by the calling thread, of timer firings, and of pending callbacks running update() on
   the timer thread, of any length — in every reachable state in which the bar is closed (exit
   has run and the object has not been entered again) no timer is armed; late callbacks do not
   re-open it. Inductive invariant over the transition relation, no bound. *)
Theorem quiescent :
  forall ops : list op,
    let s := fold_left step ops init in
    closed s = true -> forall i, stat_of i (timers s) <> Armed.
Proof. exact quiescent_after_exit. Qed.
Print Assumptions quiescent.

Theorem exit_then_nothing_rearms :
  forall s, closed (step s Exit) = true /\
            (forall o, closed s = true -> o <> Enter -> closed (step s o) = true).
Proof. intros s. split; [apply exit_closes|intros o; apply closed_stays]. Qed.
Print Assumptions exit_then_nothing_rearms.

Theorem one_timer_at_most :
  forall ops : list op,
    let s := fold_left step ops init in
    forall i j, stat_of i (timers s) = Armed -> stat_of j (timers s) = Armed -> i = j.
Proof. exact at_most_one_armed. Qed.
Print Assumptions one_timer_at_most.

(* the same with an output stream that may fail at any print (closed stdout, broken pipe, a status line
   that cannot be formatted): every operation may raise from its print, in any pattern; the bar is still
   closed by an exit whose print raises, and a closed bar has no armed timer *)
Theorem quiescent_with_print_failures :
  forall fops : list fop,
    let s := fold_left fstep fops init in
    closed s = true -> forall i, stat_of i (timers s) <> Armed.
Proof.
  intros fops. replace (fold_left fstep fops init) with (fold_left step (map erase fops) init).
  - exact (quiescent_after_exit (map erase fops)).
  - generalize init. induction fops as [|f fops IH]; intros s0; [reflexivity|]. cbn [map fold_left]. apply IH.
Qed.
Print Assumptions quiescent_with_print_failures.

Theorem failing_exit_closes : forall s, closed (fstep s (PFail Exit)) = true.
Proof. intros s. apply exit_closes. Qed.
Print Assumptions failing_exit_closes.

(* the protocol before the repair: callback cancels, caller exits, callback re-arms *)
Theorem unlocked_protocol_refuted :
  exists trace : list oop,
    let s := fold_left old_step trace old_init in o_done s = true /\ old_armed s <> [].
Proof.
  exists [OEnter; OUpdate; OFire 1; OCbCancel; OExit; OCbAllocAssign; OCbStart].
  vm_compute. split; [reflexivity|discriminate].
Qed.
Print Assumptions unlocked_protocol_refuted.

(* (2) bracket discipline: with a with-statement / finally, exit runs for every number of updates
   and every failure point; without, a failure skips it (compute_dynamics,
   compute_dynamics_with_field and the gradient passes used explicit enter()/exit() before the
   repair; every API is guarded now, which the correspondence checks per API and failure point) *)
Theorem exit_always :
  forall n k, In PExit (bracket_log true n k).
Proof. exact guarded_exit_always. Qed.
Print Assumptions exit_always.

Theorem exit_skipped_refuted :
  forall n k, ~ In PExit (bracket_log false n (Some k)).
Proof. exact unguarded_exit_skipped. Qed.
Print Assumptions exit_skipped_refuted.

Example quiescent_premise_met :
  closed (fold_left step [Enter; Update; Fire 1; Update; Run; Exit; Run] init) = true.
Proof. reflexivity. Qed.

(* (3) the paths of a call: statements after enter() go on, return early (nothing left to do) or raise.  With the
   try block (or with-statement) starting right after enter(), any sequence of calls taking any paths leaves as many
   exits as enters, and every call's log ends with its exit; a statement that can leave the function between
   enter() and the try block skips it *)
Theorem every_path_exits :
  forall calls : list (list outcome),
    pev_count PEnter (calls_log 0 calls) = length calls /\ pev_count PExit (calls_log 0 calls) = length calls.
Proof. exact calls_balanced_lemma. Qed.
Print Assumptions every_path_exits.

Theorem call_ends_with_exit :
  forall stmts, exists l, call_log 0 stmts = l ++ [PExit].
Proof. exact call_ends_with_exit_lemma. Qed.
Print Assumptions call_ends_with_exit.

Theorem early_return_before_try_refuted :
  exists stmts, pev_count PExit (call_log 1 stmts) = 0.
Proof. exists [Ret]. reflexivity. Qed.
Print Assumptions early_return_before_try_refuted.

(* (12) exit() has to close the bar and cancel the tracked timer on EVERY call, also when the bar spans no steps: with an
   exit() that returns early for an empty bar (a seeded change), the calls enter(); update(0); exit() of a computation
   with nothing to do leave a timer armed, and after it fires and its callback runs another one is armed -- for ever.
   With the exit() of the code the same trace ends quiescent (theorem quiescent). *)
Theorem early_exit_refuted :
  let tr := [Enter; Update; Exit] in
  armed_ids (fold_left (step_early true) tr init) <> [] /\
  armed_ids (fold_left (step_early true) (tr ++ [Fire 1; Run]) init) <> [] /\
  armed_ids (fold_left (step_early true) (tr ++ [Fire 1; Run; Fire 2; Run]) init) <> [] /\
  armed_ids (fold_left step tr init) = [].
Proof. cbv zeta. repeat split; vm_compute; try discriminate; reflexivity. Qed.
Print Assumptions early_exit_refuted.
