(* C12 — bath correlation functions and their 2D integrals are consistent and correct. *)
From Coq Require Import Reals Arith Lra Psatz.
From Coquelicot Require Import Coquelicot.
From OQ Require Import Lib.RingSum Model.Shapes Proofs.ShapesSpec Analysis.Eta.

(* (1) what the three cell shapes are.  For a continuous real function c (the real or the imaginary
   part of the correlation function) with first antiderivative F and second antiderivative G
   (eta_function), for ALL cell positions and sizes: *)
Theorem rectangle_cell :
  forall (c F G : R -> R), (forall x, is_derive F x (c x)) -> (forall x, is_derive G x (F x)) ->
    (forall x, continuous c x) ->
    forall t1 t2 delta,
      is_RInt (fun t' => RInt (fun t'' => c (t' - t'')) 0 delta) t1 t2
              (G t2 - G t1 - G (t2 - delta) + G (t1 - delta)).
Proof. exact rectangle_is_second_difference. Qed.
Print Assumptions rectangle_cell.

Theorem square_cell :
  forall (c F G : R -> R), (forall x, is_derive F x (c x)) -> (forall x, is_derive G x (F x)) ->
    (forall x, continuous c x) ->
    forall t1 delta,
      is_RInt (fun t' => RInt (fun t'' => c (t' - t'')) 0 delta) t1 (t1 + delta)
              (G (t1 + delta) - 2 * G t1 + G (t1 - delta)).
Proof. exact square_is_second_difference. Qed.
Print Assumptions square_cell.

(* the triangle needs the first antiderivative when it does not start at the origin *)
Theorem triangle_cell :
  forall (c F G : R -> R), (forall x, is_derive F x (c x)) -> (forall x, is_derive G x (F x)) ->
    (forall x, continuous c x) ->
    forall t1 delta,
      is_RInt (fun t' => RInt (fun t'' => c (t' - t'')) 0 (t' - t1)) t1 (t1 + delta)
              (G (t1 + delta) - G t1 - delta * F t1).
Proof. exact triangle_is_difference. Qed.
Print Assumptions triangle_cell.

(* (2) the integrand of eta_function is the twice-integrated integrand of correlation(), for every
   frequency: real part (1 - cos wt)/w^2 <- sin(wt)/w <- cos(wt); imaginary part
   (sin wt - wt)/w^2 <- (cos wt - 1)/w <- -sin(wt); all vanish at t = 0 *)
Theorem kernel_T0 :
  forall w : R, w <> 0 ->
    (forall x, is_derive (fun t => sin (w * t) / w) x (cos (w * x))) /\
    (forall x, is_derive (fun t => (1 - cos (w * t)) / (w * w)) x (sin (w * x) / w)) /\
    (forall x, is_derive (fun t => (cos (w * t) - 1) / w) x (- sin (w * x))) /\
    (forall x, is_derive (fun t => (sin (w * t) - w * t) / (w * w)) x ((cos (w * x) - 1) / w)) /\
    (1 - cos (w * 0)) / (w * w) = 0 /\ (sin (w * 0) - w * 0) / (w * w) = 0.
Proof.
  intros w Hw. destruct (kernel_at_zero w Hw) as (H1 & H2 & _ & _).
  split; [intros x; apply kernel_re_F; exact Hw|].
  split; [intros x; apply kernel_re_G; exact Hw|].
  split; [intros x; apply kernel_im_F; exact Hw|].
  split; [intros x; apply kernel_im_G; exact Hw|].
  split; assumption.
Qed.
Print Assumptions kernel_T0.

(* (3) Hermitian symmetry and positivity at the level of the kernel: C(-t) = conj C(t); the real part
   of the triangle integral is non-negative for J >= 0 *)
Theorem hermitian_sym_and_positivity :
  forall w t : R, w <> 0 ->
    cos (w * - t) = cos (w * t) /\ - sin (w * - t) = - (- sin (w * t)) /\ 0 <= (1 - cos (w * t)) / (w * w).
Proof.
  intros w t Hw. destruct (kernel_hermitian w t) as [H1 H2]. repeat split; try assumption.
  apply kernel_re_nonneg. exact Hw.
Qed.
Print Assumptions hermitian_sym_and_positivity.

(* (4) tiling, over any ring: the cells of the first n steps sum to G(n) - G(0) *)
Theorem tiling :
  forall (K : Ring) (G : nat -> K) (n : nat), sumn n (row_full K G) = rsub (G n) (G 0%nat).
Proof. exact tiling_full. Qed.
Print Assumptions tiling.

Theorem rectangle_splits :
  forall (K : Ring) (G : nat -> K) t1 t2 t3, rect_cell G t1 t3 = radd (rect_cell G t1 t2) (rect_cell G t2 t3).
Proof. exact ShapesSpec.rectangle_splits. Qed.
Print Assumptions rectangle_splits.

(* (7) the overflow guard of eta_function / correlation.  For exp(-w/T) = x below machine epsilon the code replaces
   the thermal kernel  (A + B - x - 1)/(1 - x) + i w tau   (A = exp(-i w tau), B = exp(-(w/T - i w tau)))  by
   A + B - 1 + i w tau  (it drops x, not B: B = exp(-(beta - tau) w) is of order one for Matsubara times near beta; the
   code before the repair 42443af dropped B as well, which is what made Matsubara integrals wrong at low temperature).
   The two differ by exactly  x (A + B - 2)/(1 - x), separately for real and imaginary parts; for Matsubara times
   (A, B real in (0, 1]) and for real times (|A| = 1, |B| = x) the real part of the difference lies in [-4x/(1-x), 0]:
   the guard changes the integrand by a relative 4 eps at most, and the linear term i w tau is present in BOTH branches. *)
Theorem overflow_guard_identity :
  forall c s cb sb x wt : R, (1 - x <> 0)%R ->
    (((c + cb - x - 1) / (1 - x)) - (c + cb - 1) = x * (c + cb - 2) / (1 - x))%R /\
    (((s + sb) / (1 - x) + wt) - (s + sb + wt) = x * (s + sb) / (1 - x))%R.
Proof. intros c s cb sb x wt H. split; field; exact H. Qed.
Print Assumptions overflow_guard_identity.

Theorem overflow_guard_bound :
  forall c cb x : R, (-1 <= c <= 1)%R -> (-1 <= cb <= 1)%R -> (0 <= x < 1)%R ->
    (- (4 * x / (1 - x)) <= x * (c + cb - 2) / (1 - x) <= 0)%R.
Proof.
  intros c cb x [Hc1 Hc2] [Hb1 Hb2] [Hx1 Hx2].
  assert (Hd : (0 < 1 - x)%R) by lra.
  assert (Hi : (0 < / (1 - x))%R) by (apply Rinv_0_lt_compat; exact Hd).
  assert (Hn : (x * (c + cb - 2) <= 0)%R) by nra.
  assert (Hm : (- (4 * x) <= x * (c + cb - 2))%R) by nra.
  unfold Rdiv. split.
  - replace (- (4 * x * / (1 - x)))%R with ((- (4 * x)) * / (1 - x))%R by ring.
    apply Rmult_le_compat_r; [left; exact Hi|exact Hm].
  - replace 0%R with (0 * / (1 - x))%R by ring.
    apply Rmult_le_compat_r; [left; exact Hi|exact Hn].
Qed.
Print Assumptions overflow_guard_bound.

(* (8) the second antiderivative at negative arguments.  Square and rectangle cells that straddle the diagonal
   (0 <= t1 < delta) evaluate eta_function at t1 - delta < 0; square_cell / rectangle_cell above hold there with the
   second antiderivative continued to the whole line.  At the level of the kernel that continuation is
   eta(-t) = conj(eta(t)): the real part (1 - cos wt)/w^2 is even, the imaginary part (sin wt - wt)/w^2 is odd --
   and NOT eta(|t|): looking the function up at |t| (the variant a seeded change introduced into
   correlation_2d_integral) gives the wrong sign to the imaginary part for every w > 0 and t < 0. *)
Theorem eta_kernel_reflection :
  forall w t : R,
    (1 - cos (w * - t)) / (w * w) = (1 - cos (w * t)) / (w * w) /\
    (sin (w * - t) - w * - t) / (w * w) = - ((sin (w * t) - w * t) / (w * w)).
Proof.
  intros w t. replace (w * - t) with (- (w * t)) by ring. rewrite cos_neg, sin_neg. split; [reflexivity|].
  unfold Rdiv. ring.
Qed.
Print Assumptions eta_kernel_reflection.

Theorem eta_abs_lookup_refuted :
  forall w t : R, 0 < w -> t < 0 ->
    (sin (w * Rabs t) - w * Rabs t) / (w * w) <> (sin (w * t) - w * t) / (w * w).
Proof.
  intros w t Hw Ht. rewrite (Rabs_left t Ht).
  destruct (eta_kernel_reflection w t) as [_ H]. rewrite H. clear H.
  assert (Hx : 0 < w * - t) by (apply Rmult_lt_0_compat; lra).
  pose proof (sin_lt_x (w * - t) Hx) as Hs.
  replace (w * - t) with (- (w * t)) in Hs by ring. rewrite sin_neg in Hs.
  assert (Hne : sin (w * t) - w * t <> 0) by lra.
  assert (Hww : 0 < w * w) by (apply Rmult_lt_0_compat; assumption).
  intros E.
  assert (E2 : (sin (w * t) - w * t) / (w * w) = 0) by lra.
  apply Hne. unfold Rdiv in E2. apply Rmult_integral in E2. destruct E2 as [E2|E2]; [exact E2|].
  exfalso. apply (Rinv_neq_0_compat (w * w)); [lra|exact E2].
Qed.
Print Assumptions eta_abs_lookup_refuted.
