(* C17 — an interrupted process-tensor file is never mistaken for a complete one. *)
From Coq Require Import Arith List Bool.
From OQ Require Import Model.PTFile Proofs.PTFileSpec.
Import ListNotations.

(* (1) Whatever sequence of set_initial / set_mpo / set_cap operations a writer has performed
   (export(), a file-backed PT-TEMPO run, compute_caps — any order, any number), as long as
   close() has not completed the file carries the 'writing' flag; whatever survives on disk
   (nothing readable, or any such state) never opens cleanly. *)
Theorem crash_detected :
  forall (X D S : Type) (p : spt X D S) (ops : list (wop X S)) (d : disk X D S),
    Forall (not_close X S) ops ->
    d = Unreadable X D S \/ d = Content X D S (fold_left (wstep X D S) ops (create X D S p)) ->
    forall f, open_read X D S d <> Clean f.
Proof. exact PTFileSpec.crash_detected. Qed.
Print Assumptions crash_detected.

(* (1b) the name / description setters belong to the operations of (1): a file object that is renamed or described while it is
   being filled is still flagged until close() -- whatever survives a death after the renaming does not open cleanly *)
Example crash_premise_met_renamed :
  Forall (not_close nat nat) [WMpo nat nat 0 ([1;1;1], [Some 1]); WName nat nat 7; WDesc nat nat 8; WCap nat nat 0 ([1], [Some 1])].
Proof. repeat constructor. Qed.

(* ... and renaming changes nothing but the attribute: flag, dimension, time step, transforms and every tensor slot are those
   of the same writer with the renames left out (any operation sequence, renames anywhere) *)
Theorem renames_invisible :
  forall (X D S : Type) (p : spt X D S) (ops : list (wop X S)),
    payload X D S (fold_left (wstep X D S) ops (create X D S p)) =
    payload X D S (fold_left (wstep X D S) (filter (fun o => negb (is_rename X S o)) ops) (create X D S p)).
Proof. intros. apply PTFileSpec.renames_invisible. reflexivity. Qed.
Print Assumptions renames_invisible.

(* a setter that rewrites all attributes with writing = false: the file of a writer that renamed it and died opens cleanly
   with a tensor missing *)
Theorem rename_resets_flag_refuted :
  exists f, open_read nat nat nat (Content nat nat nat
     (fold_left (bad_wstep nat nat nat) [WMpo nat nat 0 ([1;1;1], [Some 1]); WName nat nat 7]
        (create nat nat nat (Build_spt nat nat nat 2 None None None 1 2 None [] [])))) = Clean f /\ f_caps nat nat nat f = [].
Proof. eexists. split; reflexivity. Qed.
Print Assumptions rename_resets_flag_refuted.

(* (2) export() killed after any strict prefix of its operations *)
Theorem export_crash_detected :
  forall (X D S : Type) (p : spt X D S) ops rest f,
    export_ops X D S p = ops ++ rest -> rest <> [] ->
    open_read X D S (Content X D S (fold_left (wstep X D S) ops (create X D S p))) <> Clean f.
Proof. exact PTFileSpec.export_crash_detected. Qed.
Print Assumptions export_crash_detected.

(* (3) a normally closed file opens without warning and with complete content *)
Theorem clean_close :
  forall (X D S : Type) (p : spt X D S),
    open_read X D S (Content X D S (export X D S p)) = Clean (export X D S p) /\
    (wf X D S p -> import_simple X D S (export X D S p) = Ok p).
Proof.
  intros. split.
  - cbn [open_read]. rewrite clean_close_unflagged. reflexivity.
  - apply roundtrip_simple.
Qed.
Print Assumptions clean_close.

(* (4) creation never clobbers unless overwriting was requested; read never creates *)
Theorem no_clobber :
  forall m : mode,
    (open_mode m true = Replaced <-> m = MOverwrite) /\
    (m = MWrite -> open_mode m true = Refused) /\
    (m = MRead -> open_mode m true = OpenedExisting /\ open_mode m false = Refused).
Proof. exact PTFileSpec.no_clobber. Qed.
Print Assumptions no_clobber.

(* (5) remove() is permitted exactly for files the object created as temporary or with overwrite *)
Theorem remove_guard :
  forall (m : mode) (given : bool),
    removeable m given = true <-> (m = MOverwrite \/ (m = MWrite /\ given = false)).
Proof. exact PTFileSpec.remove_guard. Qed.
Print Assumptions remove_guard.

(* the PT-TEMPO entry points (pt_tempo_compute, PtTempo with a named process_tensor_file): an existing file is
   replaced iff overwriting was requested, whatever the other options (degeneracy checking) are, and remove() is
   granted under exactly the same condition *)
Theorem api_no_clobber :
  forall unique overwrite : bool,
    (open_mode (api_mode unique overwrite) true = Replaced <-> overwrite = true) /\
    (overwrite = false -> open_mode (api_mode unique overwrite) true = Refused) /\
    removeable (api_mode unique overwrite) true = overwrite.
Proof. intros [|] [|]; cbn; repeat split; intros; try reflexivity; try discriminate. Qed.
Print Assumptions api_no_clobber.

Example crash_premise_met :
  Forall (not_close nat nat) [WInit nat nat None; WMpo nat nat 0 ([1;1;1], [Some 1]); WCap nat nat 0 ([1], [Some 1])].
Proof. repeat constructor. Qed.

(* (5b) the entitlement does not depend on whether the handle is still open: an object that may not delete its file never deletes
   it, whatever sequence of close() and remove() calls it is given; an entitled one deletes it at its first remove() *)
Theorem not_entitled_never_deletes :
  forall (ops : list fop) (o : fobj),
    removeable (o_mode o) (o_given o) = false ->
    o_there (fo_final false o ops) = o_there o /\ Forall (fun r => snd r = o_there o) (fo_run false o ops).
Proof. exact PTFileSpec.not_entitled_never_deletes. Qed.
Print Assumptions not_entitled_never_deletes.

Theorem entitled_removes :
  forall (o : fobj) (pre : list fop),
    removeable (o_mode o) (o_given o) = true -> Forall (fun op => op = FClose) pre ->
    o_there (fo_final false o (pre ++ [FRemove])) = false.
Proof. exact PTFileSpec.entitled_removes. Qed.
Print Assumptions entitled_removes.

(* the entitlement looked at only while the handle is open: close(); remove() deletes a file opened for reading *)
Theorem late_entitlement_check_refuted :
  o_there (fo_final true {| o_mode := MRead; o_given := true; o_open := true; o_there := true |} [FClose; FRemove]) = false.
Proof. reflexivity. Qed.
Print Assumptions late_entitlement_check_refuted.
