(* C02 — TEMPO and PT-TEMPO + compute_dynamics produce the same dynamics. *)
From Coq Require Import ZArith List Bool Arith.
From OQ Require Import Lib.RingSum Model.Schedule Model.Shapes Model.Dyn Proofs.ScheduleSpec Proofs.ShapesSpec Proofs.DynSpec.
Import ListNotations.

(* (1) The row-wise network of TEMPO and the column-wise network of PT-TEMPO couple every pair of
   time points (kp, k) with the same influence coefficient, for EVERY number of steps N, memory
   length dkmax >= 1 and with or without an additional correlation time — up to the
   identification of the width-one rectangle (key -1) with the square at distance dkmax. *)
Theorem rows_eq_columns :
  forall (N m : nat) (rect : bool) (kp k : nat),
    (1 <= m)%nat -> (kp <= k)%nat -> (k < N)%nat ->
    norm_key m (tempo_key (Some m) rect kp k) = norm_key m (pt_key N m rect kp k).
Proof. exact ScheduleSpec.rows_eq_columns. Qed.
Print Assumptions rows_eq_columns.

(* ... and that identification is an identity of the 2D integrals, over any ring, for any G *)
Theorem rect_width_dt_is_square :
  forall (K : Ring) (G : nat -> K) (m : nat), (1 <= m)%nat -> rect_cell G m (m + 1) = sq_cell G m.
Proof. exact rect_width_one_is_square. Qed.
Print Assumptions rect_width_dt_is_square.

(* (2) both follow the documented meaning of the memory settings *)
Theorem tempo_follows_spec :
  forall (m : nat) (rect : bool) (kp k : nat), (1 <= m)%nat -> (kp <= k)%nat ->
    norm_key m (tempo_key (Some m) rect kp k) = norm_key m (cell_spec (Some m) rect kp k).
Proof. exact tempo_key_spec. Qed.
Print Assumptions tempo_follows_spec.

Theorem pt_follows_spec :
  forall (N m : nat) (rect : bool) (kp k : nat), (1 <= m)%nat -> (kp <= k)%nat -> (k < N)%nat ->
    pt_key N m rect kp k = cell_spec (Some m) rect kp k.
Proof. exact pt_key_spec. Qed.
Print Assumptions pt_follows_spec.

Theorem full_memory_follows_spec :
  forall (rect : bool) (kp k : nat), (kp <= k)%nat ->
    tempo_key None rect kp k = cell_spec None rect kp k.
Proof. exact tempo_key_spec_full. Qed.
Print Assumptions full_memory_follows_spec.

(* (3) computing only the first n steps: the contraction loop itself is prefix-closed — the first
   n+1 recorded states of an N-step run are those of the n-step run whenever the read-out
   (caps) of step k does not depend on the total length *)
Theorem prefix_consistency :
  forall (V St : Type) (pre post p1 p2 : nat -> V -> V) (env : nat -> nat -> V -> V) (m : nat)
         (readout : nat -> V -> St) (n N : nat) (v0 : V), n <= N ->
    firstn (S n) (run V St pre post p1 p2 env m readout true N v0) =
    run V St pre post p1 p2 env m readout true n v0.
Proof. intros. apply run_prefix. assumption. Qed.
Print Assumptions prefix_consistency.
