(* C08 — the adjoint gradient equals the derivative of the objective. *)
From Coq Require Import Arith ZArith List Bool.
From OQ Require Import Lib.RingSum Model.SuperOps Proofs.CovarianceSpec Proofs.GradientSpec.
Import ListNotations.

(* A computation is a chain of linear maps on the augmented space (system x all bond legs): the
   half-step propagators and, within a step, the MPO tensor of every environment in list order.
   Over any commutative ring, every dimension, every chain length. *)

(* (1) back-propagation: pulling a covector back through a chain applies the TRANSPOSED maps in
   REVERSE order — in particular the environments of one step in reverse list order *)
Theorem backprop_reverse_order :
  forall (K : Ring) (d : nat) (Ms : list (M2 K)) (b v : nat -> K),
    dot K d b (apply_all K d Ms v) = dot K d (apply_all K d (rev (map (tr K) Ms)) b) v.
Proof. exact backprop_chain. Qed.
Print Assumptions backprop_reverse_order.

(* (2) the adjoint tensor: the objective <target, final state> as a function of ONE map X of the
   chain is the forward state before X sandwiched with the back-propagated target.  This is
   what compute_gradient_and_dynamics stores per step and _chain_rule contracts. *)
Theorem adjoint_tensor_correct :
  forall (K : Ring) (d : nat) (l1 l2 : list (M2 K)) (X : M2 K) (target v : nat -> K),
    dot K d target (apply_all K d (l1 ++ [X] ++ l2) v) =
    dot K d (apply_all K d (rev (map (tr K) l2)) target) (mv K d X (apply_all K d l1 v)).
Proof. exact GradientSpec.adjoint_tensor_correct. Qed.
Print Assumptions adjoint_tensor_correct.

(* (3) chain rule: the objective is linear in every single map, hence its derivative with respect
   to a parameter of that map is the objective evaluated at the map's derivative *)
Theorem chain_rule_linearity :
  forall (K : Ring) (d : nat) (l1 l2 : list (M2 K)) (X Y : M2 K) (a b : K) (target v : nat -> K),
    dot K d target (apply_all K d (l1 ++ [fun r c => radd (rmul a (X r c)) (rmul b (Y r c))] ++ l2) v) =
    radd (rmul a (dot K d target (apply_all K d (l1 ++ [X] ++ l2) v)))
         (rmul b (dot K d target (apply_all K d (l1 ++ [Y] ++ l2) v))).
Proof. exact objective_linear. Qed.
Print Assumptions chain_rule_linearity.

(* (4) the order matters: pulling back through two non-commuting maps in the SAME order (the code
   before the repair) gives a different covector *)
Theorem same_order_refuted :
  let A : M2 ZRing := fun i j => if (Nat.eqb i 0 && Nat.eqb j 1)%bool then 1%Z else 0%Z in
  let B : M2 ZRing := fun i j => if (Nat.eqb i 1 && Nat.eqb j 0)%bool then 1%Z else (if Nat.eqb i j then 1%Z else 0%Z) in
  let b : nat -> Z := fun i => if Nat.eqb i 0 then 1%Z else 0%Z in
  let v : nat -> Z := fun i => if Nat.eqb i 0 then 1%Z else 2%Z in
  dot ZRing 2 b (apply_all ZRing 2 [A; B] v) <> dot ZRing 2 (apply_all ZRing 2 (map (tr ZRing) [A; B]) b) v.
Proof. vm_compute. discriminate. Qed.
Print Assumptions same_order_refuted.
