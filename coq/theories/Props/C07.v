(* C07 — multi-time correlations are exact and aligned with the returned time axes. *)
From Coq Require Import ZArith List Bool PrimFloat.
From OQ Require Import Lib.PyFloat Lib.PySem Model.Corr Proofs.CorrSpec Model.BathTable Proofs.BathTableSpec.
Import ListNotations.
Local Open Scope Z_scope.

(* (1) alignment: for ANY number of operators, any time lists and any value oracle, the array
   built by compute_correlations_nt (rows skipped unless the first times are ordered, last
   times masked by the latest first time, values written back under the mask) holds at the
   position of first-index tuple f and last index l exactly [entry_spec (steps f ++ [l])]:
   the oracle's value for those very steps if they are non-decreasing, NaN otherwise. *)
Theorem aligned :
  forall (V : Type) (oracle : list Z -> V) (firsts : list (list Z)) (last : list Z),
    correlations_nt V oracle (firsts ++ [last]) =
    flat_map (fun first => map (fun l => entry_spec V oracle (first ++ [l])) last) (product firsts).
Proof. exact correlations_nt_is_spec. Qed.
Print Assumptions aligned.

Theorem nan_iff_unordered :
  forall (V : Type) (oracle : list Z -> V) steps,
    entry_spec V oracle steps = None <-> nondecreasing steps = false.
Proof. exact entry_nan_iff. Qed.
Print Assumptions nan_iff_unordered.

(* (2) time specifications.  Intervals in either direction, including those ending at step 0 *)
Theorem interval_spec :
  forall max_step dt start t0 t1,
  let i0 := step_of_time dt start t0 in
  let i1 := step_of_time dt start t1 in
  in_bounds max_step i0 = true -> in_bounds max_step i1 = true ->
  exists l, parse_times (TInterval t0 t1) max_step dt start = Some l /\
            length l = Z.to_nat (Z.abs (i1 - i0) + 1) /\
            (forall k d, (k < length l)%nat ->
               nth k l d = if i0 <=? i1 then i0 + Z.of_nat k else i0 - Z.of_nat k).
Proof. exact CorrSpec.interval_spec. Qed.
Print Assumptions interval_spec.

(* lists: order kept, negative indices wrapped once, everything else rejected *)
Theorem list_spec :
  forall len l r, list_select len l = Some r ->
  length r = length l /\
  forall k, (k < length l)%nat ->
    let i := nth k l 0 in
    nth k r 0 = (if i <? 0 then i + len else i) /\ 0 <= nth k r 0 < len.
Proof. exact CorrSpec.list_spec. Qed.
Print Assumptions list_spec.

(* slices: every selected step is a valid step, whatever start/stop/step (Python semantics) *)
Theorem slice_in_bounds :
  forall a b c len l, 0 <= len -> slice_select a b c len = Some l -> Forall (fun x => 0 <= x < len) l.
Proof. exact CorrSpec.slice_in_bounds. Qed.
Print Assumptions slice_in_bounds.

(* ints and floats: the single step, or IndexError outside 0..max_step *)
Theorem int_float_spec :
  forall max_step dt start z t,
    parse_times (TInt z) max_step dt start = (if in_bounds max_step z then Some [z] else None) /\
    parse_times (TFloat t) max_step dt start =
      (let i := step_of_time dt start t in if in_bounds max_step i then Some [i] else None).
Proof. intros. split; reflexivity. Qed.
Print Assumptions int_float_spec.

(* non-vacuity of (2): an interval running down to step 0 on a 4-step grid *)
Example interval_down_to_zero :
  parse_times (TInterval 0x1.3333333333333p-2 0) 4 0x1.999999999999ap-4 0 = Some [3; 2; 1; 0].
Proof. vm_compute. reflexivity. Qed.

(* (7) the table of system correlations behind the bath-mode correlations (TwoTimeBathCorrelations): after ANY sequence of
   earlier questions, a question about times up to step dim finds a table that covers dim steps -- the first question to a
   fresh object included, whatever its size; with the empty table held as an array whose first dimension is 1 (the code
   before the repair e2ae49c) a first question about one step finds nothing *)
Theorem every_question_answerable :
  forall (qs : list nat) (dim : nat), bt_answerable (bt_ask (bt_run false qs) dim) dim = true.
Proof. exact every_question_answerable_lemma. Qed.
Print Assumptions every_question_answerable.

Theorem legacy_empty_table_refuted :
  exists qs dim, bt_answerable (bt_ask (bt_run true qs) dim) dim = false.
Proof. exists [], 1%nat. reflexivity. Qed.
Print Assumptions legacy_empty_table_refuted.

Example answerable_premise_met : bt_run false [1; 3; 2; 5]%nat = {| rows := 5; filled := 5 |}.
Proof. reflexivity. Qed.
