(* C10 — PT-TEBD chain dynamics are exact where checkable, in every execution mode. *)
From Coq Require Import Arith List Bool Permutation Lia.
From OQ Require Import Model.Chain Proofs.ChainSpec Proofs.ChainTime Proofs.ChainTwoSite.
Import ListNotations.

(* (1) the Trotter layers, for every chain length: order 1 is (even, odd), order 2 is
   (even, odd, odd, even) with half the time step; every bond lies in exactly one of the two
   layers, no gate is duplicated, two gates of one layer are at least two sites apart *)
Theorem layers_spec :
  forall n,
    layers n 1 = [evens n; odds n] /\ layers n 2 = [evens n; odds n; odds n; evens n] /\
    gate_fraction 1 = 4 /\ gate_fraction 2 = 2 /\
    NoDup (evens n) /\ NoDup (odds n) /\
    (forall b, b + 2 <= n -> (In b (evens n) /\ ~ In b (odds n)) \/ (In b (odds n) /\ ~ In b (evens n))) /\
    all_sep (evens n) /\ all_sep (odds n).
Proof.
  intros n. destruct (ChainSpec.layers_spec n) as (H1 & H2 & H3 & H4).
  destruct (layers_no_duplicates n) as [H5 H6]. destruct (trotter_layers_separated n) as [H7 H8].
  repeat split; try assumption. intros b Hb. apply every_bond_once. exact Hb.
Qed.
Print Assumptions layers_spec.

(* (2) every site's own Liouvillian is counted with total weight one over the bonds it belongs
   to (weights in halves), for every chain length >= 2 and every site *)
Theorem site_factors : forall n i, 2 <= n -> i < n -> total_weight2 n i = 2.
Proof. exact ChainSpec.site_factors. Qed.
Print Assumptions site_factors.

(* (2b) (1) and (2) together, dynamically: run the gate layers of one TEBD step with a gate that only
   advances per-site clocks by (site weight of the bond) x (layer fraction) — the uncoupled chain, whose
   gates are products of single-site propagators.  Every site's clock advances by exactly one full time
   step (8 units of 1/8), for every chain length >= 2, both Trotter orders and every starting state:
   the uncoupled chain reproduces the single-site dynamics, no site is propagated too long or too short *)
Theorem one_time_step_per_site :
  forall (B : Type) (db : B) (n order : nat) (s : cstate nat B),
    2 <= n -> order = 1 \/ order = 2 -> length (fst s) = n ->
    forall i, i < n -> nth i (fst (tebd_step B db n order s)) 0 = nth i (fst s) 0 + 8.
Proof. exact ChainTime.one_time_step_per_site. Qed.
Print Assumptions one_time_step_per_site.

Example clocks_after_one_step :
  fst (tebd_step unit tt 5 2 ([0; 0; 0; 0; 0], [tt; tt; tt; tt; tt; tt])) = [8; 8; 8; 8; 8] /\
  fst (tebd_step unit tt 2 1 ([3; 1], [tt; tt; tt])) = [11; 9].
Proof. split; reflexivity. Qed.

(* (2c) the same with states: the uncoupled chain factorises.  Every site carries a state and a one-parameter family
   U i t (t in eighths of a time step) of maps with the semigroup law (the single-site propagators exp(t L_i); the law is
   expm's contract and a premise here); the gate of the uncoupled chain on bond l applies U l (weight x fraction) and
   U (l+1) (weight x fraction).  After one TEBD step site i is in the state U i 8 (its own dynamics for one full time
   step) — every chain length >= 2, both Trotter orders, every family U, every initial product state *)
Theorem uncoupled_factorises :
  forall (St B : Type) (ds : St) (db : B) (n : nat) (U : nat -> nat -> St -> St),
    (forall i a b s, U i (a + b) s = U i b (U i a s)) -> (forall i s, U i 0 s = s) ->
    forall (order : nat) (s : cstate St B),
      2 <= n -> order = 1 \/ order = 2 -> length (fst s) = n ->
      forall i, i < n -> nth i (fst (prod_step St B ds db n U order s)) ds = U i 8 (nth i (fst s) ds).
Proof. exact ChainTime.uncoupled_factorises. Qed.
Print Assumptions uncoupled_factorises.

(* premises met by a non-trivial family (site i moves with speed i+1), and the step computed *)
Example uncoupled_example :
  let U := fun i t s => s + (i + 1) * t in
  (forall i a b s, U i (a + b) s = U i b (U i a s)) /\ (forall i s, U i 0 s = s) /\
  fst (prod_step nat unit 0 tt 4 U 2 ([5; 0; 7; 1], [tt; tt; tt; tt; tt])) = [13; 16; 31; 33].
Proof. cbv zeta. split; [intros; lia|]. split; [intros; lia|]. reflexivity. Qed.

(* (2d) a chain of two sites has no Trotter error.  It has one bond; with J t the evolution of the pair
   (Gamma_0, lambda_1, Gamma_1) for t quarter-steps between its fixed outer bonds and the semigroup law of J (expm's
   contract, a premise), one TEBD step is exactly J (one time step), for both Trotter orders (order 2 applies the
   gate twice for half the step) and every state *)
Theorem two_site_exact :
  forall (A B : Type) (da : A) (db : B) (J : nat -> B -> A * B * A -> B -> A * B * A),
    (forall a b l0 x l2, J (a + b) l0 x l2 = J b l0 (J a l0 x l2) l2) ->
    forall order g0 g1 l0 l1 l2, order = 1 \/ order = 2 ->
      pair_step A B da db J order ([g0; g1], [l0; l1; l2]) =
      let '(g0', l1', g1') := J 4 l0 (g0, l1, g1) l2 in ([g0'; g1'], [l0; l1'; l2]).
Proof. exact ChainTwoSite.two_site_exact. Qed.
Print Assumptions two_site_exact.

(* (3) execution modes.  A gate on (l, l+1) reads lambda_l, Gamma_l, lambda_{l+1}, Gamma_{l+1},
   lambda_{l+2} and writes Gamma_l, lambda_{l+1}, Gamma_{l+1}; for ANY gate function, chain state and
   list of pairwise separated gates (hence for every Trotter layer of every chain length):
   computing every gate from the state before the layer and writing the results back (the
   multi-thread / multi-process branches) equals applying the gates one after the other (the
   sequential branch) ... *)
Theorem snapshot_eq_sequential :
  forall (A B : Type) (gate : nat -> B -> A -> B -> A -> B -> A * B * A) (da : A) (db : B)
         (s : cstate A B) (ls : list nat),
    all_sep ls ->
    apply_layer_seq A B gate da db s ls = apply_layer_par A B gate da db s ls ls.
Proof. exact ChainSpec.snapshot_eq_sequential. Qed.
Print Assumptions snapshot_eq_sequential.

(* ... and the results may be written back in any order (any completion order of the workers) *)
Theorem any_completion_order :
  forall (A B : Type) (gate : nat -> B -> A -> B -> A -> B -> A * B * A) (da : A) (db : B)
         (s : cstate A B) (ls order : list nat),
    NoDup ls -> all_sep ls -> Permutation ls order ->
    apply_layer_par A B gate da db s ls order = apply_layer_par A B gate da db s ls ls.
Proof. exact ChainSpec.any_completion_order. Qed.
Print Assumptions any_completion_order.

Example layer_premise_met : all_sep (evens 7) /\ NoDup (evens 7) /\ evens 7 = [0; 2; 4].
Proof. destruct (trotter_layers_separated 7) as [H _]. destruct (layers_no_duplicates 7) as [H2 _]. split; [exact H|]. split; [exact H2|reflexivity]. Qed.
