(* C15 — results are covariant under translation of the time origin. *)
From Coq Require Import ZArith QArith List Bool Lia PrimFloat Uint63.
From OQ Require Import Lib.PyFloat Model.TimeGrid Props.C13.
Import ListNotations.

(* Every place an explicit time enters the library is one of
       start + step*dt (+ dt/4, + 3dt/4, + dt/2, + dt)        (arguments of user functions, labels)
       round((t - start)/dt)                                  (float control / correlation times)
   (tied to the code by the bit-exact correspondences of C13, C09, C18, C07 and of this check). *)

(* (1) in exact arithmetic, for EVERY shift tau (positive, negative, not a multiple of dt): replacing
   start by start+tau and every user function g by g(. - tau) leaves the value at which g is
   evaluated unchanged; every float time t replaced by t+tau is assigned the same (real) step
   coordinate; every reported time is shifted by exactly tau *)
Theorem shift_invariance_eval :
  forall start dt tau c : Q, forall k : Z,
    ((start + tau) + inject_Z k * dt + c) - tau == start + inject_Z k * dt + c.
Proof. intros. ring. Qed.
Print Assumptions shift_invariance_eval.

Theorem shift_invariance_step :
  forall start dt tau t : Q, ~ dt == 0 -> ((t + tau) - (start + tau)) / dt == (t - start) / dt.
Proof. intros. field. assumption. Qed.
Print Assumptions shift_invariance_step.

Theorem shift_invariance_label :
  forall start dt tau : Q, forall k : Z, (start + tau) + inject_Z k * dt == (start + inject_Z k * dt) + tau.
Proof. intros. ring. Qed.
Print Assumptions shift_invariance_label.

(* (2) in binary64 the statement can only hold up to rounding.  On the lattice  dt = a/100 (a = 1..100),
   start = +-s/10 as in C13, tau in {37/100, -37/100, 617/500, -11/2}, step k = 0..100 and a time
   t = start + k*dt + theta*dt with theta in {0, 3/10, -3/10} (computed in floats): the step
   assigned to the shifted time relative to the shifted start equals the step assigned to the
   original time, and equals k *)
Local Open Scope float_scope.
Definition taus : list (bool * float) := [(false, 37 / 100); (true, 37 / 100); (false, 617 / 500); (true, 11 / 2)].
Definition step_f (dt start t : float) : float := rint ((t - start) / dt).

Definition shift_point_ok (s : bool * int) (a k : int) : bool :=
  let dt := of_uint63 a / 100 in
  let start := sdiv (fst s) (snd s) 10 in
  forallb (fun tau : bool * float =>
    let tv := if fst tau then - snd tau else snd tau in
    forallb (fun th : float =>
      let t := start + of_uint63 k * dt + th * dt in
      PrimFloat.eqb (step_f dt start t) (of_uint63 k) &&
      PrimFloat.eqb (step_f dt (start + tv) (t + tv)) (of_uint63 k)) [0; 3 / 10; - (3 / 10)]) taus.

Definition sweep_shift (P : bool * int -> int -> int -> bool) : bool :=
  forallb (fun s => loop 100 1%uint63 (fun a => loop 101 0%uint63 (fun k => P s a k))) starts.

Lemma sweep_shift_sound (P : bool * int -> int -> int -> bool) : sweep_shift P = true ->
  forall s a k, In s starts -> (a < 100)%nat -> (k < 101)%nat ->
    P s (Nat.iter a (fun i => (i + 1)%uint63) 1%uint63) (inat k) = true.
Proof.
  intros H s a k Hs Ha Hk. unfold sweep_shift in H.
  rewrite forallb_forall in H. specialize (H s Hs).
  pose proof (loop_sound _ _ _ H a Ha) as H1. cbv beta in H1.
  exact (loop_sound _ _ _ H1 k Hk).
Qed.

Lemma shift_lattice_true : sweep_shift shift_point_ok = true.
Proof. vm_cast_no_check (@eq_refl bool true). Qed.

Theorem shift_lattice :
  forall s a k, In s starts -> (a < 100)%nat -> (k < 101)%nat ->
    shift_point_ok s (Nat.iter a (fun i => (i + 1)%uint63) 1%uint63) (inat k) = true.
Proof. exact (sweep_shift_sound shift_point_ok shift_lattice_true). Qed.
Print Assumptions shift_lattice.

(* (3) why the step of a float time has to be round((t - start)/dt) and not a difference of two roundings: the
   "precomputed offset" form round(t/dt) - round(start/dt) agrees with it when start is a multiple of dt or t lies on
   the grid, and is NOT invariant under a shift of the origin otherwise (the variant a seeded change introduced
   into Control.get_controls): t = 0.23, dt = 0.1, start = 0 is step 2; shifted by 0.04 it becomes step 3, while
   the formula of the code assigns step 2 in both cases *)
Definition step_split (dt start t : float) : float := rint (t / dt) - rint (start / dt).
Theorem split_round_refuted :
  exists dt start t tau : float,
    PrimFloat.eqb (step_split dt (start + tau) (t + tau)) (step_split dt start t) = false /\
    PrimFloat.eqb (step_f dt (start + tau) (t + tau)) (step_f dt start t) = true.
Proof. exists (1 / 10), 0, (23 / 100), (4 / 100). split; vm_compute; reflexivity. Qed.
Print Assumptions split_round_refuted.
