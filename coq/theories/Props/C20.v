(* C20 — results depend only on current inputs: no mutation, aliasing or stale state. *)
From Coq Require Import Arith List Bool.
From OQ Require Import Model.Cache Proofs.CacheSpec Model.Holder Proofs.HolderSpec.
Import ListNotations.

(* (1) For EVERY sequence of constructions, parameter updates, memoised calls and copies (any
   length, any parameter and result types, any pure method f): every call returns what f computes
   from the object's current parameters — exactly what a memo-free implementation returns. *)
Theorem answers_current :
  forall (P V : Type) (f : P -> nat -> V) (ops : list (op P)),
    snd (run P V f (init P V) ops) = spec_run P V f [] ops.
Proof. exact answers_current_from_init. Qed.
Print Assumptions answers_current.

(* (2) objects built earlier are unaffected by later updates of another object *)
Theorem derived_unaffected :
  forall (P V : Type) (f : P -> nat -> V) (l : list P) i j p a, i <> j ->
    snd (spec_step P V f (fst (spec_step P V f l (Set_ P i p))) (Call P j a)) =
    snd (spec_step P V f l (Call P j a)).
Proof. exact derived_objects_unaffected. Qed.
Print Assumptions derived_unaffected.

Theorem copy_independent :
  forall (P V : Type) (f : P -> nat -> V) (l : list P) i p q a, nth_error l i = Some q ->
    let l1 := fst (spec_step P V f l (Copy P i)) in
    let l2 := fst (spec_step P V f l1 (Set_ P i p)) in
    snd (spec_step P V f l2 (Call P (length l) a)) = Some (f q a).
Proof. exact copy_is_independent. Qed.
Print Assumptions copy_independent.

(* the behaviour before the repair: memo keyed by identity only; copies alias the original *)
Theorem lru_stale_refuted :
  snd (old_run nat nat (fun p a => p * 10 + a) (old_init nat nat) [New nat 1; Call nat 0 3; Set_ nat 0 2; Call nat 0 3])
  <> spec_run nat nat (fun p a => p * 10 + a) [] [New nat 1; Call nat 0 3; Set_ nat 0 2; Call nat 0 3].
Proof. vm_compute. discriminate. Qed.
Print Assumptions lru_stale_refuted.

Theorem shallow_copy_refuted :
  snd (old_run nat nat (fun p a => p * 10 + a) (old_init nat nat) [New nat 1; Copy nat 0; Set_ nat 0 2; Call nat 1 3])
  <> spec_run nat nat (fun p a => p * 10 + a) [] [New nat 1; Copy nat 0; Set_ nat 0 2; Call nat 1 3].
Proof. vm_compute. discriminate. Qed.
Print Assumptions shallow_copy_refuted.

(* (3) objects built from the caller's arrays keep their own values.  The caller allocates arrays, overwrites them in
   place, hands them to constructors and computes with the objects, in ANY order and number (any value and result
   types, any computation g): with copying constructors (np.array(x): the code as repaired) every computation returns
   g of the value that the array handed to the constructor held AT THE TIME OF THAT CALL.  The specification is stated
   over the history only (last Alloc / Write before the constructor call), it does not mention the state. *)
Theorem holders_snapshot :
  forall (V R : Type) (g : V -> R) (ops : list (hop V)),
    hrun V R g (hinit V) ops = spec_answers V R g ops.
Proof. exact HolderSpec.holders_snapshot. Qed.
Print Assumptions holders_snapshot.

(* in words: overwriting the array after the constructor call is invisible to the object built from it *)
Theorem later_write_invisible :
  forall (V R : Type) (g : V -> R) (pre : list (hop V)) a v i,
    last (hrun V R g (hinit V) (pre ++ [Build V a; Compute V i])) None =
    last (hrun V R g (hinit V) (pre ++ [Build V a; Write V a v; Compute V i])) None.
Proof. exact HolderSpec.later_write_invisible. Qed.
Print Assumptions later_write_invisible.

Example holders_example :
  hrun nat nat (fun v => v) (hinit nat)
    [Alloc nat 1; Build nat 0; Write nat 0 2; Compute nat 0; Build nat 0; Alloc nat 3; Write nat 1 4; Build nat 1; Compute nat 1; Compute nat 2; Compute nat 0; Build nat 7; Compute nat 3]
  = [None; None; None; Some 1; None; None; None; None; Some 2; Some 4; Some 1; None; None].
Proof. reflexivity. Qed.

(* constructors that keep a reference to the caller's buffer (Tempo, MeanFieldTempo, Control.add_single,
   TwoTimeBathCorrelations before 814fcb3) violate it *)
Theorem aliasing_holder_refuted :
  alias_run nat nat (fun v => v) (alias_init nat) [Alloc nat 1; Build nat 0; Write nat 0 2; Compute nat 0]
  <> spec_answers nat nat (fun v => v) [Alloc nat 1; Build nat 0; Write nat 0 2; Compute nat 0].
Proof. exact HolderSpec.alias_refuted. Qed.
Print Assumptions aliasing_holder_refuted.

(* (9) asking an object for the product of the operations it stores for one site / key and step, any number of times:
   every answer is the product of the operations handed in, and the object is left as it was -- so a second
   computation with the same control object sees what the first one saw.  The variant that composes in place (a
   seeded change made to ChainControl) gives the same FIRST answer -- all a single computation ever asks for -- and a
   different second one. *)
Theorem stored_product_repeatable :
  forall (A : Type) (mul : A -> A -> A) (n : nat) (l : list A),
    ask A (q_pure A mul) n l = (repeat (fst (q_pure A mul l)) n, l).
Proof.
  intros A mul n l. induction n as [|n IH]; [reflexivity|].
  cbn [ask repeat]. destruct l as [|c t]; cbn [q_pure fst] in *; rewrite IH; reflexivity.
Qed.
Print Assumptions stored_product_repeatable.

Theorem inplace_first_answer_agrees :
  forall (A : Type) (mul : A -> A -> A) (l : list A), fst (q_inplace A mul l) = fst (q_pure A mul l).
Proof. intros A mul [|c t]; reflexivity. Qed.
Print Assumptions inplace_first_answer_agrees.

Theorem inplace_compose_refuted :
  exists (l : list nat), fst (ask nat (q_inplace nat Nat.mul) 2 l) <> repeat (fst (q_pure nat Nat.mul l)) 2.
Proof. exists [2; 3]. vm_compute. discriminate. Qed.
Print Assumptions inplace_compose_refuted.
