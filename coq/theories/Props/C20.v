(* C20 — results depend only on current inputs: no mutation, aliasing or stale state. *)
From Coq Require Import Arith List Bool.
From OQ Require Import Model.Cache Proofs.CacheSpec.
Import ListNotations.

(* (1) For EVERY sequence of constructions, parameter updates, memoised calls and copies (any
   length, any parameter and result types, any pure method f): every call returns what f computes
   from the object's current parameters — exactly what a memo-free implementation returns. *)
Theorem answers_current :
  forall (P V : Type) (f : P -> nat -> V) (ops : list (op P)),
    snd (run P V f (init P V) ops) = spec_run P V f [] ops.
Proof. exact answers_current_from_init. Qed.
Print Assumptions answers_current.

(* (2) objects built earlier are unaffected by later updates of another object *)
Theorem derived_unaffected :
  forall (P V : Type) (f : P -> nat -> V) (l : list P) i j p a, i <> j ->
    snd (spec_step P V f (fst (spec_step P V f l (Set_ P i p))) (Call P j a)) =
    snd (spec_step P V f l (Call P j a)).
Proof. exact derived_objects_unaffected. Qed.
Print Assumptions derived_unaffected.

Theorem copy_independent :
  forall (P V : Type) (f : P -> nat -> V) (l : list P) i p q a, nth_error l i = Some q ->
    let l1 := fst (spec_step P V f l (Copy P i)) in
    let l2 := fst (spec_step P V f l1 (Set_ P i p)) in
    snd (spec_step P V f l2 (Call P (length l) a)) = Some (f q a).
Proof. exact copy_is_independent. Qed.
Print Assumptions copy_independent.

(* the behaviour before the repair: memo keyed by identity only; copies alias the original *)
Theorem lru_stale_refuted :
  snd (old_run nat nat (fun p a => p * 10 + a) (old_init nat nat) [New nat 1; Call nat 0 3; Set_ nat 0 2; Call nat 0 3])
  <> spec_run nat nat (fun p a => p * 10 + a) [] [New nat 1; Call nat 0 3; Set_ nat 0 2; Call nat 0 3].
Proof. vm_compute. discriminate. Qed.
Print Assumptions lru_stale_refuted.

Theorem shallow_copy_refuted :
  snd (old_run nat nat (fun p a => p * 10 + a) (old_init nat nat) [New nat 1; Copy nat 0; Set_ nat 0 2; Call nat 1 3])
  <> spec_run nat nat (fun p a => p * 10 + a) [] [New nat 1; Copy nat 0; Set_ nat 0 2; Call nat 1 3].
Proof. vm_compute. discriminate. Qed.
Print Assumptions shallow_copy_refuted.
