(* C06 — degeneracy reduction (unique=True) never changes results. *)
From Coq Require Import ZArith List Bool Arith.
From OQ Require Import Lib.RingSum Model.Degeneracy Model.Shapes Proofs.DegeneracySpec Proofs.ShapesSpec.
Import ListNotations.

(* (1) class maps: for any key function with a sound equality test, the representative of an index
   (the first index of its class, what np.where(map == c)[0][0] picks) carries the same key, is
   the first such index, and two indices share a class iff they share the key — for every list of
   keys, i.e. every pattern of coincidences from none to total degeneracy *)
Theorem class_map_sound :
  forall (Key : Type) (keq : Key -> Key -> bool),
    (forall x, keq x x = true) -> (forall x y, keq x y = true -> x = y) ->
    forall keys i d, i < length keys ->
      rep_of Key keq keys i d < length keys /\ nth (rep_of Key keq keys i d) keys d = nth i keys d.
Proof. exact DegeneracySpec.class_map_sound. Qed.
Print Assumptions class_map_sound.

Theorem representative_is_first :
  forall (Key : Type) (keq : Key -> Key -> bool),
    (forall x, keq x x = true) ->
    forall keys i j d, i < length keys -> j < length keys ->
      nth j keys d = nth i keys d -> rep_of Key keq keys i d <= j.
Proof. intros Key keq H. exact (DegeneracySpec.rep_is_first Key keq H). Qed.
Print Assumptions representative_is_first.

Theorem same_class_iff_same_key :
  forall (Key : Type) (keq : Key -> Key -> bool),
    (forall x, keq x x = true) -> (forall x y, keq x y = true -> x = y) ->
    forall keys i j d, i < length keys -> j < length keys ->
      (rep_of Key keq keys i d = rep_of Key keq keys j d <-> nth i keys d = nth j keys d).
Proof. exact DegeneracySpec.same_class_iff. Qed.
Print Assumptions same_class_iff_same_key.

(* (2) the influence coefficient between two time points depends on the earlier index only through
   (commutator, anti-commutator) eigenvalue and on the later index only through the commutator
   eigenvalue: evaluating it at class representatives (north classes for rows, west classes for
   columns) gives the full matrix — for every coefficient (triangle, square, rectangle), over any
   ring *)
Theorem influence_reduced :
  forall (K : Ring) (iu er ei : K) (m p : nat -> K) i i' j j',
    m i = m i' -> p i = p i' -> m j = m j' ->
    exponent iu er ei m p i j = exponent iu er ei m p i' j'.
Proof. intros. apply exponent_classes; assumption. Qed.
Print Assumptions influence_reduced.

Example class_premises_met :
  (forall x : Z * Z, (Z.eqb (fst x) (fst x) && Z.eqb (snd x) (snd x))%bool = true).
Proof. intros [a b]. cbn. rewrite !Z.eqb_refl. reflexivity. Qed.
