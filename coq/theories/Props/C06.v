(* C06 — degeneracy reduction (unique=True) never changes results. *)
From Coq Require Import ZArith List Bool Arith.
From OQ Require Import Lib.RingSum Lib.Mat Model.Degeneracy Model.Shapes Model.PathSum Proofs.DegeneracySpec Proofs.ShapesSpec Proofs.PathSumExt.
Import ListNotations.

(* (1) class maps: for any key function with a sound equality test, the representative of an index
   (the first index of its class, what np.where(map == c)[0][0] picks) carries the same key, is
   the first such index, and two indices share a class iff they share the key — for every list of
   keys, i.e. every pattern of coincidences from none to total degeneracy *)
Theorem class_map_sound :
  forall (Key : Type) (keq : Key -> Key -> bool),
    (forall x, keq x x = true) -> (forall x y, keq x y = true -> x = y) ->
    forall keys i d, i < length keys ->
      rep_of Key keq keys i d < length keys /\ nth (rep_of Key keq keys i d) keys d = nth i keys d.
Proof. exact DegeneracySpec.class_map_sound. Qed.
Print Assumptions class_map_sound.

Theorem representative_is_first :
  forall (Key : Type) (keq : Key -> Key -> bool),
    (forall x, keq x x = true) ->
    forall keys i j d, i < length keys -> j < length keys ->
      nth j keys d = nth i keys d -> rep_of Key keq keys i d <= j.
Proof. intros Key keq H. exact (DegeneracySpec.rep_is_first Key keq H). Qed.
Print Assumptions representative_is_first.

Theorem same_class_iff_same_key :
  forall (Key : Type) (keq : Key -> Key -> bool),
    (forall x, keq x x = true) -> (forall x y, keq x y = true -> x = y) ->
    forall keys i j d, i < length keys -> j < length keys ->
      (rep_of Key keq keys i d = rep_of Key keq keys j d <-> nth i keys d = nth j keys d).
Proof. exact DegeneracySpec.same_class_iff. Qed.
Print Assumptions same_class_iff_same_key.

(* (2) the influence coefficient between two time points depends on the earlier index only through
   (commutator, anti-commutator) eigenvalue and on the later index only through the commutator
   eigenvalue: evaluating it at class representatives (north classes for rows, west classes for
   columns) gives the full matrix — for every coefficient (triangle, square, rectangle), over any
   ring *)
Theorem influence_reduced :
  forall (K : Ring) (iu er ei : K) (m p : nat -> K) i i' j j',
    m i = m i' -> p i = p i' -> m j = m j' ->
    exponent iu er ei m p i j = exponent iu er ei m p i' j'.
Proof. intros. apply exponent_classes; assumption. Qed.
Print Assumptions influence_reduced.

(* (3) composition: the whole path sum computed from influence functions evaluated at class
   representatives only (what unique=True stores and the back-end expands through the class maps)
   equals the path sum with the full influence functions — any number of time points, memory schedule,
   propagators and basis change, any key types and any pattern of degeneracy — provided the full
   influence functions see the earlier index through its north key and the later index through its
   west key (which (2) proves for the exponent the code builds) *)
Theorem unique_eq_full :
  forall (K : Ring) (KeyN KeyW : Type) (keqN : KeyN -> KeyN -> bool) (keqW : KeyW -> KeyW -> bool),
    (forall x, keqN x x = true) -> (forall x y, keqN x y = true -> x = y) ->
    (forall x, keqW x x = true) -> (forall x y, keqW x y = true -> x = y) ->
    forall (d2 : nat) (keysN : list KeyN) (keysW : list KeyW) (dN : KeyN) (dW : KeyW),
      length keysN = d2 -> length keysW = d2 ->
    forall (uin uout : list (list K)) (props : nat -> list (list K) * list (list K)) (rho0 : list K)
           (diag0 : nat -> K) (full red : nat -> nat -> option (list (list K))),
      (forall kp k m, full kp k = Some m ->
         forall jp jp' j j', jp < d2 -> jp' < d2 -> j < d2 -> j' < d2 ->
           nth jp keysN dN = nth jp' keysN dN -> nth j keysW dW = nth j' keysW dW -> entry K m jp j = entry K m jp' j') ->
      (forall j j', j < d2 -> j' < d2 -> nth j keysN dN = nth j' keysN dN -> diag0 j = diag0 j') ->
      (forall kp k,
         match full kp k, red kp k with
         | Some m, Some r => forall jp j, jp < d2 -> j < d2 ->
               entry K r jp j = entry K m (rep_of KeyN keqN keysN jp dN) (rep_of KeyW keqW keysW j dW)
         | None, None => True
         | _, _ => False
         end) ->
      forall n,
        state d2 (fun j => diag0 (rep_of KeyN keqN keysN j dN)) red uin uout props rho0 n =
        state d2 diag0 full uin uout props rho0 n.
Proof.
  intros K KeyN KeyW keqN keqW H1 H2 H3 H4 d2 keysN keysW dN dW H5 H6 uin uout props rho0 diag0 full red H7 H8 H9.
  exact (PathSumExt.unique_eq_full K KeyN KeyW keqN keqW H1 H2 H3 H4 d2 keysN keysW dN dW H5 H6 uin uout props rho0 diag0 full H7 H8 red H9).
Qed.
Print Assumptions unique_eq_full.

Example class_premises_met :
  (forall x : Z * Z, (Z.eqb (fst x) (fst x) && Z.eqb (snd x) (snd x))%bool = true).
Proof. intros [a b]. cbn. rewrite !Z.eqb_refl. reflexivity. Qed.
