(* C03 — contracting any process tensor reproduces the exact joint evolution. *)
From Coq Require Import Arith ZArith List Bool Permutation.
From OQ Require Import Lib.RingSum Lib.Tensor Model.Dyn Model.PT Model.Shapes Proofs.DynSpec Proofs.PTSpec Proofs.PTCommute Proofs.ShapesSpec.
Import ListNotations.

(* (1) For every ring, dimension, number of steps, list of process tensors, controls and
   propagators: the states compute_dynamics returns are the cap read-outs of the augmented
   (system x all bond legs) state that evolves by  pre-control, [read-out], post-control,
   first half propagator, every environment's MPO tensor in list order, second half
   propagator — the joint system-environment evolution with the bond legs as the
   environment.  record_all=False returns exactly the last of these states. *)
Theorem joint_evolution :
  forall (K : Ring) dsys (pts : list (ptensor K)) (pre post : nat -> option (T K)) (p1 p2 : nat -> T K) N rho0,
  let m := length pts in
  let dummy := Build_ptensor 0 0 None None [] [] in
  let fpre := fun k => apply_sys K dsys (pre k) in
  let fpost := fun k => apply_sys K dsys (post k) in
  let fp1 := fun k => apply_sys K dsys (Some (p1 k)) in
  let fp2 := fun k => apply_sys K dsys (Some (p2 k)) in
  let fenv := fun j k => let p := nth j pts dummy in apply_mpo K dsys j p (nth k (pt_mpos K p) None) in
  let ro := fun k => apply_caps K dsys (map (fun p => nth k (pt_caps K p) []) pts) in
  let spec := spec_state (aug K) fpre fpost fp1 fp2 fenv m (init_aug K dsys m rho0) in
  compute_dynamics dsys pts pre post p1 p2 true N rho0 = map (fun k => ro k (spec k)) (seq 0 (S N)) /\
  compute_dynamics dsys pts pre post p1 p2 false N rho0 = [ro N (spec N)].
Proof. exact compute_dynamics_spec. Qed.
Print Assumptions joint_evolution.

(* (2) what one MPO application is: the joint map  sum_{a,i} M[a,a',i,o] on (bond j, system),
   every other bond leg untouched; rank-3 tensors carry a delta; transforms are pre/post
   multiplications; caps are traced out with the cap vectors *)
Theorem mpo_is_joint_map :
  forall (K : Ring) dsys j p (M : mpo K) bd cur o bs,
  o < dsys -> Forall2 lt bs (upd j (m_db K M) bd) ->
  get (o :: bs) (snd (apply_mpo K dsys j p (Some M) (bd, cur))) =
  sumn (m_da K M) (fun a => sumn dsys (fun i =>
     rmul (mpo_fun K p M a (nth j bs 0) i o) (get (i :: upd j a bs) cur))).
Proof. exact apply_mpo_get. Qed.
Print Assumptions mpo_is_joint_map.

Theorem rank3_is_delta :
  forall (K : Ring) din dout ms caps (M : mpo K) a a' i o,
  m_rank4 K M = false ->
  mpo_fun K (Build_ptensor din dout None None ms caps) M a a' i o =
  if Nat.eqb i o then get [a; a'; i] (m_t K M) else r0.
Proof. exact mpo_fun_rank3. Qed.
Print Assumptions rank3_is_delta.

Theorem transforms_are_pre_post_multiplication :
  forall (K : Ring) din dout Tin Tout ms caps (M : mpo K) a a' i' o',
  m_rank4 K M = true ->
  mpo_fun K (Build_ptensor din dout (Some Tin) (Some Tout) ms caps) M a a' i' o' =
  sumn dout (fun o => rmul (sumn din (fun i => rmul (get [i'; i] Tin) (get [a; a'; i; o] (m_t K M)))) (get [o; o'] Tout)).
Proof. exact mpo_fun_transforms. Qed.
Print Assumptions transforms_are_pre_post_multiplication.

Theorem caps_trace_out_environments :
  forall (K : Ring) dsys caps bd cur o, o < dsys ->
  nth o (apply_caps K dsys caps (bd, cur)) r0 =
  sum_idx bd (fun bs => rmul (cap_weight K caps bs) (get (o :: bs) cur)).
Proof. exact apply_caps_nth. Qed.
Print Assumptions caps_trace_out_environments.

(* (3) order of the process-tensor list: irrelevant whenever the environments' actions on
   the augmented state commute pairwise — for every number of environments and every
   permutation.  (_partial: the property text claims it unconditionally.) *)
Theorem order_independent_partial :
  forall (V : Type) (env : nat -> nat -> V -> V) m k (js : list nat),
  Permutation (seq 0 m) js ->
  (forall i j, i < m -> j < m -> forall v, env i k (env j k v) = env j k (env i k v)) ->
  forall v, apply_envs_in_order V env js k v = apply_envs V env m k v.
Proof. exact env_order_irrelevant_if_commuting. Qed.
Print Assumptions order_independent_partial.

(* ... in particular for every list of process tensors whose MPO tensors are rank 3 without transforms
   (diagonal in the system index: what PT-TEMPO produces for coupling operators that are diagonal in
   the computational basis), whatever their bond dimensions and entries: they act on different bond
   legs and pointwise on the system leg.  Concrete tensor semantics (Model/PT.v), any permutation, any
   number of environments; [ready]: the bond legs of the augmented state have the input bond
   dimensions of the tensors about to be applied (an invariant of compute_dynamics). *)
Theorem order_independent_diagonal :
  forall (K : Ring) (dsys : nat) (pts : nat -> ptensor K) (Ms : nat -> mpo K),
    (forall j, pt_tin K (pts j) = None /\ pt_tout K (pts j) = None /\ m_rank4 K (Ms j) = false) ->
    forall js js' : list nat, Permutation js js' -> NoDup js ->
    forall v : aug K,
      (forall j, In j js -> j < length (fst v) /\ nth j (fst v) 0 = m_da K (Ms j)) ->
      fold_left (fun v j => apply_mpo K dsys j (pts j) (Some (Ms j)) v) js v =
      fold_left (fun v j => apply_mpo K dsys j (pts j) (Some (Ms j)) v) js' v.
Proof.
  intros K dsys pts Ms H js js' HP Hnd v Hr.
  apply (diagonal_envs_any_order K dsys pts Ms (fun j a a' o => get [a; a'; o] (m_t K (Ms j)))); try assumption.
  intros j a a' i o. destruct (H j) as (H1 & H2 & H3). unfold mpo_fun. rewrite H1, H2, H3.
  destruct (Nat.eqb_spec i o) as [->|_]; reflexivity.
Qed.
Print Assumptions order_independent_diagonal.

(* ... and it is false without that premise: two maps on Z that do not commute *)
Theorem order_dependent_refuted :
  exists (env : nat -> nat -> Z -> Z) (v : Z),
    apply_envs_in_order Z env [1; 0] 0 v <> apply_envs Z env 2 0 v.
Proof.
  exists (fun j _ v => if Nat.eqb j 0 then (v + 1)%Z else (2 * v)%Z), 1%Z.
  vm_compute. discriminate.
Qed.
Print Assumptions order_dependent_refuted.

(* (4) two baths with the same coupling operator: the exponent of every influence coefficient is
   additive in the bath's 2D integral, so (exp of a sum being the product of exps) the influence
   functional of the summed spectral density is the product of the two influence functionals *)
Theorem sum_of_baths_exponent :
  forall (K : Ring) (iu er1 ei1 er2 ei2 : K) (m p : nat -> K) i j,
    exponent iu (radd er1 er2) (radd ei1 ei2) m p i j =
    radd (exponent iu er1 ei1 m p i j) (exponent iu er2 ei2 m p i j).
Proof. intros. apply exponent_additive. Qed.
Print Assumptions sum_of_baths_exponent.

(* the premises of order_independent_diagonal are met by a non-trivial pair of rank-3 tensors with
   different output bond dimensions, and both orders give the same, non-trivial, augmented state *)
Example diagonal_premises_met :
  let p := @Build_ptensor ZRing 2 2 None None [] [] in
  let M0 := @Build_mpo ZRing 1 2 false (@tab ZRing [1; 2; 2] (fun idx => match idx with [_; b; o] => Z.of_nat (1 + b + 2 * o) | _ => 0%Z end)) in
  let M1 := @Build_mpo ZRing 1 3 false (@tab ZRing [1; 3; 2] (fun idx => match idx with [_; b; o] => Z.of_nat (2 + 3 * b + o * o) | _ => 0%Z end)) in
  let Ms := fun j => if Nat.eqb j 0 then M0 else M1 in
  let v := init_aug ZRing 2 2 [3; 5]%Z in
  (forall j, In j [0; 1] -> j < length (fst v) /\ nth j (fst v) 0 = m_da ZRing (Ms j)) /\
  flat (snd (fold_left (fun v j => apply_mpo ZRing 2 j p (Some (Ms j)) v) [0; 1] v)) =
  flat (snd (fold_left (fun v j => apply_mpo ZRing 2 j p (Some (Ms j)) v) [1; 0] v)) /\
  flat (snd (fold_left (fun v j => apply_mpo ZRing 2 j p (Some (Ms j)) v) [0; 1] v)) = [6; 15; 24; 12; 30; 48; 45; 90; 135; 60; 120; 180]%Z.
Proof.
  split; [intros j [<-|[<-|[]]]; split; solve [reflexivity | repeat constructor]|]. split; vm_compute; reflexivity.
Qed.
