(* C01 — TEMPO and PT-TEMPO reproduce exactly solvable open-system models. *)
From Coq Require Import ZArith List Bool Arith.
From OQ Require Import Lib.RingSum Lib.Mat Model.Schedule Model.Shapes Model.PathSum
  Proofs.ScheduleSpec Proofs.ShapesSpec Proofs.PathSumSpec.
Import ListNotations.

(* (1) the memory settings have exactly their documented meaning, for every number of steps:
   triangle on the same step, the square at distance dk while dk < dkmax (every dk for full
   memory), nothing beyond dkmax, and at dk = dkmax the square or — with an additional
   correlation time — the rectangle requested for source kp as key -(kp+1) *)
Theorem cells_spec :
  forall (N m : nat) (rect : bool) (kp k : nat), (1 <= m)%nat -> (kp <= k)%nat -> (k < N)%nat ->
    norm_key m (tempo_key (Some m) rect kp k) = norm_key m (cell_spec (Some m) rect kp k) /\
    pt_key N m rect kp k = cell_spec (Some m) rect kp k /\
    tempo_key None rect kp k = cell_spec None rect kp k.
Proof.
  intros. split; [apply tempo_key_spec; assumption|]. split; [apply pt_key_spec; assumption|].
  apply tempo_key_spec_full. assumption.
Qed.
Print Assumptions cells_spec.

(* a memory at least as long as the computation is full memory *)
Theorem long_memory_is_full :
  forall (m : nat) (rect : bool) (kp k : nat), (kp <= k)%nat -> (k < m)%nat ->
    cell_spec (Some m) rect kp k = cell_spec None rect kp k.
Proof. exact ScheduleSpec.long_memory_is_full. Qed.
Print Assumptions long_memory_is_full.

(* (2) tiling, over any ring, for any twice-integrated correlation function G on the time grid:
   the cells of the first n steps sum to G(n) - G(0), at full memory and with a cut-off plus
   unbounded additional correlation time (the rectangles are exactly the omitted squares) *)
Theorem tiling :
  forall (K : Ring) (G : nat -> K) (n : nat),
    sumn n (row_full K G) = rsub (G n) (G 0%nat) /\
    (forall m, (1 <= m)%nat -> sumn n (row_cut K G m) = rsub (G n) (G 0%nat)).
Proof. intros. split; [apply tiling_full|intros; apply tiling_cutoff; assumption]. Qed.
Print Assumptions tiling.

Theorem rectangle_covers_omitted_squares :
  forall (K : Ring) (G : nat -> K) (m w : nat), (1 <= m)%nat ->
    rect_cell G m (m + w) = sumn w (fun i => sq_cell G (m + i)).
Proof. exact rectangle_is_sum_of_squares. Qed.
Print Assumptions rectangle_covers_omitted_squares.

(* (3) the independent-boson collapse, over any commutative ring, for every number of steps,
   dimension, memory setting (any coefficient function), initial state and basis change:
   if the propagator between consecutive time points is diagonal in the coupling eigenbasis
   (the system Hamiltonian commutes with the coupling operator), the path sum reduces to one
   path per basis index j, whose amplitude is the running product of the diagonal propagator
   entries and of the influence coefficients evaluated at (j, j) — populations and coherences
   evolve independently, each multiplied by its phase and decoherence factor. *)
Theorem commuting_closed_form :
  forall (K : Ring) (d2 : nat) (diag0 : nat -> K) (coef : nat -> nat -> option (list (list K)))
         (uin uout : list (list K)) (props : nat -> list (list K) * list (list K)) (rho0 : list K),
    (forall k jp j, (1 <= k)%nat -> j <> jp -> trans K uin uout props k jp j = r0) ->
    forall n s,
      state_entry d2 diag0 coef uin uout props rho0 (S n) s =
      sumn d2 (fun j => rmul (amp diag0 coef uin uout props rho0 (repeat j (S n)))
                             (nth s (cur uout props rho0 (S n) (repeat j (S n))) r0)) /\
      (forall j, amp diag0 coef uin uout props rho0 (repeat j (S n)) =
                 rmul (rmul (rmul (amp diag0 coef uin uout props rho0 (repeat j n))
                   (nth j (mvec uin (mvec (fst (props n)) (cur uout props rho0 n (repeat j n)))) r0))
                   (diag0 j)) (cells coef n j 0 (repeat j n))).
Proof.
  intros K d2 diag0 coef uin uout props rho0 Hc n s. split.
  - apply commuting_single_path. exact Hc.
  - intros j. apply constant_path_amplitude.
Qed.
Print Assumptions commuting_closed_form.

(* (4) the decoherence exponent of a cell: zero whenever the later index is a population
   (commutator eigenvalue 0): populations are constant *)
Theorem populations_constant :
  forall (K : Ring) (iu er ei : K) (m p : nat -> K) i j, m j = r0 -> exponent iu er ei m p i j = r0.
Proof. intros. apply exponent_trace. assumption. Qed.
Print Assumptions populations_constant.
