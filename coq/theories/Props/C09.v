(* C09 — mean-field evolution agrees across methods and integrates the field correctly. *)
From Coq Require Import List Arith QArith.
From OQ Require Import Model.MeanField Proofs.MeanFieldSpec.
Import ListNotations.

(* The system states are an oracle indexed by the step (they come from the tensor networks, tied by
   C02); the number type is arbitrary (binary64 in the correspondence, rationals below). *)

(* (1) MeanFieldTempo and compute_dynamics_with_field evaluate the field equation of motion at the
   same (time, states, field) triples in the same order and return the same field sequence — for
   every number of steps, start time, time step, initial field and equation of motion *)
Theorem methods_agree :
  forall (T : Type) (add mul : T -> T -> T) (half : T -> T) (of_nat : nat -> T)
         (f : T -> nat -> T -> T) (start dt : T) (N : nat) (a0 : T),
    mft T add mul half of_nat f start dt N 0 a0 = cdwf T add mul half of_nat f start dt N a0.
Proof. exact MeanFieldSpec.methods_agree. Qed.
Print Assumptions methods_agree.

(* (2) Heun: stage 1 at (t_k, states_k, a_k), stage 2 at (t_k + dt, states_{k+1}, a_k + dt*k1),
   update a_k + dt*(k1 + k2)/2 *)
Theorem heun_args :
  forall (T : Type) (add mul : T -> T -> T) (half : T -> T) (f : T -> nat -> T -> T) (dt t : T) k a,
    let k1 := f t k a in
    let k2 := f (add t dt) (S k) (add a (mul k1 dt)) in
    heun T add mul half f dt t k a =
    (add a (half (mul dt (add k1 k2))), [(t, k, a); (add t dt, S k, add a (mul k1 dt))]).
Proof. intros. reflexivity. Qed.
Print Assumptions heun_args.

(* (3) exact for equations of motion linear in time, over the rationals, for every start time
   (also non-zero), time step and number of steps:  a_n = a_0 + F(t_0 + n dt) - F(t_0),
   F the antiderivative of alpha + beta t *)
Theorem heun_exact_linear :
  forall (alpha beta start dt : Q) (n k : nat) (a d : Q),
    nth n (fst (mft Q Qplus Qmult qhalf qnat (flin alpha beta) start dt n k a)) d ==
    a + (F alpha beta (start + qnat (k + n) * dt) - F alpha beta (start + qnat k * dt)).
Proof. exact MeanFieldSpec.heun_exact_linear. Qed.
Print Assumptions heun_exact_linear.

(* (4) evaluating the stages one step late (compute_dynamics_with_field before the repair) is not
   exact: f = 2t, t0 = 1, dt = 1/10 gives 23/100 instead of 21/100 after one step *)
Theorem late_stages_refuted :
  let f := flin 0 2 in
  let k1 := f (11 # 10) 0%nat 0 in
  let k2 := f (12 # 10) 1%nat 0 in
  ~ (0 + (1 # 10) * (k1 + k2) / 2 == F 0 2 (11 # 10) - F 0 2 1).
Proof. vm_compute. intros H. discriminate H. Qed.
Print Assumptions late_stages_refuted.
