(* C14 — splitting or repeating compute calls never changes the result. *)
From Coq Require Import Arith List Bool Lia.
From OQ Require Import Model.History Proofs.HistorySpec.
Import ListNotations.

(* Every theorem is for an ARBITRARY deterministic back-end (Net, net_init, net_step): the
   tensor numerics are opaque; what is proved is the bookkeeping of the drivers. *)

(* (1) any sequence of compute calls = a single call to the furthest target
   (Tempo, MeanFieldTempo, PtTebd); order, repetition and decreasing targets included *)
Theorem split_eq_single :
  forall (Net : Type) (net_init : Net) (net_step : Net -> nat -> Net) (ts : list nat) t0 s,
    fold_left (fun s t => compute Net net_init net_step t s) ts (compute Net net_init net_step t0 s)
    = compute Net net_init net_step (fold_left Nat.max ts t0) s.
Proof. exact HistorySpec.split_eq_single. Qed.
Print Assumptions split_eq_single.

Theorem reached_target_noop :
  forall (Net : Type) (net_init : Net) (net_step : Net -> nat -> Net) t1 t2 s, t2 <= t1 ->
    compute Net net_init net_step t2 (compute Net net_init net_step t1 s) = compute Net net_init net_step t1 s.
Proof. exact HistorySpec.compute_reached. Qed.
Print Assumptions reached_target_noop.

Theorem labels_complete :
  forall (Net : Type) (net_init : Net) (net_step : Net -> nat -> Net) t,
    map fst (dyn Net (compute Net net_init net_step t (fresh Net net_init))) = seq 0 (S t).
Proof. exact HistorySpec.labels_complete. Qed.
Print Assumptions labels_complete.

(* (2) fixed-end methods (PtTempo: first=1, last=num_steps; GibbsTempo: first=1, last=n_steps-1) *)
Theorem fixed_end_idempotent :
  forall (Net : Type) (net_init : Net) (net_step : Net -> nat -> Net) first last (s : fst_ Net),
    first <= last ->
    f_compute Net net_init net_step first last (f_compute Net net_init net_step first last s) =
    f_compute Net net_init net_step first last s.
Proof. exact HistorySpec.fixed_end_idempotent. Qed.
Print Assumptions fixed_end_idempotent.

(* (3) a chain computation restarted from its exported state and step number continues with the
   same step numbers (hence the same process-tensor indices, control steps and time stamps)
   and the same network *)
Theorem restart_eq_continue :
  forall (Net : Type) (net_init : Net) (net_step : Net -> nat -> Net) t (s : st Net),
    started Net s ->
    let r := restart_from Net s in
    cur Net (compute Net net_init net_step t r) = cur Net (compute Net net_init net_step t s) /\
    net Net (compute Net net_init net_step t r) = net Net (compute Net net_init net_step t s) /\
    map fst (dyn Net (compute Net net_init net_step t r)) = seq (cur Net s) (S (t - cur Net s)).
Proof. exact HistorySpec.restart_eq_continue. Qed.
Print Assumptions restart_eq_continue.

(* (4) a user callable raises during a compute call (any step, any failure pattern): the object is
   left in the state of a successful computation to an earlier step, and repeating the call
   gives exactly the failure-free result *)
Theorem failure_atomic :
  forall (Net : Type) (net_init : Net) (net_step : Net -> nat -> Net) (fails : nat -> bool) t s,
  exists m, (m <= t \/ m = cur Net (initialize Net net_init s)) /\
    fst (compute_f Net net_init net_step true fails t s) = compute Net net_init net_step m s /\
    compute Net net_init net_step t (fst (compute_f Net net_init net_step true fails t s))
    = compute Net net_init net_step t s.
Proof. exact HistorySpec.failure_atomic. Qed.
Print Assumptions failure_atomic.

(* ---- refutations of the behaviours that were (or still are) in the code ----------------- *)
(* a back-end that records which steps it has been asked to take *)
Definition log_step (l : list nat) (k : nat) : list nat := l ++ [k].

(* counter moved before the callables were evaluated (TempoBackend before the repair) *)
Theorem counter_first_refuted :
  let s1 := fst (compute_f (list nat) [] log_step false (fun k => Nat.eqb k 2) 3 (fresh _ [])) in
  compute (list nat) [] log_step 3 s1 <> compute (list nat) [] log_step 3 (fresh _ []).
Proof. vm_compute. discriminate. Qed.
Print Assumptions counter_first_refuted.

(* user callable evaluated after the networks advanced (MeanFieldTempoBackend before the repair) *)
Theorem late_evaluation_refuted :
  let s0 := compute (list nat) [] log_step 1 (fresh _ []) in
  let s1 := fst (do_step_late (list nat) log_step (fun k => Nat.eqb k 2) s0) in
  net _ (compute (list nat) [] log_step 2 s1) <> net _ (compute (list nat) [] log_step 2 s0).
Proof. vm_compute. discriminate. Qed.
Print Assumptions late_evaluation_refuted.

(* (4b) the mean-field back-end advances the networks of its species one after the other and evaluates user functions in
   between (the bath correlations of species j after j species have been advanced, the field equation after all of them).
   As repaired it puts the networks of the start of the step back before the exception leaves: for ANY number of species,
   any step and any position j of the failure nothing has changed, and the repeated step is the failure-free step *)
Theorem mean_field_failure_atomic :
  forall (Sp : Type) (sp_step : Sp -> nat -> Sp) (k : nat) (l : list Sp) (j : nat),
    fst (mf_step Sp sp_step true (Some j) k l) = l /\
    mf_step Sp sp_step true None k (fst (mf_step Sp sp_step true (Some j) k l)) = (adv_all Sp sp_step k l, true).
Proof. exact HistorySpec.mf_failure_atomic. Qed.
Print Assumptions mean_field_failure_atomic.

(* without the roll-back (the code before the repair) the repeated step advances the first j species twice *)
Theorem mean_field_no_rollback :
  forall (Sp : Type) (sp_step : Sp -> nat -> Sp) (k : nat) (l : list Sp) (j : nat),
    fst (mf_step Sp sp_step false None k (fst (mf_step Sp sp_step false (Some j) k l))) =
    adv_all Sp sp_step k (adv_upto Sp sp_step j k l).
Proof. exact HistorySpec.mf_failure_no_rollback. Qed.
Print Assumptions mean_field_no_rollback.

Theorem mean_field_no_rollback_refuted :
  fst (mf_step (list nat) log_step false None 2 (fst (mf_step (list nat) log_step false (Some 1) 2 [[1]; [1]])))
  <> adv_all (list nat) log_step 2 [[1]; [1]].
Proof. vm_compute. discriminate. Qed.
Print Assumptions mean_field_no_rollback_refuted.

(* every call takes last-first further steps (PtTempo / GibbsTempo before the repair) *)
Theorem repeat_advances_refuted :
  f_compute_old (list nat) [] log_step 1 3 (f_compute_old (list nat) [] log_step 1 3 (f_fresh _ []))
  <> f_compute_old (list nat) [] log_step 1 3 (f_fresh _ []).
Proof. vm_compute. discriminate. Qed.
Print Assumptions repeat_advances_refuted.

(* (9) the initial record belongs to initialize(), not to compute(): a driver that records the initial state in every
   compute() call that starts at the first step (a seeded change made to PtTebd) agrees with the code for every
   single call -- which is all the existing tests make -- and records the initial state twice as soon as a call that
   takes no step is followed by another one: split_eq_single fails for it *)
Theorem lazy_initial_record_single_call :
  forall (Net : Type) (net_init : Net) (net_step : Net -> nat -> Net) t,
    compute_lazy Net net_init net_step t (fresh Net net_init) = compute Net net_init net_step t (fresh Net net_init).
Proof. intros. reflexivity. Qed.
Print Assumptions lazy_initial_record_single_call.

Theorem lazy_initial_record_refuted :
  exists (Net : Type) (net_init : Net) (net_step : Net -> nat -> Net),
    map fst (dyn Net (compute_lazy Net net_init net_step 2 (compute_lazy Net net_init net_step 0 (fresh Net net_init))))
    <> map fst (dyn Net (compute Net net_init net_step 2 (fresh Net net_init))).
Proof. exists unit, tt, (fun _ _ => tt). vm_compute. discriminate. Qed.
Print Assumptions lazy_initial_record_refuted.
