(* C13 — computations cover exactly the requested time grid and label states correctly. *)
From Coq Require Import ZArith List Bool Lia Permutation PrimFloat Uint63.
From OQ Require Import Lib.PyFloat Model.TimeGrid Proofs.TimeGridSpec.
Import ListNotations.
Local Open Scope Z_scope.

(* (1) labels: n+1 labels start + k*dt in order; record_all=False gives the label of step n *)
Theorem grid_labels :
  forall start dt n,
    length (times_all start dt n) = S n /\
    (forall k d, (k <= n)%nat -> nth k (times_all start dt n) d = time_label start dt (Z.of_nat k)) /\
    times_final start dt n = [time_label start dt (Z.of_nat n)].
Proof.
  intros. split; [apply times_all_length|]. split; [intros; apply times_all_nth; assumption|reflexivity].
Qed.
Print Assumptions grid_labels.

(* (2) Dynamics.add: after ANY sequence of additions (any order, repeated times) the time
   list is sorted, times and states have equal length, and the (time, state) pairs are exactly
   the pairs that were added — every state stays attached to its time. *)
Theorem dynamics_sorted :
  forall (T St : Type) (leb : T -> T -> bool),
    (forall a b, leb a b = true \/ leb b a = true) ->
    (forall a b c, leb a b = true -> leb b c = true -> leb a c = true) ->
    forall adds : list (T * St),
      let d := dyn_of T St leb adds in
      length (fst d) = length (snd d) /\ sorted T leb (fst d) /\ Permutation (combine (fst d) (snd d)) adds.
Proof. exact dynamics_sorted_aligned. Qed.
Print Assumptions dynamics_sorted.

(* (2b) MeanFieldDynamics.add: the object keeps its own time and field lists and one Dynamics object per system, each
   of which looks up its own insertion index.  After ANY sequence of additions (any order, repeated times; every
   addition carries n states, which the code asserts) the time list is sorted, the (time, field) pairs are exactly the
   added ones, there are n system records, and every system record has the SAME time list as the object and holds
   exactly the added (time, state of that system) pairs: the k-th time, the k-th field and the k-th state of every
   system were handed over together.  (mfd_refines, used in the proof, says more: the object is n+1 Dynamics
   objects fed with the projections of the same history.) *)
Theorem mean_field_record_aligned :
  forall (T F St : Type) (leb : T -> T -> bool),
    (forall a b, leb a b = true \/ leb b a = true) ->
    (forall a b c, leb a b = true -> leb b c = true -> leb a c = true) ->
    forall (n : nat) (adds : list (T * F * list St)),
      Forall (fun a => length (snd a) = n) adds -> adds <> [] ->
      let m := mfd_of T F St leb adds in
      let times := fst (fst m) in
      sorted T leb times /\
      Permutation (combine times (snd (fst m))) (map fst adds) /\
      length (snd m) = n /\
      forall i d, (i < n)%nat ->
        fst (nth i (snd m) ([], [])) = times /\
        Permutation (combine times (snd (nth i (snd m) ([], [])))) (map (tsi T F St i d) adds).
Proof. exact mfd_aligned. Qed.
Print Assumptions mean_field_record_aligned.
(* the premises are met and the conclusion says something: two systems, additions out of order with a repeated time *)
Example mean_field_record_example :
  mfd_of Z Z Z Z.leb [((3, 10), [100; 200]); ((1, 11), [101; 201]); ((3, 12), [102; 202]); ((2, 13), [103; 203])]%Z
  = (([1; 2; 3; 3], [11; 13; 10; 12]), [([1; 2; 3; 3], [101; 103; 100; 102]); ([1; 2; 3; 3], [201; 203; 200; 202])])%Z.
Proof. vm_compute. reflexivity. Qed.

(* (3) the step count on the decimal lattice, in binary64 (primitive floats and 63-bit
   integers, evaluated by vm_compute; no Z arithmetic inside the loops).
   dt = a/100 (a = 1..100), start = +-s/10, m = 0..1000 steps.  Both numbers are the
   doubles nearest to the decimal literal: IEEE division of two exactly representable
   integers is the correctly rounded quotient.  end_time is (i) the decimal literal of
   start + m*dt, (ii) the float expression start + m*dt, (iii) off grid by t/10 of a
   step, t = 1..9.  In every case the float handed to int() is exactly float(m). *)
Local Open Scope float_scope.
Definition inat (k : nat) : int := Nat.iter k (fun i => (i + 1)%uint63) 0%uint63.

Fixpoint loop (fuel : nat) (i : int) (ok : int -> bool) : bool :=
  match fuel with O => true | S f => ok i && loop f (i + 1)%uint63 ok end.

Lemma iter_shift {A} (f : A -> A) k x : Nat.iter (S k) f x = Nat.iter k f (f x).
Proof. induction k as [|k IH]; [reflexivity|]. change (Nat.iter (S (S k)) f x) with (f (Nat.iter (S k) f x)). rewrite IH. reflexivity. Qed.

Lemma loop_sound fuel : forall i ok, loop fuel i ok = true ->
  forall k, (k < fuel)%nat -> ok (Nat.iter k (fun i => (i + 1)%uint63) i) = true.
Proof.
  induction fuel as [|f IH]; intros i ok H k Hk; [lia|]. cbn [loop] in H.
  apply andb_true_iff in H. destruct H as [H0 H1]. destruct k as [|k]; [exact H0|].
  rewrite iter_shift. apply IH; [exact H1|lia].
Qed.

(* signed rational p/q as a double: sign, |p|, q *)
Definition sdiv (neg : bool) (n : int) (den : float) : float :=
  let x := of_uint63 n / den in if neg then - x else x.
(* (c*sabs*sign + x) / den  for x >= 0 *)
Definition smix (sneg : bool) (sabs c x : int) (den : float) : float :=
  let sp := (c * sabs)%uint63 in
  if sneg then (if (sp <=? x)%uint63 then of_uint63 (x - sp)%uint63 / den else - (of_uint63 (sp - x)%uint63 / den))
  else of_uint63 (sp + x)%uint63 / den.

Definition on_grid_ok (sneg : bool) (sabs a m : int) : bool :=
  let dt := of_uint63 a / 100 in
  let start := sdiv sneg sabs 10 in
  let end_lit := smix sneg sabs 10 (a * m)%uint63 100 in
  let end_cmp := start + of_uint63 m * dt in
  PrimFloat.eqb (end_step_f start end_lit dt) (of_uint63 m) &&
  PrimFloat.eqb (end_step_f start end_cmp dt) (of_uint63 m).

Definition off_grid_ok (sneg : bool) (sabs a m t : int) : bool :=
  let dt := of_uint63 a / 100 in
  let start := sdiv sneg sabs 10 in
  let end_lit := smix sneg sabs 100 (10 * a * m + a * t)%uint63 1000 in
  PrimFloat.eqb (end_step_f start end_lit dt) (of_uint63 m).

Definition starts : list (bool * int) :=
  [(false, 0); (false, 3); (true, 3); (false, 10); (false, 25); (true, 71); (false, 1003)]%uint63.

Definition point_ok (s : bool * int) (a m : int) : bool :=
  on_grid_ok (fst s) (snd s) a m && loop 9 1%uint63 (fun t => off_grid_ok (fst s) (snd s) a m t).

Definition sweep3 (P : bool * int -> int -> int -> bool) : bool :=
  forallb (fun s => loop 100 1%uint63 (fun a => loop 1001 0%uint63 (fun m => P s a m))) starts.

(* generic lifting of the sweep, for an abstract predicate (no computation involved) *)
Lemma sweep3_sound (P : bool * int -> int -> int -> bool) : sweep3 P = true ->
  forall s a m, In s starts -> (a < 100)%nat -> (m < 1001)%nat ->
    P s (Nat.iter a (fun i => (i + 1)%uint63) 1%uint63) (inat m) = true.
Proof.
  intros H s a m Hs Ha Hm. unfold sweep3 in H.
  rewrite forallb_forall in H. specialize (H s Hs).
  pose proof (loop_sound _ _ _ H a Ha) as H1. cbv beta in H1.
  exact (loop_sound _ _ _ H1 m Hm).
Qed.

Lemma lattice_all_true : sweep3 point_ok = true.
Proof. vm_cast_no_check (@eq_refl bool true). Qed.

Theorem num_steps_lattice :
  forall s a m, In s starts -> (a < 100)%nat -> (m < 1001)%nat ->
    point_ok s (Nat.iter a (fun i => (i + 1)%uint63) 1%uint63) (inat m) = true.
Proof. exact (sweep3_sound point_ok lattice_all_true). Qed.
Print Assumptions num_steps_lattice.

(* reading [point_ok]: both on-grid end times and all nine off-grid ones give float(m) *)
Theorem point_ok_meaning :
  forall s a m, point_ok s a m = true ->
    on_grid_ok (fst s) (snd s) a m = true /\
    (forall t, (t < 9)%nat -> off_grid_ok (fst s) (snd s) a m (Nat.iter t (fun i => (i + 1)%uint63) 1%uint63) = true).
Proof.
  intros s a m H. unfold point_ok in H. apply andb_true_iff in H. destruct H as [H1 H2].
  split; [exact H1|]. intros t Ht. exact (loop_sound _ _ _ H2 t Ht).
Qed.
Print Assumptions point_ok_meaning.

(* (4) tcut <-> dkmax on the same lattice: int(ceil(round((k*dt)/dt))) = k *)
Definition tcut_ok (a k : int) : bool :=
  let dt := of_uint63 a / 100 in
  PrimFloat.eqb (dkmax_of_tcut_f (of_uint63 k * dt) dt) (of_uint63 k).
Definition sweep2 (P : int -> int -> bool) : bool :=
  loop 100 1%uint63 (fun a => loop 1001 0%uint63 (fun k => P a k)).
Lemma sweep2_sound (P : int -> int -> bool) : sweep2 P = true ->
  forall a k, (a < 100)%nat -> (k < 1001)%nat ->
    P (Nat.iter a (fun i => (i + 1)%uint63) 1%uint63) (inat k) = true.
Proof.
  intros H a k Ha Hk. unfold sweep2 in H.
  pose proof (loop_sound _ _ _ H a Ha) as H1. cbv beta in H1.
  exact (loop_sound _ _ _ H1 k Hk).
Qed.
Lemma tcut_all_true : sweep2 tcut_ok = true.
Proof. vm_cast_no_check (@eq_refl bool true). Qed.
Theorem tcut_dkmax_lattice :
  forall a k, (a < 100)%nat -> (k < 1001)%nat ->
    tcut_ok (Nat.iter a (fun i => (i + 1)%uint63) 1%uint63) (inat k) = true.
Proof. exact (sweep2_sound tcut_ok tcut_all_true). Qed.
Print Assumptions tcut_dkmax_lattice.
Local Close Scope float_scope.

(* the truncating formula the code used before the repair drops a step *)
Theorem truncation_refuted :
  end_step_trunc 0%float 0x1.3333333333333p-2%float 0x1.999999999999ap-4%float = 2 /\
  end_step 0%float 0x1.3333333333333p-2%float 0x1.999999999999ap-4%float = 3.
Proof. vm_compute. split; reflexivity. Qed.
Print Assumptions truncation_refuted.

(* (6) a driver object started over: whatever the object did before (any sequence of initialisations and steps),
   after initialize() and n steps its recorder holds exactly the labels of the steps 0..n of the new run, in order:
   the second run's grid is a fresh one *)
Theorem restart_records_fresh_grid :
  forall (pre : list rop) (n : nat), rec_labels false (pre ++ RInit :: repeat RStep n) = seq 0 (S n).
Proof. exact restart_fresh_grid_lemma. Qed.
Print Assumptions restart_records_fresh_grid.

(* ... and a recorder that is kept across initialize() holds the labels of both runs *)
Theorem kept_recorder_refuted :
  exists pre n, rec_labels true (pre ++ RInit :: repeat RStep n) <> seq 0 (S n).
Proof. exists [RInit; RStep], 1%nat. vm_compute. discriminate. Qed.
Print Assumptions kept_recorder_refuted.

Example restart_premise_met : rec_labels false ([RInit; RStep; RStep; RStep] ++ RInit :: repeat RStep 2) = [0; 1; 2]%nat.
Proof. reflexivity. Qed.
