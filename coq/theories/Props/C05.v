(* C05 — results are basis-covariant and every Hermitian coupling operator is accepted. *)
From Coq Require Import Arith ZArith List Bool.
From OQ Require Import Lib.RingSum Model.SuperOps Proofs.SuperOpsSpec Proofs.CovarianceSpec.
Import ListNotations.

(* Liouville-space matrices are functions on indices < d (d = square of the Hilbert dimension),
   over any commutative ring.  W is the superoperator rho -> V rho V^dagger of the basis change,
   Winv its inverse.  The rotated problem has the diagonalising transform U' = V U, i.e.
   Uin' = Uin Winv and Uout' = W Uout, every half-step propagator P' = W P Winv and rho0' = W rho0. *)

(* (1) everything the TEMPO / PT-TEMPO path sum sees of the system — the first half step applied to
   the initial state, and the propagation between consecutive time points, both expressed in the
   coupling eigenbasis — is unchanged by the rotation; the read-out is rotated by W.  Hence the
   rotated problem returns W applied to the original states, at every step, for every memory
   setting (the influence coefficients depend on eigenvalues only). *)
Theorem covariance :
  forall (K : Ring) (d : nat) (W Winv Uin Uout : M2 K), is_id K d (mm d Winv W) ->
    (forall (P1 : M2 K) (rho0 : nat -> K) i,
        mv K d (mm d (mm d Uin Winv) (rot K d W Winv P1)) (mv K d W rho0) i = mv K d (mm d Uin P1) rho0 i) /\
    (forall (P1 P2 : M2 K) (v : nat -> K) i,
        mv K d (mm d (mm d (mm d (mm d Uin Winv) (rot K d W Winv P1)) (rot K d W Winv P2)) (mm d W Uout)) v i =
        mv K d (mm d (mm d (mm d Uin P1) P2) Uout) v i) /\
    (forall (P2 : M2 K) (v : nat -> K) i,
        mv K d (mm d (rot K d W Winv P2) (mm d W Uout)) v i = mv K d W (mv K d (mm d P2 Uout) v) i).
Proof.
  intros K d W Winv Uin Uout H. split; [|split].
  - intros. apply first_point_invariant. exact H.
  - intros. apply transition_invariant. exact H.
  - intros. apply readout_covariant. exact H.
Qed.
Print Assumptions covariance.

(* (2) for a unitary U the two superoperators the back-ends build, left_right_super(U, U^dagger) and
   left_right_super(U^dagger, U), are inverse to each other: the premise of (1) holds *)
Theorem super_u_inverse :
  forall (K : Ring) (conj : K -> K),
    (forall a b, conj (rmul a b) = rmul (conj a) (conj b)) ->
    (forall a b, conj (@delta K a b) = delta a b) ->
    (forall a, conj (conj a) = a) ->
    (forall n f, conj (sumn n f) = sumn n (fun i => conj (f i))) ->
    forall d (U : M2 K),
      (forall i m, i < d -> m < d -> sumn d (fun k => rmul (U i k) (conj (U m k))) = delta i m) ->
      forall i j m n, i < d -> j < d -> m < d -> n < d ->
        sumn d (fun k => sumn d (fun l =>
          rmul (lrs_f U (dag conj U) i j k l) (lrs_f (dag conj U) U k l m n))) = rmul (delta i m) (delta j n).
Proof. intros K conj H1 H2 H3 H4. exact (CovarianceSpec.super_u_inverse K conj H1 H2 H3 H4). Qed.
Print Assumptions super_u_inverse.

(* (3) without unitarity the premise fails: a 'diagonalising transform' that reconstructs the
   operator but is not unitary (what np.linalg.eig returned inside a degenerate eigenspace before
   the repair) breaks U U^dagger = 1 *)
Theorem contract_needed_refuted :
  let U : nat -> nat -> Z := fun i k => if (Nat.eqb i 1 && Nat.eqb k 0)%bool then 0%Z else 1%Z in
  sumn (K := ZRing) 2 (fun k => (U 0%nat k * U 1%nat k)%Z) <> 0%Z.
Proof. vm_compute. discriminate. Qed.
Print Assumptions contract_needed_refuted.
