(* C18 — control operations act at the stated time, side of measurement and order.
   Statements only; proofs are in Proofs/DynSpec.v and Proofs/ControlSpec.v. *)
From Coq Require Import ZArith List Bool PrimFloat.
From OQ Require Import Lib.RingSum Lib.Mat Lib.PyFloat Model.Dyn Model.Control Model.Glue Proofs.DynSpec Proofs.ControlSpec.
Import ListNotations.

(* (1) In compute_dynamics, for EVERY number of steps, every family of controls,
   propagators and environments (arbitrary maps on an arbitrary augmented state
   space): the state recorded at step k is read out from [spec_state k], where the
   pre-measurement control of step k is the last map applied before the read-out
   and the post-measurement control of step k the first one applied after it,
   each exactly once. *)
Theorem acts_once_at_step :
  forall (V St : Type) (pre post p1 p2 : nat -> V -> V) (env : nat -> nat -> V -> V) (m : nat)
         (readout : nat -> V -> St) (N : nat) (v0 : V) (d : St),
    let spec := spec_state V pre post p1 p2 env m v0 in
    spec 0 = pre 0 v0 /\
    (forall k, spec (S k) = pre (S k) (p2 k (apply_envs V env m k (p1 k (post k (spec k)))))) /\
    (forall k, k <= N -> nth k (run V St pre post p1 p2 env m readout true N v0) d = readout k (spec k)) /\
    length (run V St pre post p1 p2 env m readout true N v0) = S N /\
    run V St pre post p1 p2 env m readout false N v0 = [readout N (spec N)].
Proof.
  intros. repeat split.
  - intros k Hk. apply run_nth. exact Hk.
  - apply run_length.
  - apply run_final_spec.
Qed.
Print Assumptions acts_once_at_step.

(* (2) stacking on a step key: a control added for (step, side) is appended to the acting
   sequence of exactly that (step, side) and changes no other sequence *)
Theorem stack_order_step :
  forall (A : Type) (hist : list (add A)) (a : add A) (post : bool) (step : Z),
    step_seq A (hist ++ [a]) post step =
    step_seq A hist post step ++ (if side A post a && on_step A step a then [a] else []).
Proof. exact step_seq_snoc. Qed.
Print Assumptions stack_order_step.

(* (2') the dictionary the code actually keeps (first control stored as it is, later ones composed as
   new @ stored, the product multiplied onto the identity when read) refines the history model:
   for EVERY history of add_single calls and every (step, side) it yields the product of exactly
   the controls added for that step and side, in insertion order *)
Theorem dict_refines_history :
  forall (A : Type) (mul : A -> A -> A) (one : A), (forall x, mul x one = x) ->
    forall (hist : list (add A)) (post : bool) (step : Z),
      dict_step_control A mul one hist post step = eval_opt A mul one (map (a_op A) (step_seq A hist post step)).
Proof. exact ControlSpec.dict_refines_history. Qed.
Print Assumptions dict_refines_history.

(* (3) time-keyed controls: sorting by time is stable, so controls given with the same
   float time keep their insertion order, for every history *)
Theorem stack_order_time :
  forall (A : Type) (t : float) (l : list (add A)),
    (forall x y, same_time A t x = true -> lt_time A y x = true -> same_time A t y = false) ->
    filter (same_time A t) (isort (add A) (lt_time A) l) = filter (same_time A t) l.
Proof. exact time_sorted_stable. Qed.
Print Assumptions stack_order_time.

Theorem single_time_is_insertion_order :
  forall (A : Type) (hist : list (add A)) post dt start step,
    (forall a b, In a hist -> In b hist -> lt_time A a b = false) ->
    time_seq A hist post dt start step =
    filter (fun a => side A post a && is_float A a && lands_on A dt start step a) hist.
Proof. exact time_seq_single_time. Qed.
Print Assumptions single_time_is_insertion_order.

(* (4) the matrix returned for a step acts as its controls one after the other in the
   acting-sequence order; a control appended to the sequence is the outermost factor *)
Theorem product_acts_in_order :
  forall (A : Type) (mul : A -> A -> A) (one : A) (V : Type) (act : A -> V -> V),
    (forall c b v, act (mul c b) v = act c (act b v)) -> (forall v, act one v = v) ->
    forall l v, act (eval_seq A mul one l) v = fold_left (fun v c => act c v) l v.
Proof. exact eval_seq_acts_in_order. Qed.
Print Assumptions product_acts_in_order.

Theorem product_snoc :
  forall (A : Type) (mul : A -> A -> A) (one : A) l c,
    eval_seq A mul one (l ++ [c]) = mul c (eval_seq A mul one l).
Proof. exact eval_seq_snoc. Qed.
Print Assumptions product_snoc.

Theorem identity_noop :
  forall (A : Type) (mul : A -> A -> A) (one : A) (V : Type) (act : A -> V -> V),
    (forall c b v, act (mul c b) v = act c (act b v)) -> (forall v, act one v = v) ->
    forall l v, (forall c, In c l -> forall w, act c w = w) -> act (eval_seq A mul one l) v = v.
Proof. exact identity_controls_noop. Qed.
Print Assumptions identity_noop.

(* (5) chains follow the same rule per site *)
Theorem chain_same_rule :
  forall (A : Type) (hist : list (cadd A)) c post step site,
    chain_seq A (hist ++ [c]) post step site =
    chain_seq A hist post step site ++
    (if Bool.eqb (c_post A c) post && Z.eqb (c_step A c) step && Nat.eqb (c_site A c) site
     then [c_op A c] else []).
Proof. exact chain_seq_snoc. Qed.
Print Assumptions chain_same_rule.

(* non-vacuity: a history with two controls at the same float time meets the premise of (3)/(3') *)
Example same_time_premise_met :
  let h := [Build_add (KFloat 0x1p-2) false 1%Z; Build_add (KFloat 0x1p-2) false 2%Z] in
  (forall a b, In a h -> In b h -> lt_time Z a b = false).
Proof. cbn. intros a b [<-|[<-|[]]] [<-|[<-|[]]]; reflexivity. Qed.

(* The model itself records where the code deviates from "insertion order": controls
   keyed differently that land on the same step are ordered by kind/time, not insertion *)
Theorem mixed_key_order_refuted :
  exists hist : list (add Z),
    pre_seq Z hist 0x1p-2 0 1 <> map (a_op Z) (filter (fun a => negb (a_post Z a)) hist).
Proof.
  exists [Build_add (KInt 1) false 1%Z; Build_add (KFloat 0x1p-2) false 2%Z].
  vm_compute. discriminate.
Qed.
Print Assumptions mixed_key_order_refuted.
