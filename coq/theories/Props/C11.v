(* C11 — the Gibbs-state computation returns the exact reduced thermal state. *)
From Coq Require Import ZArith List Bool Arith Lia Reals.
From Coquelicot Require Import Coquelicot.
From OQ Require Import Lib.RingSum Lib.Mat Model.PathSum Model.Shapes Model.History
  Proofs.PathSumSpec Proofs.PathSumTrace Proofs.PathSumFree Proofs.ShapesSpec Proofs.HistorySpec Proofs.MatsubaraSpec.
Import ListNotations.

(* The imaginary-time network of the Gibbs computation is the same path sum as the real-time one
   (Model/PathSum.v) with one index per slice, identity basis change, the half-step propagator
   P = exp(-H delta/2) on both sides of every slice and the Matsubara coefficients as cells; column
   b of the un-normalised state is the path sum started from e_b (tied to the back-end by the
   correspondence). *)

(* (1) commuting Hamiltonian: the un-normalised state collapses to one path per coupling eigenstate;
   its weight is the running product of the diagonal propagator entries and of the coefficients
   evaluated at (s, s) — i.e. exp(-E_s/T) times exp(-o_s^2 * sum of the cells) *)
Theorem gibbs_commuting :
  forall (K : Ring) (d : nat) (diag0 : nat -> K) (coef : nat -> nat -> option (list (list K)))
         (uin uout : list (list K)) (props : nat -> list (list K) * list (list K)) (rho0 : list K),
    (forall k jp j, (1 <= k)%nat -> j <> jp -> trans K uin uout props k jp j = r0) ->
    forall n s,
      state_entry d diag0 coef uin uout props rho0 (S n) s =
      sumn d (fun j => rmul (amp diag0 coef uin uout props rho0 (repeat j (S n)))
                            (nth s (PathSum.cur uout props rho0 (S n) (repeat j (S n))) r0)).
Proof. intros K d diag0 coef uin uout props rho0 Hc n s. apply commuting_single_path. exact Hc. Qed.
Print Assumptions gibbs_commuting.

(* (1b) zero coupling (every Matsubara weight equal to one), ANY Hamiltonian: the network is the plain
   product of the half-slice propagators applied to the start vector — for the Gibbs computation
   (P exp(-H delta/2) on both sides of every slice) the column b of exp(-H/T) — for every number of
   slices, dimension and basis change *)
Theorem gibbs_zero_coupling :
  forall (K : Ring) (d : nat) (diag0 : nat -> K) (coef : nat -> nat -> option (list (list K)))
         (uin uout : list (list K)) (props : nat -> list (list K) * list (list K)) (rho0 : list K),
    square K d uin -> square K d uout ->
    (forall k, square K d (fst (props k)) /\ square K d (snd (props k))) -> length rho0 = d ->
    (forall j, (j < d)%nat -> diag0 j = r1) ->
    (forall kp k m jp j, coef kp k = Some m -> entry K m jp j = r1) ->
    forall n, state d diag0 coef uin uout props rho0 n = free K uin uout props rho0 n.
Proof. intros K d diag0 coef uin uout props rho0 H1 H2 H3 H4 H5 H6. exact (pathsum_free K d diag0 coef uin uout props rho0 H1 H2 H3 H4 H5 H6). Qed.
Print Assumptions gibbs_zero_coupling.

(* non-vacuous: a 2-level "system" with a non-symmetric integer half-slice propagator, all weights one *)
Example gibbs_zero_coupling_example :
  let P := [[2;1];[3;-1]]%Z in
  @state ZRing 2 (fun _ => 1%Z) (fun _ _ => Some [[1;1];[1;1]]%Z) (@mid ZRing 2) (@mid ZRing 2) (fun _ => (P, P)) [1;0]%Z 3
  = @mvec ZRing (@mmul ZRing P (@mmul ZRing P (@mmul ZRing P (@mmul ZRing P (@mmul ZRing P P))))) [1;0]%Z.
Proof. vm_compute. reflexivity. Qed.

(* (2) the sum of the cells of n slices is G(n) - G(0) for the twice-integrated Matsubara kernel G
   on the imaginary-time grid: it depends on the total imaginary time only, not on how many
   slices it is cut into *)
Theorem cells_sum_independent_of_slicing :
  forall (K : Ring) (G : nat -> K) (n : nat), sumn n (row_full K G) = rsub (G n) (G 0%nat).
Proof. exact tiling_full. Qed.
Print Assumptions cells_sum_independent_of_slicing.

(* (2b) ... and in the continuum: for a kernel symmetric about beta/2 (K(beta - u) = K(u), what a thermal bath gives)
   the double integral over the whole imaginary-time triangle is beta/2 times the single integral of K — with
   int_0^beta K = 2 lambda the total of all Matsubara cells is lambda/T.  This is the identity the check observes on
   correlation_2d_integral(1/T, 0, 'upper-triangle', matsubara=True) (it exposed the defect repaired by 42443af). *)
Theorem matsubara_total :
  forall (K : R -> R) (beta L : R),
    (forall u, continuous K u) -> (forall u, K (beta - u)%R = K u) ->
    is_RInt K 0 beta L ->
    is_RInt (fun u => ((beta - u) * K u)%R) 0 beta (beta / 2 * L)%R.
Proof. exact MatsubaraSpec.matsubara_total. Qed.
Print Assumptions matsubara_total.

(* (3) repeating the computation on the same object changes nothing *)
Theorem gibbs_idempotent :
  forall (Net : Type) (net_init : Net) (net_step : Net -> nat -> Net) (n_steps : nat) (s : fst_ Net),
    (2 <= n_steps)%nat ->
    f_compute Net net_init net_step 1 (n_steps - 1) (f_compute Net net_init net_step 1 (n_steps - 1) s) =
    f_compute Net net_init net_step 1 (n_steps - 1) s.
Proof. intros. apply fixed_end_idempotent. lia. Qed.
Print Assumptions gibbs_idempotent.
