(* oqupy.control: Control.add_single / get_controls and
   ChainControl.add_single_site_control / get_single_site_controls.

   The model is stated on the *history of add calls* and returns, for a step,
   the list of control operations in the order in which they ACT (first to act
   first).  The matrix the code returns is the product of that list, later
   factors on the left ([eval_seq]); this is what the correspondence check
   compares on Gaussian-integer matrices.  No proofs here. *)
From Coq Require Import ZArith List Bool PrimFloat.
From OQ Require Import Lib.PyFloat.
Import ListNotations.

Inductive key := KInt (z : Z) | KFloat (f : float).

Section Control.
Variable A : Type.

Record add := { a_key : key; a_post : bool; a_op : A }.

(* ---- generic stable insertion sort by a strict order on keys ---------- *)
Section Sort.
Variable B : Type.
Variable lt : B -> B -> bool.
Fixpoint insert (x : B) (l : list B) : list B :=
  match l with
  | [] => [x]
  | y :: l' => if lt y x then y :: insert x l' else x :: y :: l'
  end.
Definition isort (l : list B) : list B := fold_right insert [] l.
End Sort.

Definition float_time (a : add) : option float :=
  match a_key a with KFloat f => Some f | KInt _ => None end.
Definition int_step (a : add) : option Z :=
  match a_key a with KInt z => Some z | KFloat _ => None end.

Definition lt_time (a b : add) : bool :=
  match float_time a, float_time b with
  | Some x, Some y => PrimFloat.ltb x y
  | _, _ => false
  end.

(* a float time t lands on step  np.round((t - start_time)/dt) *)
Definition lands_on (dt start : float) (step : Z) (a : add) : bool :=
  match float_time a with
  | Some t => PrimFloat.eqb (rint ((t - start) / dt)) (of_Z step)
  | None => false
  end.

Definition is_float (a : add) : bool := match a_key a with KFloat _ => true | _ => false end.
Definition on_step (step : Z) (a : add) : bool :=
  match int_step a with Some z => Z.eqb z step | None => false end.
Definition side (post : bool) (a : add) : bool := Bool.eqb (a_post a) post.

(* time-keyed controls acting at [step], in acting order *)
Definition time_seq (hist : list add) (post : bool) (dt start : float) (step : Z) : list add :=
  filter (lands_on dt start step)
         (isort add lt_time (filter is_float (filter (side post) hist))).
(* step-keyed controls acting at [step], in acting order *)
Definition step_seq (hist : list add) (post : bool) (step : Z) : list add :=
  filter (on_step step) (filter (side post) hist).

(* Control.get_controls(step, dt, start_time) -> acting sequences (pre, post);
   the code returns None for an empty sequence *)
Definition pre_seq hist dt start step : list A :=
  map a_op (time_seq hist false dt start step ++ step_seq hist false step).
Definition post_seq hist dt start step : list A :=
  map a_op (step_seq hist true step ++ time_seq hist true dt start step).

(* product of an acting sequence: later factors multiply from the left *)
Variable mul : A -> A -> A.
Definition eval_seq (one : A) (l : list A) : A := fold_left (fun acc c => mul c acc) l one.
Definition eval_opt (one : A) (l : list A) : option A :=
  match l with [] => None | _ => Some (eval_seq one l) end.

(* ---- the dictionary the code keeps for step-keyed controls ---------------------------------
   Control.add_single(int key): first control for a key is stored as it is, every further one is
   composed as  new @ stored ; get_controls multiplies the stored product onto the identity. *)
Fixpoint assoc_add (z : Z) (c : A) (l : list (Z * A)) : list (Z * A) :=
  match l with
  | [] => [(z, c)]
  | (k, v) :: t => if Z.eqb k z then (k, mul c v) :: t else (k, v) :: assoc_add z c t
  end.
Fixpoint assoc_get (z : Z) (l : list (Z * A)) : option A :=
  match l with
  | [] => None
  | (k, v) :: t => if Z.eqb k z then Some v else assoc_get z t
  end.
Definition step_store (hist : list add) (post : bool) : list (Z * A) :=
  fold_left (fun st a => match a_key a with
                         | KInt z => if side post a then assoc_add z (a_op a) st else st
                         | KFloat _ => st
                         end) hist [].
Definition dict_step_control (one : A) (hist : list add) (post : bool) (step : Z) : option A :=
  option_map (fun v => mul v one) (assoc_get step (step_store hist post)).

(* ---- ChainControl ------------------------------------------------------ *)
Record cadd := { c_site : nat; c_step : Z; c_post : bool; c_op : A }.

Definition chain_seq (hist : list cadd) (post : bool) (step : Z) (site : nat) : list A :=
  map c_op (filter (fun c => Bool.eqb (c_post c) post && Z.eqb (c_step c) step
                             && Nat.eqb (c_site c) site) hist).

(* ChainControl.get_single_site_controls(step, post): None when no control at all
   for that step, else one optional product per site *)
Definition chain_controls (one : A) (nsites : nat) (hist : list cadd) (post : bool) (step : Z)
  : option (list (option A)) :=
  if existsb (fun c => Bool.eqb (c_post c) post && Z.eqb (c_step c) step) hist
  then Some (map (fun s => eval_opt one (chain_seq hist post step s)) (seq 0 nsites))
  else None.

End Control.

Arguments Build_add {A}. Arguments Build_cadd {A}.
