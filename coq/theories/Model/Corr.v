(* oqupy.system_dynamics: _parse_times, compute_correlations_nt (time axes, which entries
   are computed, which stay NaN), compute_correlations (ordered / anti).
   The correlation *values* enter through an oracle  steps -> V  (a non-decreasing tuple of
   steps to a value); Glue.v instantiates it with the compute_dynamics model.  No proofs. *)
From Coq Require Import ZArith List Bool PrimFloat.
From OQ Require Import Lib.PyFloat Lib.PySem.
Import ListNotations.
Local Open Scope Z_scope.

Inductive tspec :=
| TInt (z : Z)
| TSlice (a b c : option Z)
| TList (l : list Z)
| TFloat (t : float)
| TInterval (t0 t1 : float).

Definition in_bounds (max_step i : Z) : bool := (0 <=? i) && (i <=? max_step).

(* int(np.round((t - start_time)/dt)) *)
Definition step_of_time (dt start t : float) : Z := py_round ((t - start) / dt).

(* _parse_times : None = IndexError *)
Definition parse_times (s : tspec) (max_step : Z) (dt start : float) : option (list Z) :=
  match s with
  | TInt z => if in_bounds max_step z then Some [z] else None
  | TSlice a b c => slice_select a b c (max_step + 1)
  | TList l => list_select (max_step + 1) l
  | TFloat t => let i := step_of_time dt start t in
                if in_bounds max_step i then Some [i] else None
  | TInterval t0 t1 =>
    let i0 := step_of_time dt start t0 in
    let i1 := step_of_time dt start t1 in
    if in_bounds max_step i0 && in_bounds max_step i1 then
      let dir := if i0 <=? i1 then 1 else -1 in
      Some (py_range i0 (i1 + dir) dir)
    else None
  end.

(* returned time axis: start_time + dt * step *)
Definition ret_time (dt start : float) (k : Z) : float := (start + dt * of_Z k)%float.

Fixpoint nondecreasing (l : list Z) : bool :=
  match l with
  | a :: ((b :: _) as t) => (a <=? b) && nondecreasing t
  | _ => true
  end.

Fixpoint maxl (l : list Z) (d : Z) : Z :=
  match l with [] => d | a :: t => Z.max a (maxl t a) end.

Section Entries.
Variable V : Type.
Variable oracle : list Z -> V.        (* value for a non-decreasing tuple of steps *)

(* all index tuples of the first operators, in np.product order, with their steps *)
Fixpoint product {A} (ls : list (list A)) : list (list A) :=
  match ls with
  | [] => [[]]
  | l :: rest => flat_map (fun x => map (cons x) (product rest)) l
  end.

(* one row of the result (fixed first times), as the code computes it: skip unless the first
   times are sorted; keep the last times not before the latest first time (mask); write the
   values back under the mask *)
Definition row (first : list Z) (last : list Z) : list (option V) :=
  if nondecreasing first then
    match first with
    | [] => map (fun l => Some (oracle [l])) last
    | f0 :: _ => let fmax := maxl first f0 in
                 map (fun l => if fmax <=? l then Some (oracle (first ++ [l])) else None) last
    end
  else map (fun _ => None) last.

(* the whole array, flattened in C order *)
Definition correlations_nt (times : list (list Z)) : list (option V) :=
  match rev times with
  | [] => []
  | last :: rfirst => flat_map (fun first => row first last) (product (rev rfirst))
  end.

(* specification: an entry is defined iff its steps are non-decreasing *)
Definition entry_spec (steps : list Z) : option V :=
  if nondecreasing steps then Some (oracle steps) else None.
End Entries.
