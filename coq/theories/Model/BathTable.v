(* The table of system correlations inside TwoTimeBathCorrelations (bath_dynamics.py, generate_system_correlations): a square
   table that grows on demand.  [rows] is what the code reads as "time steps already covered" (the first dimension of the
   array), [filled] the number of time steps the table really covers.  A question about times up to step [dim] first asks the
   table to cover [dim] steps; it generates the missing part iff dim > rows.  [legacy] = the empty table of a fresh object
   held as an array of shape (1, 0) (first dimension 1, nothing in it) -- the variant that is refuted; the code holds it as
   an array of shape (0, 0). *)
From Coq Require Import Arith List.
Import ListNotations.

Record btab := { rows : nat; filled : nat }.
Definition bt_fresh (legacy : bool) : btab := {| rows := if legacy then 1 else 0; filled := 0 |}.
Definition bt_ask (t : btab) (dim : nat) : btab :=
  if rows t <? dim then {| rows := dim; filled := dim |} else t.
Definition bt_answerable (t : btab) (dim : nat) : bool := dim <=? filled t.
Definition bt_run (legacy : bool) (qs : list nat) : btab := fold_left bt_ask qs (bt_fresh legacy).
