(* PT-TEBD bookkeeping: oqupy.mps_mpo.compute_trotter_layers / compute_tebd_propagator (which
   nearest-neighbour gates form which layer, with which time step), the site weights in
   SystemChain.get_nn_full_liouvillians, and the read / write footprint of a nearest-neighbour
   gate on the chain state (PtTebdBackend._apply_nn_gate_get_data /
   _apply_nn_gate_replace_gam_lam_gam).  No proofs here. *)
From Coq Require Import Arith List Bool.
Import ListNotations.

(* bonds (left site index) of a chain of n sites: 0 .. n-2 *)
Definition bonds (n : nat) : list nat := seq 0 (n - 1).
Definition evens (n : nat) : list nat := filter Nat.even (bonds n).
Definition odds (n : nat) : list nat := filter Nat.odd (bonds n).

(* gate layers of one TEBD half step; [frac] = number of quarter half-steps each gate covers:
   order 1: full time step (4/4), order 2: half of it (2/4) *)
Definition layers (n order : nat) : list (list nat) :=
  match order with
  | 1 => [evens n; odds n]
  | 2 => [evens n; odds n; odds n; evens n]
  | _ => []
  end.
Definition gate_fraction (order : nat) : nat := match order with 1 => 4 | 2 => 2 | _ => 0 end.

(* get_nn_full_liouvillians: twice the weight with which the single-site Liouvillian of site i
   enters the bond b (as left site: factor_l; as right site: factor_r) *)
Definition weight2 (n b i : nat) : nat :=
  if Nat.eqb i b then (if Nat.eqb b 0 then 2 else 1)                      (* left site of bond b *)
  else if Nat.eqb i (S b) then (if Nat.eqb b (n - 2) then 2 else 1)       (* right site of bond b *)
  else 0.
Definition total_weight2 (n i : nat) : nat := fold_right Nat.add 0 (map (fun b => weight2 n b i) (bonds n)).

(* ---- chain state and gate footprint --------------------------------------------------------- *)
Section Footprint.
Variables A B : Type.                         (* gamma tensors, lambda matrices *)
(* lambdas are stored with one extra at each end: lam 0 and lam n are the dummies [[1.0]] *)
Definition cstate := (list A * list B)%type.

Fixpoint upd {X} (j : nat) (x : X) (l : list X) : list X :=
  match l, j with
  | [], _ => []
  | _ :: t, O => x :: t
  | h :: t, S j' => h :: upd j' x t
  end.

(* what a gate on (l, l+1) computes from what it reads *)
Variable gate : nat -> B -> A -> B -> A -> B -> A * B * A.
Variables (da : A) (db : B).

Definition gate_result (s : cstate) (l : nat) : A * B * A :=
  gate l (nth l (snd s) db) (nth l (fst s) da) (nth (S l) (snd s) db) (nth (S l) (fst s) da) (nth (S (S l)) (snd s) db).

Definition write (s : cstate) (l : nat) (r : A * B * A) : cstate :=
  let '(gl, lm, gr) := r in
  (upd (S l) gr (upd l gl (fst s)), upd (S l) lm (snd s)).

(* sequential branch: for gate in layer: apply *)
Definition apply_gate (s : cstate) (l : nat) : cstate := write s l (gate_result s l).
Definition apply_layer_seq (s : cstate) (ls : list nat) : cstate := fold_left apply_gate ls s.

(* parallel branches: every gate is computed from the state before the layer (snapshot), the results
   are then written back in some order *)
Definition apply_layer_par (s : cstate) (ls : list nat) (write_order : list nat) : cstate :=
  fold_left (fun acc l => write acc l (gate_result s l)) write_order s.
End Footprint.
