(* oqupy.util.ProgressBar + threading.Timer as a transition system.
   Timers are objects with a status; the calling thread performs enter / update / exit; an armed
   timer may fire at any moment, which makes a callback pending; a pending callback runs
   update() on the timer thread at any later moment.
   [step]     : the code as it is (enter / update / exit serialised by a lock: each is one
                atomic transition; update does nothing once closed).
   [old_step] : the code before the repair (no lock, no closed flag): the callback's update is
                three separately scheduled operations.
   Second part: the bracket discipline of the APIs that report progress.  No proofs here. *)
From Coq Require Import Arith List Bool.
Import ListNotations.

Inductive tstat := New | Armed | Cancelled | Fired.
Record timer := { t_stat : tstat; t_rearm : bool }.

Definition set_stat (i : nat) (st : tstat) (l : list timer) : list timer :=
  map (fun p => if Nat.eqb (fst p) i then {| t_stat := st; t_rearm := t_rearm (snd p) |} else snd p)
      (combine (seq 0 (length l)) l).

Definition stat_of (i : nat) (l : list timer) : tstat :=
  match nth_error l i with Some t => t_stat t | None => Cancelled end.

(* Timer.cancel(): only a timer that has not fired yet is affected *)
Definition cancel (i : nat) (l : list timer) : list timer :=
  match stat_of i l with
  | Armed | New => set_stat i Cancelled l
  | _ => l
  end.

Record pst := { timers : list timer; tracked : nat; closed : bool; pending : nat }.

Definition init : pst := {| timers := []; tracked := 0; closed := true; pending := 0 |}.

Inductive op := Enter | Update | Exit | Fire (i : nat) | Run.

(* the body of update() under the lock *)
Definition locked_update (s : pst) : pst :=
  if closed s then s
  else let l := cancel (tracked s) (timers s) in
       {| timers := l ++ [{| t_stat := Armed; t_rearm := true |}];
          tracked := length l; closed := false; pending := pending s |}.

Definition step (s : pst) (o : op) : pst :=
  match o with
  | Enter => (* a progress object is entered once, on a new (or exited) object *)
             if closed s then
               {| timers := timers s ++ [{| t_stat := Armed; t_rearm := false |}];
                  tracked := length (timers s); closed := false; pending := pending s |}
             else s
  | Update => locked_update s
  | Exit => {| timers := cancel (tracked s) (timers s); tracked := tracked s; closed := true;
               pending := pending s |}
  | Fire i =>
    match nth_error (timers s) i with
    | Some t => match t_stat t with
                | Armed => {| timers := set_stat i Fired (timers s); tracked := tracked s; closed := closed s;
                              pending := if t_rearm t then S (pending s) else pending s |}
                | _ => s
                end
    | None => s
    end
  | Run => match pending s with
           | O => s
           | S p => locked_update {| timers := timers s; tracked := tracked s; closed := closed s; pending := p |}
           end
  end.

(* the variant in which exit() returns before closing when the bar spans no steps ([empty] = the bar was created with
   max_value = 0): used for the refutation only *)
Definition step_early (empty : bool) (s : pst) (o : op) : pst :=
  match o with
  | Exit => if empty then s else step s Exit
  | _ => step s o
  end.

Definition armed_ids (s : pst) : list nat :=
  map fst (filter (fun p => match t_stat (snd p) with Armed => true | _ => false end)
                  (combine (seq 0 (length (timers s))) (timers s))).

(* ---- a failing output stream --------------------------------------------------------------
   update() and exit() write the status line as their LAST action under the lock (exit() writes the
   elapsed time after releasing it): when the stream raises there, the exception leaves the method
   after the protocol state has changed.  [PFail o] is operation [o] whose print raises. *)
Inductive fop := POk (o : op) | PFail (o : op).
Definition erase (f : fop) : op := match f with POk o | PFail o => o end.
Definition fstep (s : pst) (f : fop) : pst := step s (erase f).

(* ---- the code before the repair ------------------------------------------------------ *)
Inductive cbpc := CbIdle | CbCancelled | CbAssigned (i : nat).
Record ost := { o_timers : list timer; o_tracked : nat; o_cb : cbpc; o_done : bool }.
Inductive oop := OEnter | OUpdate | OExit | OFire (i : nat) | OCbCancel | OCbAllocAssign | OCbStart.

Definition old_step (s : ost) (o : oop) : ost :=
  match o with
  | OEnter => {| o_timers := o_timers s ++ [{| t_stat := Armed; t_rearm := false |}];
                 o_tracked := length (o_timers s); o_cb := o_cb s; o_done := false |}
  | OUpdate => let l := cancel (o_tracked s) (o_timers s) in
               {| o_timers := l ++ [{| t_stat := Armed; t_rearm := true |}]; o_tracked := length l;
                  o_cb := o_cb s; o_done := o_done s |}
  | OExit => {| o_timers := cancel (o_tracked s) (o_timers s); o_tracked := o_tracked s;
                o_cb := o_cb s; o_done := true |}
  | OFire i => match stat_of i (o_timers s) with
               | Armed => {| o_timers := set_stat i Fired (o_timers s); o_tracked := o_tracked s;
                             o_cb := o_cb s; o_done := o_done s |}
               | _ => s
               end
  | OCbCancel => {| o_timers := cancel (o_tracked s) (o_timers s); o_tracked := o_tracked s;
                    o_cb := CbCancelled; o_done := o_done s |}
  | OCbAllocAssign =>
    match o_cb s with
    | CbCancelled => {| o_timers := o_timers s ++ [{| t_stat := New; t_rearm := true |}];
                        o_tracked := length (o_timers s); o_cb := CbAssigned (length (o_timers s));
                        o_done := o_done s |}
    | _ => s
    end
  | OCbStart =>
    match o_cb s with
    | CbAssigned i => {| o_timers := (match stat_of i (o_timers s) with
                                      | New => set_stat i Armed (o_timers s) | _ => o_timers s end);
                         o_tracked := o_tracked s; o_cb := CbIdle; o_done := o_done s |}
    | _ => s
    end
  end.
Definition old_init : ost := {| o_timers := []; o_tracked := 0; o_cb := CbIdle; o_done := false |}.
Definition old_armed (s : ost) : list nat :=
  map fst (filter (fun p => match t_stat (snd p) with Armed => true | _ => false end)
                  (combine (seq 0 (length (o_timers s))) (o_timers s))).

(* ---- bracket discipline ---------------------------------------------------------------
   An API enters the progress object, performs updates, and may fail after [k] updates.
   [guarded] = exit is in a with-statement / finally. *)
Inductive pev := PEnter | PUpdate | PExit.
Definition bracket_log (guarded : bool) (n_updates : nat) (fail_after : option nat) : list pev :=
  match fail_after with
  | None => PEnter :: repeat PUpdate n_updates ++ [PExit]
  | Some k => PEnter :: repeat PUpdate (Nat.min k n_updates) ++ (if guarded then [PExit] else [])
  end.

(* ---- the paths of one API call through its bracket --------------------------------------------------
   After enter() the call executes statements; each one goes on (an update is reported), returns early (nothing left to
   do) or raises (a user callable fails).  [try_from] is the index of the first statement that is inside the
   try / with block whose finally / __exit__ calls exit(): try_from = 0 is "enter() immediately followed by try" or a
   with-statement; a statement before the try block that leaves the function skips exit(). *)
Inductive outcome := Go | Ret | Raise.
Fixpoint body_log (try_from pos : nat) (stmts : list outcome) : list pev :=
  match stmts with
  | [] => [PExit]
  | Go :: r => PUpdate :: body_log try_from (S pos) r
  | _ :: _ => if Nat.leb try_from pos then [PExit] else []
  end.
Definition call_log (try_from : nat) (stmts : list outcome) : list pev := PEnter :: body_log try_from 0 stmts.
Definition pev_count (e : pev) (l : list pev) : nat :=
  length (filter (fun x => match x, e with PEnter, PEnter | PUpdate, PUpdate | PExit, PExit => true | _, _ => false end) l).
Definition calls_log (try_from : nat) (calls : list (list outcome)) : list pev := concat (map (call_log try_from) calls).
