(* The compute() methods of Tempo / MeanFieldTempo / PtTebd (continuable) and of PtTempo /
   GibbsTempo (fixed end) as state machines over an OPAQUE deterministic back-end:
   [net_step net k] is whatever the tensor network does for step k (it consumes the user's
   propagators of step k-1).  What is recorded is (step label, network state), so a silently
   different result is a visible inequality.  No proofs here. *)
From Coq Require Import Arith List Bool.
Import ListNotations.

Section History.
Variable Net : Type.
Variable net_init : Net.
Variable net_step : Net -> nat -> Net.

Record st := { step : option nat; net : Net; dyn : list (nat * Net) }.
Definition fresh : st := {| step := None; net := net_init; dyn := [] |}.

Definition cur (s : st) : nat := match step s with Some k => k | None => 0 end.

(* first call: backend.initialize() and the initial state is recorded *)
Definition initialize (s : st) : st :=
  match step s with
  | Some _ => s
  | None => {| step := Some 0; net := net_init; dyn := [(0, net_init)] |}
  end.

(* backend.compute_step(): the user's callables for step cur are evaluated, THEN the counter
   moves and the network advances; the new state is added to the dynamics *)
Definition do_step (s : st) : st :=
  let k := S (cur s) in
  let n := net_step (net s) k in
  {| step := Some k; net := n; dyn := dyn s ++ [(k, n)] |}.

Fixpoint advance (n : nat) (s : st) : st :=
  match n with O => s | S n' => advance n' (do_step s) end.

(* compute(end) where the end time corresponds to step [target]:
   num_step = max(0, target - step) *)
Definition compute (target : nat) (s : st) : st :=
  let s := initialize s in advance (target - cur s) s.

(* ---- the initial record written by compute() instead of initialize() (the variant that is refuted) ----
   "nothing propagated yet: record the initial state" -- the guard holds on EVERY call that starts at the first step,
   so a call that takes no step followed by another call records the initial state twice *)
Definition initialize_lazy (s : st) : st :=
  match step s with
  | Some _ => s
  | None => {| step := Some 0; net := net_init; dyn := [] |}
  end.
Definition compute_lazy (target : nat) (s : st) : st :=
  let s := initialize_lazy s in
  let s' := if Nat.eqb (cur s) 0 then {| step := step s; net := net s; dyn := dyn s ++ [(0, net s)] |} else s in
  advance (target - cur s) s'.

(* ---- a transient failure of a user callable ----------------------------------------
   [fails k] : evaluating the callables for the step that leads to k raises (once).
   [atomic = true]  : the code as repaired (nothing has changed when the exception leaves)
   [atomic = false] : the counter moved before the callables were evaluated *)
Definition do_step_f (atomic : bool) (fails : nat -> bool) (s : st) : st * bool :=
  let k := S (cur s) in
  if fails k then
    ((if atomic then s else {| step := Some k; net := net s; dyn := dyn s |}), false)
  else (do_step s, true).

Fixpoint advance_f (atomic : bool) (fails : nat -> bool) (n : nat) (s : st) : st * bool :=
  match n with
  | O => (s, true)
  | S n' => let '(s', ok) := do_step_f atomic fails s in
            if ok then advance_f atomic fails n' s' else (s', false)
  end.
Definition compute_f (atomic : bool) (fails : nat -> bool) (target : nat) (s : st) : st * bool :=
  let s := initialize s in advance_f atomic fails (target - cur s) s.

(* MeanFieldTempoBackend.compute_step: the field equation of motion is evaluated for the
   Runge-Kutta stages AFTER every system's network has advanced; a failure there leaves the
   networks advanced but the counter and the dynamics unchanged *)
Definition do_step_late (fails : nat -> bool) (s : st) : st * bool :=
  let k := S (cur s) in
  if fails k then ({| step := step s; net := net_step (net s) k; dyn := dyn s |}, false)
  else (do_step s, true).

(* PtTebd restarted from the exported chain state and step number *)
Definition restart_from (s : st) : st :=
  {| step := Some (cur s); net := net s; dyn := [(cur s, net s)] |}.

(* ---- fixed-end methods (PtTempo, GibbsTempo) ----------------------------------------
   first: the step the back-end reports after initialisation (1 for both);
   last : the step at which the computation is complete (num_steps resp. n_steps-1) *)
Record fst_ := { fstep : option nat; fnet : Net }.
Definition f_fresh : fst_ := {| fstep := None; fnet := net_init |}.
Fixpoint f_advance (n : nat) (k : nat) (x : Net) : Net :=
  match n with O => x | S n' => f_advance n' (S k) (net_step x (S k)) end.
Definition f_compute (first last : nat) (s : fst_) : fst_ :=
  match fstep s with
  | None => {| fstep := Some (Nat.max first last); fnet := f_advance (last - first) first (net_step net_init first) |}
  | Some k => {| fstep := Some (Nat.max k last); fnet := f_advance (last - k) k (fnet s) |}
  end.
(* the pre-repair behaviour: every call takes [last - first] further steps *)
Definition f_compute_old (first last : nat) (s : fst_) : fst_ :=
  match fstep s with
  | None => f_compute first last s
  | Some k => {| fstep := Some (k + (last - first)); fnet := f_advance (last - first) k (fnet s) |}
  end.
End History.

(* ---- the mean-field back-end: several species advanced one after the other within a step -------------------
   Every species has its own tensor network.  Within the step leading to [k] the networks are advanced in list
   order; the user functions needed for species j (its bath correlations, inside the influence functions) are
   evaluated after the species before it have been advanced, the field equation after all of them.
   [fail = Some j]: the user function evaluated after j species have been advanced raises (j = number of species:
   the field equation).  [rollback = true] is the code as repaired (the networks of the start of the step are
   put back before the exception leaves), [rollback = false] the earlier behaviour. *)
Section Species.
Variable Sp : Type.
Variable sp_step : Sp -> nat -> Sp.

Fixpoint adv_upto (j : nat) (k : nat) (l : list Sp) : list Sp :=
  match j, l with
  | S j', x :: t => sp_step x k :: adv_upto j' k t
  | _, _ => l
  end.
Definition adv_all (k : nat) (l : list Sp) : list Sp := map (fun x => sp_step x k) l.

Definition mf_step (rollback : bool) (fail : option nat) (k : nat) (l : list Sp) : list Sp * bool :=
  match fail with
  | None => (adv_upto (length l) k l, true)
  | Some j => ((if rollback then l else adv_upto j k l), false)
  end.
End Species.
