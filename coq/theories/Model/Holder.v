(* Objects built from arrays of the caller (Tempo(initial_state), Control.add_single(operation),
   AugmentedMPS(gammas), System(H), ...): the caller allocates arrays, overwrites them in place, hands them to
   constructors, and computes with the objects.
   [hstep]       : a constructor copies the array (np.array(x)) — the code as repaired
   [alias_step] : a constructor keeps a reference to the caller's buffer — before
   [spec_answers] : stated over the HISTORY only: a computation with the i-th object returns g of the value that
                  the array handed to its constructor held at the time of that constructor call.
   No proofs here. *)
From Coq Require Import Arith List Bool.
Import ListNotations.

Section Holder.
Variables V R : Type.
Variable g : V -> R.                   (* the computation, as a function of the value held *)

Inductive hop :=
| Alloc (v : V)                        (* the caller creates an array with value v *)
| Write (a : nat) (v : V)              (* the caller overwrites array a in place *)
| Build (a : nat)                      (* an object is constructed from array a *)
| Compute (i : nat).                   (* a computation with object i *)

Fixpoint hupd (i : nat) (v : V) (l : list V) : list V :=
  match l, i with
  | [], _ => []
  | _ :: t, O => v :: t
  | h :: t, S i' => h :: hupd i' v t
  end.

(* copying constructors: objects hold values *)
Record hst := { arrays : list V; objs : list V }.
Definition hinit : hst := {| arrays := []; objs := [] |}.
Definition hstep (s : hst) (o : hop) : hst * option R :=
  match o with
  | Alloc v => ({| arrays := arrays s ++ [v]; objs := objs s |}, None)
  | Write a v => ({| arrays := hupd a v (arrays s); objs := objs s |}, None)
  | Build a => (match nth_error (arrays s) a with
                | Some v => {| arrays := arrays s; objs := objs s ++ [v] |}
                | None => s end, None)
  | Compute i => (s, option_map g (nth_error (objs s) i))
  end.
Fixpoint hrun (s : hst) (ops : list hop) : list (option R) :=
  match ops with
  | [] => []
  | o :: t => let '(s', r) := hstep s o in r :: hrun s' t
  end.

(* aliasing constructors: objects hold the address of the caller's buffer *)
Record ast := { a_arrays : list V; a_objs : list nat }.
Definition alias_init : ast := {| a_arrays := []; a_objs := [] |}.
Definition alias_step (s : ast) (o : hop) : ast * option R :=
  match o with
  | Alloc v => ({| a_arrays := a_arrays s ++ [v]; a_objs := a_objs s |}, None)
  | Write a v => ({| a_arrays := hupd a v (a_arrays s); a_objs := a_objs s |}, None)
  | Build a => (match nth_error (a_arrays s) a with
                | Some _ => {| a_arrays := a_arrays s; a_objs := a_objs s ++ [a] |}
                | None => s end, None)
  | Compute i => (s, match nth_error (a_objs s) i with
                     | Some a => option_map g (nth_error (a_arrays s) a)
                     | None => None end)
  end.
Fixpoint alias_run (s : ast) (ops : list hop) : list (option R) :=
  match ops with
  | [] => []
  | o :: t => let '(s', r) := alias_step s o in r :: alias_run s' t
  end.

(* ---- specification over the history ------------------------------------------------------------ *)
(* number of arrays allocated by a history *)
Fixpoint n_arrays (h : list hop) : nat :=
  match h with
  | [] => 0
  | Alloc _ :: t => S (n_arrays t)
  | _ :: t => n_arrays t
  end.
(* value of array a after the history h (h in chronological order): the last Alloc / Write that touched it.
   [hr] is the history REVERSED (latest operation first) *)
Fixpoint value_rev (hr : list hop) (a : nat) : option V :=
  match hr with
  | [] => None
  | Alloc v :: t => if Nat.eqb a (n_arrays t) then Some v else value_rev t a
  | Write b v :: t => if Nat.eqb a b && Nat.ltb b (n_arrays t) then Some v else value_rev t a
  | _ :: t => value_rev t a
  end.
(* the values captured by the successful constructor calls of a reversed history, latest first *)
Fixpoint built_rev (hr : list hop) : list V :=
  match hr with
  | [] => []
  | Build a :: t => match value_rev t a with Some v => v :: built_rev t | None => built_rev t end
  | _ :: t => built_rev t
  end.
(* the answer to the operation o issued after the (reversed) history hr *)
Definition spec_answer (hr : list hop) (o : hop) : option R :=
  match o with
  | Compute i => option_map g (nth_error (rev (built_rev hr)) i)
  | _ => None
  end.
Fixpoint spec_from (hr : list hop) (ops : list hop) : list (option R) :=
  match ops with
  | [] => []
  | o :: t => spec_answer hr o :: spec_from (o :: hr) t
  end.
Definition spec_answers (ops : list hop) : list (option R) := spec_from [] ops.
End Holder.

(* ---- a stored list of operations for one site / key and step, asked for its product ----------------------------------
   Control.get_controls / ChainControl.get_single_site_controls: the first stored operation is taken as it is, every
   further one is composed as  new @ product so far ; the object is left as it was (q_pure).  q_inplace is the variant
   that writes the product into the storage of the first operation ("current[...] = contr @ current"): the answer of
   the first question is the same, the object is not. *)
Section StoredProduct.
Variable A : Type.
Variable mul : A -> A -> A.
Definition product_of (c : A) (t : list A) : A := fold_left (fun acc x => mul x acc) t c.
Definition q_pure (l : list A) : option A * list A :=
  match l with [] => (None, []) | c :: t => (Some (product_of c t), l) end.
Definition q_inplace (l : list A) : option A * list A :=
  match l with [] => (None, []) | c :: t => (Some (product_of c t), product_of c t :: t) end.
(* n questions in a row: the answers, and the object afterwards *)
Fixpoint ask (q : list A -> option A * list A) (n : nat) (l : list A) : list (option A) * list A :=
  match n with
  | O => ([], l)
  | S n' => let '(a, l') := q l in let '(r, l'') := ask q n' l' in (a :: r, l'')
  end.
End StoredProduct.
