(* Which influence coefficient enters where.
   TEMPO (BaseTempoBackend.initialize_mps_mpo / compute_system_step) keeps a list of
   influence tensors ("the MPO", furthest first) and contracts it row-wise with the newest
   time point; PT-TEMPO (PtTempoBackend.initialize / compute_step) contracts, per step, the
   column of one source point.  Influence tensors are identified by the key [dk] the
   back-end passes to its influence callable:
       0        upper triangle (same step)
       dk > 0   square at distance dk
       dk < 0   rectangle from dkmax*dt to dkmax*dt + min(-dk*dt, dt + add_correlation_time),
                available ([rect] = true) only if an additional correlation time is set.
   No proofs here. *)
From Coq Require Import ZArith List Bool Arith.
Import ListNotations.
Local Open Scope Z_scope.

(* keys n-1, n-2, ..., 0 *)
Fixpoint down_from (n : nat) : list Z :=
  match n with O => [] | S n' => Z.of_nat n' :: down_from n' end.
(* keys 0, 1, ..., n-1 *)
Definition up_to (n : nat) : list Z := map Z.of_nat (seq 0 n).

(* ---- TEMPO: row-wise ------------------------------------------------------------- *)
(* the stored MPO (furthest influence first) before step s >= 1 *)
Definition tempo_stored (dkmax : option nat) (s : nat) : list Z :=
  match dkmax with
  | None => down_from s                 (* grows by one influence per step *)
  | Some m => down_from (S m)           (* precomputed 0..dkmax, never grows *)
  end.

(* the MPO actually contracted at step s (1-based: step s produces time point s-1's coupling) *)
Definition tempo_used (dkmax : option nat) (rect : bool) (s : nat) : list Z :=
  match dkmax with
  | None => tempo_stored None s
  | Some m =>
    if (s <=? m)%nat then skipn (S m - s) (tempo_stored (Some m) s)        (* na.split(mpo, -s) *)
    else if rect then (Z.of_nat m - Z.of_nat s) :: tl (tempo_stored (Some m) s)
    else tempo_stored (Some m) s
  end.

(* keys requested from the influence callable: at initialisation, then per step *)
Definition tempo_requests (dkmax : option nat) (n : nat) : list Z :=
  match dkmax with
  | None => up_to (S n)                                  (* 0 at init, then key s at step s *)
  | Some m => up_to (S m) ++ map (fun s => Z.of_nat m - Z.of_nat s) (seq (S m) (n - m))
  end.

(* coefficient coupling source point kp to the point k = s-1 of step s: element at distance
   dk = k - kp from the END of the used list *)
Definition tempo_key (dkmax : option nat) (rect : bool) (kp k : nat) : option Z :=
  let l := tempo_used dkmax rect (S k) in
  let dk := (k - kp)%nat in
  if (dk <? length l)%nat then nth_error l (length l - 1 - dk) else None.

(* ---- PT-TEMPO: column-wise ---------------------------------------------------------- *)
(* N steps in total; dkmax as passed to the back-end (PtTempo passes N for "None") *)
Definition pt_num_infl (N m : nat) : nat := Nat.min N (S m).

(* the MPO (nearest first: index = distance dk) contracted at back-end step s = kp+1 *)
Fixpoint pt_col (N m : nat) (rect : bool) (s : nat) : list Z :=
  match s with
  | O => []
  | S O => up_to (pt_num_infl N m)                       (* initialize() *)
  | S s' =>
    let prev := pt_col N m rect s' in
    if (N - pt_num_infl N m + 1 <? s)%nat then removelast prev                      (* end phase *)
    else if rect then removelast prev ++ [- Z.of_nat s] else prev                  (* grow phase *)
  end.

Definition pt_requests (N m : nat) (rect : bool) : list Z :=
  up_to (pt_num_infl N m) ++
  map (fun s => - Z.of_nat s) (filter (fun s => negb (N - pt_num_infl N m + 1 <? s)%nat) (seq 2 (N - 1))).

Definition pt_key (N m : nat) (rect : bool) (kp k : nat) : option Z :=
  nth_error (pt_col N m rect (S kp)) (k - kp).

(* ---- the documented meaning ---------------------------------------------------------- *)
(* a rectangle of width dt (key -1) is the square at distance dkmax *)
Definition norm_key (m : nat) (key : option Z) : option Z :=
  match key with Some (-1) => Some (Z.of_nat m) | k => k end.

Definition cell_spec (dkmax : option nat) (rect : bool) (kp k : nat) : option Z :=
  let dk := (k - kp)%nat in
  match dkmax with
  | None => Some (Z.of_nat dk)
  | Some m =>
    if (dk <? m)%nat then Some (Z.of_nat dk)
    else if (m <? dk)%nat then None
    else if rect && (1 <=? kp)%nat then Some (- Z.of_nat (S kp)) else Some (Z.of_nat m)
  end.
