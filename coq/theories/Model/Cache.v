(* Memoised methods on objects with mutable public parameters (functools.lru_cache on
   eta_function / correlation_2d_integral), and copies of such objects (Bath keeps
   copy(correlations)).  Methods are pure functions  f params args.
   [step]      : the code as repaired — setting an attribute clears the memo table; a copy
                 computes from its own parameters.
   [old_step]  : before — the memo survives attribute changes; a copy's closures read the
                 ORIGINAL object's parameters.
   No proofs here. *)
From Coq Require Import Arith List Bool.
Import ListNotations.

Section Cache.
Variables P V : Type.                (* parameter record, result type; arguments are nat-coded *)
Variable f : P -> nat -> V.

Inductive op :=
| New (p : P)                        (* construct an object *)
| Set_ (i : nat) (p : P)             (* change public parameters of object i *)
| Call (i : nat) (a : nat)           (* call the memoised method of object i *)
| Copy (i : nat).                    (* copy.copy(object i), e.g. Bath(..., correlations) *)

Record st := { objs : list P; memo : list (nat * nat * V) }.
Definition init : st := {| objs := []; memo := [] |}.

Fixpoint lookup (i a : nat) (m : list (nat * nat * V)) : option V :=
  match m with
  | [] => None
  | (j, b, v) :: t => if Nat.eqb i j && Nat.eqb a b then Some v else lookup i a t
  end.

Fixpoint upd (i : nat) (p : P) (l : list P) : list P :=
  match l, i with
  | [], _ => []
  | _ :: t, O => p :: t
  | h :: t, S i' => h :: upd i' p t
  end.

(* returns the new state and, for Call, the answer *)
Definition step (s : st) (o : op) : st * option V :=
  match o with
  | New p => ({| objs := objs s ++ [p]; memo := memo s |}, None)
  | Set_ i p => ({| objs := upd i p (objs s); memo := [] |}, None)
  | Call i a =>
    match nth_error (objs s) i with
    | None => (s, None)
    | Some p =>
      match lookup i a (memo s) with
      | Some v => (s, Some v)
      | None => let v := f p a in ({| objs := objs s; memo := (i, a, v) :: memo s |}, Some v)
      end
    end
  | Copy i =>
    match nth_error (objs s) i with
    | None => (s, None)
    | Some p => ({| objs := objs s ++ [p]; memo := memo s |}, None)
    end
  end.

Fixpoint run (s : st) (ops : list op) : st * list (option V) :=
  match ops with
  | [] => (s, [])
  | o :: t => let '(s', r) := step s o in let '(s'', rs) := run s' t in (s'', r :: rs)
  end.

(* ---- before the repair ---------------------------------------------------------------- *)
(* each object reads its parameters through [src] (a copy keeps pointing at the original) *)
Record ost := { o_objs : list P; o_src : list nat; o_memo : list (nat * nat * V) }.
Definition old_init : ost := {| o_objs := []; o_src := []; o_memo := [] |}.
Definition old_step (s : ost) (o : op) : ost * option V :=
  match o with
  | New p => ({| o_objs := o_objs s ++ [p]; o_src := o_src s ++ [length (o_objs s)]; o_memo := o_memo s |}, None)
  | Set_ i p => ({| o_objs := upd i p (o_objs s); o_src := o_src s; o_memo := o_memo s |}, None)
  | Call i a =>
    match nth_error (o_src s) i with
    | None => (s, None)
    | Some j =>
      match nth_error (o_objs s) j, lookup i a (o_memo s) with
      | Some p, None => let v := f p a in
                        ({| o_objs := o_objs s; o_src := o_src s; o_memo := (i, a, v) :: o_memo s |}, Some v)
      | Some _, Some v => (s, Some v)
      | None, _ => (s, None)
      end
    end
  | Copy i =>
    match nth_error (o_objs s) i, nth_error (o_src s) i with
    | Some p, Some j => ({| o_objs := o_objs s ++ [p]; o_src := o_src s ++ [j]; o_memo := o_memo s |}, None)
    | _, _ => (s, None)
    end
  end.
Fixpoint old_run (s : ost) (ops : list op) : ost * list (option V) :=
  match ops with
  | [] => (s, [])
  | o :: t => let '(s', r) := old_step s o in let '(s'', rs) := old_run s' t in (s'', r :: rs)
  end.

(* ---- specification: no memo at all ---------------------------------------------------- *)
Definition spec_step (l : list P) (o : op) : list P * option V :=
  match o with
  | New p => (l ++ [p], None)
  | Set_ i p => (upd i p l, None)
  | Call i a => (l, option_map (fun p => f p a) (nth_error l i))
  | Copy i => (match nth_error l i with Some p => l ++ [p] | None => l end, None)
  end.
Fixpoint spec_run (l : list P) (ops : list op) : list (option V) :=
  match ops with
  | [] => []
  | o :: t => let '(l', r) := spec_step l o in r :: spec_run l' t
  end.
End Cache.
