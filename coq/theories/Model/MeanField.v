(* The field update of the two mean-field drivers:
     MeanFieldTempo (MeanFieldTempoBackend.compute_step + MeanFieldTempo._compute_field) and
     oqupy.system_dynamics.compute_dynamics_with_field,
   over an abstract number type (instantiated with Coq primitive floats for the bit-exact
   correspondence and with rationals for the proofs).  The system states are an oracle indexed
   by the step; what is modelled is WHICH time, WHICH state and WHICH field value go into every
   evaluation of the field equation of motion, in call order.  No proofs here. *)
From Coq Require Import List Arith.
Import ListNotations.

Section MeanField.
Variable T : Type.
Variables (add mul : T -> T -> T) (half : T -> T) (of_nat : nat -> T).
Variable f : T -> nat -> T -> T.        (* field_eom(time, states of step k, field) *)
Variables start dt : T.

Definition time (k : nat) : T := add start (mul (of_nat k) dt).

(* one evaluation of field_eom: (time, step whose states are passed, field value) *)
Definition call := (T * nat * T)%type.

(* Heun step from (t, states k, a) to states k+1:  a + dt*(k1+k2)/2 *)
Definition heun (t : T) (k : nat) (a : T) : T * list call :=
  let k1 := f t k a in
  let a1 := add a (mul k1 dt) in
  let t1 := add t dt in
  let k2 := f t1 (S k) a1 in
  (add a (half (mul dt (add k1 k2))), [(t, k, a); (t1, S k, a1)]).

(* ---- MeanFieldTempo: per step n: derivative at (t_n, S_n, a_n) for the propagators, the networks
   advance, then the two Runge-Kutta stages *)
Fixpoint mft (n : nat) (k : nat) (a : T) : list T * list call :=
  match n with
  | O => ([a], [])
  | S n' =>
    let t := time k in
    let '(a', calls) := heun t k a in
    let '(fields, rest) := mft n' (S k) a' in
    (a :: fields, (t, k, a) :: calls ++ rest)
  end.

(* ---- compute_dynamics_with_field: loop over step s = 0..N; at s >= 1 the Heun update from
   step s-1 (time start + (s-1)*dt), then (s < N) the derivative call at (t_s, S_s, a_s) *)
Fixpoint cdwf_loop (n : nat) (s : nat) (a_prev : T) : list T * list call :=
  (* n steps remain after step s; a_prev = field at step s-1 (s >= 1) *)
  let '(a, calls) := heun (add start (mul (of_nat (s - 1)) dt)) (s - 1) a_prev in
  match n with
  | O => ([a], calls)                                        (* final field after the loop *)
  | S n' =>
    let '(fields, rest) := cdwf_loop n' (S s) a in
    (a :: fields, calls ++ (time s, s, a) :: rest)
  end.
Definition cdwf (N : nat) (a0 : T) : list T * list call :=
  match N with
  | O => ([a0], [])
  | S n => let '(fields, rest) := cdwf_loop n 1 a0 in (a0 :: fields, (time 0, 0, a0) :: rest)
  end.
End MeanField.
