(* oqupy.tempo.influence_matrix and the cell shapes of
   CustomSD.correlation_2d_integral (second differences of the twice integrated correlation
   function G, called eta_function in the code).  No proofs here. *)
From Coq Require Import ZArith List Bool PrimFloat.
From OQ Require Import Lib.RingSum Lib.PyFloat.
Import ListNotations.

Inductive shape := UpperTriangle | Square | Rectangle.

(* which 2D integral influence_matrix(dk) asks for: (shape, time_1, time_2); None: no tensor *)
Definition infl_args (dk : Z) (dt : float) (dkmax : option Z) (tau_add : option float)
  : option (shape * float * option float) :=
  if (dk =? 0)%Z then Some (UpperTriangle, 0%float, None)
  else if (dk <? 0)%Z then
    match dkmax, tau_add with
    | Some m, Some tau =>
      let t1 := (of_Z m * dt)%float in
      let a := (of_Z (- dk) * dt)%float in
      let b := (1 * dt + tau)%float in
      (* np.min([a, b]) *)
      let w := if PrimFloat.ltb b a then b else a in
      Some (Rectangle, t1, Some (t1 + w)%float)
    | _, _ => None
    end
  else Some (Square, (of_Z dk * dt)%float, None).

Section Cells.
Variable K : Ring.
Open Scope rg_scope.

(* CustomSD.correlation_2d_integral in terms of eta_function = G, on a grid of step delta:
   times are multiples t * delta *)
Variable G : nat -> K.
Definition two : K := r1 + r1.
Definition tri_cell (t1 : nat) : K := G (S t1) - G t1.                  (* as coded: G(t1+d) - G(t1) *)
Definition sq_cell (t1 : nat) : K := G (S t1) - two * G t1 + G (t1 - 1)%nat.
Definition rect_cell (t1 t2 : nat) : K := G t2 - G t1 - G (t2 - 1)%nat + G (t1 - 1)%nat.

(* the exponent of the influence functional for coefficient eta = er + i*ei:
   -(er * m_i + i * ei * p_i) * m_j,  i = earlier index (row), j = later index (column);
   m = commutator diagonal, p = anti-commutator diagonal of the coupling operator *)
Variable iu : K.
Definition exponent (er ei : K) (m p : nat -> K) (i j : nat) : K :=
  - ((er * m i + iu * (ei * p i)) * m j).
End Cells.

Arguments exponent {K}. Arguments tri_cell {K}. Arguments sq_cell {K}. Arguments rect_cell {K}. Arguments two {K}.
