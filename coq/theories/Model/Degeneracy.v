(* oqupy.bath._row_degeneracy (np.unique(..., return_inverse=True, axis=0)) as a class map, up to
   the numbering of the classes: classes are numbered by first occurrence here; the code numbers
   them by sorted key.  [rep] is np.where(map == c)[0][0].  No proofs here. *)
From Coq Require Import ZArith List Bool Arith.
Import ListNotations.

Section Degeneracy.
Variable Key : Type.
Variable keq : Key -> Key -> bool.

(* position of the first element equal to x *)
Fixpoint first_index (x : Key) (l : list Key) : nat :=
  match l with
  | [] => 0
  | y :: t => if keq y x then 0 else S (first_index x t)
  end.

(* representative (first index of the class) of every index *)
Definition rep_of (keys : list Key) (i : nat) (dflt : Key) : nat := first_index (nth i keys dflt) keys.

(* distinct representatives in order of first occurrence = np.where(map == c)[0][0] for c in classes *)
Definition reps (keys : list Key) (dflt : Key) : list nat :=
  filter (fun i => Nat.eqb (rep_of keys i dflt) i) (seq 0 (length keys)).

Fixpoint first_index_nat (x : nat) (l : list nat) : nat :=
  match l with [] => 0 | y :: t => if Nat.eqb y x then 0 else S (first_index_nat x t) end.

(* class number (by first occurrence) of index i *)
Definition class_of (keys : list Key) (i : nat) (dflt : Key) : nat :=
  first_index_nat (rep_of keys i dflt) (reps keys dflt).
End Degeneracy.
