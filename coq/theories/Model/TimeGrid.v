(* Time-grid bookkeeping in binary64 (Coq primitive floats = IEEE-754 binary64):
     Tempo/MeanFieldTempo._get_num_step, PtTempo.__init__ step count,
     _time / times arrays / record_all=False label, PtTebd.time,
     _parameter_memory_input_parse (tcut <-> dkmax),
   and Dynamics.add (bisect-right insertion) over an abstract order.  No proofs. *)
From Coq Require Import ZArith List Bool PrimFloat.
From OQ Require Import Lib.PyFloat.
Import ListNotations.
Local Open Scope float_scope.

Definition step_tol : float := 0x1.12e0be826d695p-30.     (* the literal 1.0e-9 *)

(* int(np.floor((end_time - start_time)/dt + 1.0e-9)) *)
Definition end_step_f (start end_ dt : float) : float := ffloor ((end_ - start) / dt + step_tol).
Definition end_step (start end_ dt : float) : Z := to_Z_integral (end_step_f start end_ dt).
(* the pre-fix formula int((end_time - start_time)/dt), kept for the refutation *)
Definition end_step_trunc (start end_ dt : float) : Z := py_int ((end_ - start) / dt).

(* _get_num_step(start_step, end_time) = max(0, end_step - start_step) *)
Definition num_step (start end_ dt : float) (start_step : Z) : Z :=
  Z.max 0 (end_step start end_ dt - start_step).

(* start_time + float(step)*dt  ==  (start_time + np.arange(n)*dt)[step] *)
Definition time_label (start dt : float) (k : Z) : float := start + of_Z k * dt.
Definition times_all (start dt : float) (n : nat) : list float :=
  map (fun k => time_label start dt (Z.of_nat k)) (seq 0 (S n)).
Definition times_final (start dt : float) (n : nat) : list float := [time_label start dt (Z.of_nat n)].
(* PtTebd.time(step) = start_time + dt*(step - start_step) *)
Definition tebd_time (start dt : float) (step start_step : Z) : float := start + dt * of_Z (step - start_step).

(* _parameter_memory_input_parse *)
Definition dkmax_of_tcut_f (tcut dt : float) : float := fceil (rint (tcut / dt)).
Definition dkmax_of_tcut (tcut dt : float) : Z := to_Z_integral (dkmax_of_tcut_f tcut dt).
Definition tcut_of_dkmax (dkmax : Z) (dt : float) : float := of_Z dkmax * dt.

(* ---- Dynamics.add ------------------------------------------------------------ *)
Section Dynamics.
Variables T St : Type.
Variable leb : T -> T -> bool.

(* bisect.bisect (= bisect_right) on a sorted list *)
Fixpoint bisect (x : T) (l : list T) : nat :=
  match l with
  | [] => 0
  | e :: l' => if leb e x then S (bisect x l') else 0
  end.
Definition insert_at {A} (i : nat) (x : A) (l : list A) : list A := firstn i l ++ x :: skipn i l.

Definition dyn := (list T * list St)%type.
Definition dyn_add (d : dyn) (ts : T * St) : dyn :=
  let i := bisect (fst ts) (fst d) in
  (insert_at i (fst ts) (fst d), insert_at i (snd ts) (snd d)).
Definition dyn_of (adds : list (T * St)) : dyn := fold_left dyn_add adds ([], []).
End Dynamics.

(* ---- MeanFieldDynamics.add ----------------------------------------------------------------------------------------
   self._times / self._fields get the new entry at the bisect index of the object's own time list; the list of
   per-system Dynamics objects is created at the first addition (one per state handed over) and every one of them
   then performs its own Dynamics.add(time, system_states[i]) -- with its own bisect over its own time list.
   The code asserts len(system_states) == len(self._system_dynamics); `combine` truncates instead, and the theorems
   are stated under exactly that guard (every addition carries n states). *)
Section MeanFieldDynamics.
Variables T F St : Type.
Variable leb : T -> T -> bool.
Definition mfd := (dyn T F * list (dyn T St))%type.
Definition mfd_add (m : mfd) (a : T * F * list St) : mfd :=
  let sys0 := match snd m with
              | [] => map (fun _ => ([], [])) (snd a)
              | _ :: _ => snd m
              end in
  (dyn_add T F leb (fst m) (fst a),
   map (fun ds => dyn_add T St leb (fst ds) (fst (fst a), snd ds)) (combine sys0 (snd a))).
Definition mfd_of (adds : list (T * F * list St)) : mfd := fold_left mfd_add adds (([], []), []).
End MeanFieldDynamics.

(* ---- where explicit times enter (C15) ------------------------------------------------------------
   TimeDependentSystem.get_propagators with subdiv_limit=None samples the Liouvillian at
   t + dt/4.0 and t + dt*3.0/4.0 with t = start_time + step*dt *)
Local Open Scope float_scope.
Definition prop_times (start dt : float) (step : Z) : float * float :=
  let t := start + of_Z step * dt in (t + dt / 4, t + dt * 3 / 4).
Definition all_prop_times (start dt : float) (n : nat) : list float :=
  flat_map (fun k => let '(a, b) := prop_times start dt (Z.of_nat k) in [a; b]) (seq 0 n).

(* ---- a driver object that records one label per reached step, under restarts (PtTebd: initialize(), compute()) --------
   The recorder holds step indices k (the label is tebd_time of start_step + k).  RInit = initialize(): the step counter
   goes back to the first step and the recorder of the object holds the label of the first step only -- with
   keep = true the recorders of the earlier run are kept and the new labels are added to them (the variant that is
   refuted).  RStep = one propagation step inside compute().  Within one run labels arrive in increasing order, so
   appending is Dynamics.add (theorem dynamics_sorted covers arbitrary insertion orders). *)
Inductive rop := RInit | RStep.
Record rstate := { r_step : nat; r_rec : list nat }.
Definition r_apply (keep : bool) (s : rstate) (o : rop) : rstate :=
  match o with
  | RInit => {| r_step := 0; r_rec := (if keep then r_rec s else []) ++ [0%nat] |}
  | RStep => {| r_step := S (r_step s); r_rec := r_rec s ++ [S (r_step s)] |}
  end.
Definition r_run (keep : bool) (ops : list rop) : rstate := fold_left (r_apply keep) ops {| r_step := 0; r_rec := [] |}.
Definition rec_labels (keep : bool) (ops : list rop) : list nat := r_rec (r_run keep ops).
