(* Executable glue used by the generated case files: instantiation of the models
   at Gaussian integers and flat printers.  Definitions only. *)
From Coq Require Import ZArith List Bool PrimFloat.
From OQ Require Import Lib.RingSum Lib.Tensor Lib.Mat Lib.PyFloat Model.Dyn Model.PT Model.Control.
Import ListNotations.

Definition GK : Ring := GRing.
Definition gmat := list (list G).

Definition gS (z : G) : T GK := @Sc GK z.
Definition gV (l : list (T GK)) : T GK := @Vec GK l.
Definition mkmpo (da db : nat) (r4 : bool) (t : T GK) : mpo GK := @Build_mpo GK da db r4 t.
Definition mkpt (din dout : nat) (tin tout : option (T GK)) (ms : list (option (mpo GK)))
  (caps : list (list G)) : ptensor GK := @Build_ptensor GK din dout tin tout ms caps.

Definition flatG (l : list G) : list Z := flat_map (fun z => [fst z; snd z]) l.
Definition flatM (m : gmat) : list Z := flatG (concat m).
Definition flatOptM (m : option gmat) : list Z :=
  match m with None => [0%Z] | Some m => 1%Z :: flatM m end.

(* Control.get_controls as matrices *)
Definition ctl_pre (d2 : nat) (hist : list (add gmat)) dt start (step : Z) : option gmat :=
  eval_opt gmat (@mmul GK) (@mid GK d2) (pre_seq gmat hist dt start step).
Definition ctl_post (d2 : nat) (hist : list (add gmat)) dt start (step : Z) : option gmat :=
  eval_opt gmat (@mmul GK) (@mid GK d2) (post_seq gmat hist dt start step).

Definition ctl_query d2 hist dt start (steps : list Z) : list Z :=
  flat_map (fun s => flatOptM (ctl_pre d2 hist dt start s) ++ flatOptM (ctl_post d2 hist dt start s)) steps.

Definition chain_query d2 nsites (hist : list (cadd gmat)) (post : bool) (steps : list Z) : list Z :=
  flat_map (fun s => match chain_controls gmat (@mmul GK) (@mid GK d2) nsites hist post s with
                     | None => [0%Z]
                     | Some l => 1%Z :: flat_map flatOptM l
                     end) steps.

(* compute_dynamics with a Control object *)
Definition dyn_ctl (dsys : nat) (pts : list (ptensor GK)) (hist : list (add gmat)) dt start
    (props : list (gmat * gmat)) (record_all : bool) (N : nat) (rho0 : list G) : list Z :=
  let pr := fun k => nth k props ([], []) in
  flat_map flatG
    (compute_dynamics dsys pts
       (fun k => option_map (@matT GK) (ctl_pre dsys hist dt start (Z.of_nat k)))
       (fun k => option_map (@matT GK) (ctl_post dsys hist dt start (Z.of_nat k)))
       (fun k => @matT GK (fst (pr k))) (fun k => @matT GK (snd (pr k)))
       record_all N rho0).

(* ---- process tensor files (C16/C17) --------------------------------------- *)
From OQ Require Import Model.PTFile.
Definition ftensor := PTFile.tensor G.
Definition fspt := spt G (Z * Z * Z) Z.
Definition flat_val (v : option G) : list Z :=
  match v with Some z => [1%Z; fst z; snd z] | None => [0%Z; 0%Z; 0%Z] end.
Definition flat_tensor (t : ftensor) : list Z :=
  Z.of_nat (length (fst t)) :: map Z.of_nat (fst t) ++ flat_map flat_val (snd t).
Definition flat_otensor (o : option ftensor) : list Z :=
  match o with None => [0%Z] | Some t => 1%Z :: flat_tensor t end.
Definition flat_spt (r : res fspt) : list Z :=
  match r with
  | Ok p =>
    [1%Z; Z.of_nat (s_hs _ _ _ p)]
    ++ (match s_dt _ _ _ p with None => [0%Z] | Some (s, m, e) => [1%Z; s; m; e] end)
    ++ flat_otensor (s_tin _ _ _ p) ++ flat_otensor (s_tout _ _ _ p)
    ++ [s_name _ _ _ p; s_desc _ _ _ p] ++ flat_otensor (s_init _ _ _ p)
    ++ [Z.of_nat (length (s_mpos _ _ _ p))] ++ flat_map flat_tensor (s_mpos _ _ _ p)
    ++ [Z.of_nat (length (s_caps _ _ _ p))] ++ flat_map flat_tensor (s_caps _ _ _ p)
  | _ => [0%Z]
  end.
Definition mkspt hs dt tin tout name desc init mpos caps : fspt :=
  Build_spt G (Z*Z*Z) Z hs dt tin tout name desc init mpos caps.
Definition roundtrip_flat (p : fspt) : list Z := flat_spt (import_simple _ _ _ (export _ _ _ p)).
(* state of the file after the first n writer operations, read back *)
Definition prefix_flat (p : fspt) (n : nat) : list Z :=
  let f := fold_left (wstep _ _ _) (firstn n (export_ops _ _ _ p)) (create _ _ _ p) in
  (if f_writing _ _ _ f then 1%Z else 0%Z) :: flat_spt (import_simple _ _ _ f).
(* a write-mode file filled by hand (C17): operations coded (0,k) set_mpo k, (1,k) set_cap k, (2,n) name := n, (3,n) description := n,
   anything else close(); observation after all of them: [writing flag; name; description; number of MPO slots; number of cap slots] *)
Definition hand_tensor (r4 : bool) : ftensor :=
  if r4 then ([1; 1; 1; 1], [Some (1%Z, 0%Z)]) else ([1], [Some (1%Z, 0%Z)]).
Definition hand_op (c : Z * Z) : wop G Z :=
  match c with
  | (0, k) => WMpo _ _ (Z.to_nat k) (hand_tensor true)
  | (1, k) => WCap _ _ (Z.to_nat k) (hand_tensor false)
  | (2, n) => WName _ _ n
  | (3, n) => WDesc _ _ n
  | _ => WClose _ _
  end%Z.
Definition handfill_flat (name desc : Z) (codes : list (Z * Z)) : list Z :=
  let f := fold_left (wstep _ _ _) (map hand_op codes) (create _ _ _ (mkspt 2 None None None name desc None [] [])) in
  [if f_writing _ _ _ f then 1%Z else 0%Z; f_name _ _ _ f; f_desc _ _ _ f;
   Z.of_nat (length (f_mpos _ _ _ f)); Z.of_nat (length (f_caps _ _ _ f))].
(* close() / remove() sequences on a file object (C17): mode 0/1/2 = read / write / overwrite, ops 0 = close, 1 = remove;
   per operation [refused; file exists afterwards] *)
Definition fobj_flat (m : Z) (given : bool) (ops : list Z) : list Z :=
  let md := match m with 0%Z => MRead | 1%Z => MWrite | _ => MOverwrite end in
  flat_map (fun r : bool * bool => [if fst r then 1%Z else 0%Z; if snd r then 1%Z else 0%Z])
    (fo_run false {| o_mode := md; o_given := given; o_open := true; o_there := true |}
       (map (fun z => match z with 0%Z => FClose | _ => FRemove end) ops)).
Definition mode_table : list Z :=
  flat_map (fun m => flat_map (fun e =>
     [match open_mode m e with Created => 0 | Replaced => 1 | OpenedExisting => 2 | Refused => 3 end]%Z)
     [false; true]) [MRead; MWrite; MOverwrite]
  ++ flat_map (fun m => flat_map (fun g => [if removeable m g then 1 else 0]%Z) [false; true]) [MRead; MWrite; MOverwrite].

(* outcome of the PT-TEMPO entry points on a named file, and whether remove() is granted afterwards:
   for unique, overwrite, exists in {false, true}^3 (in this order, exists fastest) *)
Definition api_table : list Z :=
  flat_map (fun u => flat_map (fun o => flat_map (fun e =>
     [match open_mode (api_mode u o) e with Created => 0 | Replaced => 1 | OpenedExisting => 2 | Refused => 3 end;
      if removeable (api_mode u o) true then 1 else 0]%Z) [false; true]) [false; true]) [false; true].

(* ---- correlations (C07) ------------------------------------------------------ *)
From OQ Require Import Lib.PySem Model.Corr Model.SuperOps.
(* value of one ordered n-time correlation: the first n-1 operators enter as pre-measurement
   controls at their steps (in operator order), the last one as an expectation value *)
Definition corr_value (d : nat) (pts : list (ptensor GK)) (props : list (gmat * gmat)) (rho0 : list G)
    (ops : list (bool * gmat)) (steps : list Z) : G :=
  let dsys := (d * d)%nat in
  let n := length steps in
  let firsts := firstn (n - 1) steps in
  let last := nth (n - 1) steps 0%Z in
  let sup := fun (o : bool * gmat) => if fst o then @left_super GK d (snd o) else @right_super GK d (snd o) in
  let hist := map (fun so => Build_add (KInt (fst so)) false (sup (snd so))) (combine firsts ops) in
  let pr := fun k => nth k props ([], []) in
  let N := Z.to_nat last in
  let states := compute_dynamics dsys pts
       (fun k => option_map (@matT GK) (ctl_pre dsys hist 1%float 0%float (Z.of_nat k)))
       (fun k => None) (fun k => @matT GK (fst (pr k))) (fun k => @matT GK (snd (pr k))) true N rho0 in
  let olast := snd (nth (n - 1) ops (true, [])) in
  @expectation GK d olast (nth N states []).

Definition flat_entry (e : option G) : list Z :=
  match e with None => [0%Z] | Some z => [1%Z; fst z; snd z] end.
Definition flat_fbits (f : float) : list Z := let '(s, m, e) := fbits f in [s; m; e].

Fixpoint parse_all (specs : list tspec) (max_step : Z) dt start : option (list (list Z)) :=
  match specs with
  | [] => Some []
  | s :: t => match parse_times s max_step dt start, parse_all t max_step dt start with
              | Some a, Some b => Some (a :: b) | _, _ => None end
  end.

(* compute_correlations_nt: [0] for IndexError, else 1 :: time axes :: entries *)
Definition corr_nt_flat (d : nat) pts props rho0 (ops : list (bool * gmat)) (specs : list tspec)
    (max_step : Z) (dt start : float) : list Z :=
  match parse_all specs max_step dt start with
  | None => [0%Z]
  | Some times =>
    1%Z :: flat_map (fun ts => Z.of_nat (length ts) :: flat_map (fun k => flat_fbits (ret_time dt start k)) ts) times
        ++ flat_map flat_entry (correlations_nt G (corr_value d pts props rho0 ops) times)
  end.

(* the parsed steps alone: used for the exhaustive check of the specification space *)
Definition parse_flat (s : tspec) (max_step : Z) (dt start : float) : list Z :=
  match parse_times s max_step dt start with None => [(-1)%Z] | Some l => Z.of_nat (length l) :: l end.

(* ---- TEMPO / PT-TEMPO path sums (C01, C02, C04, C05, C06) ---------------------------- *)
From OQ Require Import Model.Schedule Model.PathSum.
Definition mdagger (m : gmat) : gmat := map (map gconj) (@mtranspose GK m).
Fixpoint lookupZ (k : Z) (t : list (Z * gmat)) : option gmat :=
  match t with [] => None | (z, m) :: r => if Z.eqb z k then Some m else lookupZ k r end.

(* which = true : TEMPO's row schedule ; false : PT-TEMPO's column schedule (N steps) *)
Definition backend_coef (which : bool) (N : nat) (dkmax : option nat) (rect : bool)
    (table : list (Z * gmat)) (kp k : nat) : option gmat :=
  let key := if which then tempo_key dkmax rect kp k
             else pt_key N (match dkmax with Some m => m | None => N end) rect kp k in
  match key with
  | None => None
  | Some z => (* a rectangle of width dt (key -1) is the square at distance dkmax *)
    lookupZ (match dkmax with Some m => if Z.eqb z (-1) then Z.of_nat m else z | None => z end) table
  end.

Definition pathsum_flat (which : bool) (d : nat) (table : list (Z * gmat)) (dkmax : option nat) (rect : bool)
    (u : gmat) (props : list (gmat * gmat)) (rho0 : list G) (n N : nat) : list Z :=
  let d2 := (d * d)%nat in
  let uin := @left_right_super GK (mdagger u) u in
  let uout := @left_right_super GK u (mdagger u) in
  let i0 := match lookupZ 0 table with Some m => m | None => [] end in
  flat_map flatG
    (@states GK d2 (fun j => nth j (nth j i0 []) g0) (backend_coef which N dkmax rect table)
             uin uout (fun k => nth k props ([], [])) rho0 n).

Definition requests_flat (dkmax : option nat) (rect : bool) (n : nat) : list Z :=
  tempo_requests dkmax n ++ [999%Z] ++
  pt_requests n (match dkmax with Some m => m | None => n end) rect.

(* ---- influence_matrix (C01, C04, C06, C12) --------------------------------------------- *)
From OQ Require Import Model.Shapes.
Definition shape_code (s : shape) : Z := match s with UpperTriangle => 0 | Square => 1 | Rectangle => 2 end.
Definition infl_args_flat (dk : Z) (dt : float) (dkmax : option Z) (tau : option float) : list Z :=
  match infl_args dk dt dkmax tau with
  | None => [(-1)%Z]
  | Some (s, t1, t2) => shape_code s :: flat_fbits t1 ++ (match t2 with None => [0%Z] | Some t => 1%Z :: flat_fbits t end)
  end.
(* exponent matrix for eta = (er + i ei) (integers after scaling), integer spectra m, p;
   optional degeneracy positions (north for rows, west for columns) *)
Definition exponent_flat (er ei : Z) (m p : list Z) (north west : option (list nat)) (diag_only : bool) : list Z :=
  let mf := fun i => ((nth i m 0%Z, 0%Z) : G) in
  let pf := fun i => ((nth i p 0%Z, 0%Z) : G) in
  let e := fun i j => @exponent GK ((0%Z, 1%Z) : G) ((er, 0%Z) : G) ((ei, 0%Z) : G) mf pf i j in
  let rows := match north with Some l => l | None => seq 0 (length m) end in
  let cols := match west with Some l => l | None => seq 0 (length m) end in
  if diag_only then flatG (map (fun i => e i i) rows)
  else flatG (flat_map (fun i => map (fun j => e i j) cols) rows).

(* ---- superoperators and Lindbladians (C04, C05, C10) -------------------------------------- *)
Definition gfun (m : gmat) : nat -> nat -> G := @fun_of GK m.
Definition superop_flat (kind d : nat) (a b : gmat) : list Z :=
  flatM (match kind with
         | 0 => @commutator GK d a
         | 1 => @acommutator GK d a
         | 2 => @left_super GK d a
         | 3 => @right_super GK d a
         | _ => @left_right_super GK a b
         end)
  ++ [777%Z] ++
  flatM (@tab_super GK d (match kind with
         | 0 => fun i j k l => gsub (@ls_f GK (gfun a) i j k l) (@rs_f GK (gfun a) i j k l)
         | 1 => fun i j k l => gadd (@ls_f GK (gfun a) i j k l) (@rs_f GK (gfun a) i j k l)
         | 2 => @ls_f GK (gfun a)
         | 3 => @rs_f GK (gfun a)
         | _ => @lrs_f GK (gfun a) (gfun b)
         end)).
(* 2 x Lindbladian *)
Definition liouv2_flat (d : nat) (h : gmat) (terms : list (Z * gmat)) : list Z :=
  flatM (@tab_super GK d (@liouv2 GK gconj ((0, 1)%Z : G) d (gfun h)
           (map (fun t => (((fst t, 0%Z) : G), gfun (snd t))) terms))).

(* ---- degeneracy maps (C06) ---------------------------------------------------------------- *)
From OQ Require Import Model.Degeneracy.
Definition zz_eq (a b : Z * Z) : bool := Z.eqb (fst a) (fst b) && Z.eqb (snd a) (snd b).
(* classes (numbered by first occurrence) and first representatives *)
Definition class_flat (keys : list (Z * Z)) : list Z :=
  map (fun i => Z.of_nat (class_of (Z * Z) zz_eq keys i (0, 0)%Z)) (seq 0 (length keys))
  ++ [777%Z] ++ map Z.of_nat (reps (Z * Z) zz_eq keys (0, 0)%Z).

(* ---- adjoint gradient (C08) ---------------------------------------------------------------- *)
Definition unit_mat (n r c : nat) : gmat :=
  map (fun i => map (fun j => if Nat.eqb i r && Nat.eqb j c then g1 else g0) (seq 0 n)) (seq 0 n).
Definition gdot (u v : list G) : G := @dot GK u v.
Definition objective (d2 : nat) (pts : list (ptensor GK)) (props : list (gmat * gmat)) (rho0 target : list G) (N : nat) : G :=
  let pr := fun k => nth k props ([], []) in
  let st := compute_dynamics d2 pts (fun _ => None) (fun _ => None)
              (fun k => @matT GK (fst (pr k))) (fun k => @matT GK (snd (pr k))) false N rho0 in
  gdot target (nth 0 st []).
Fixpoint replace_nth {A} (n : nat) (x : A) (l : list A) : list A :=
  match l, n with [], _ => [] | _ :: t, O => x :: t | h :: t, S n' => h :: replace_nth n' x t end.
(* the rank-4 tensor of step i: T[a,b,c,d] = objective with P1_i := E_{b a}, P2_i := E_{d c} *)
Definition grad_flat (d2 : nat) pts props rho0 target (N i : nat) : list Z :=
  flatG (flat_map (fun a => flat_map (fun b => flat_map (fun c => map (fun e =>
     objective d2 pts (replace_nth i (unit_mat d2 b a, unit_mat d2 e c) props) rho0 target N)
     (seq 0 d2)) (seq 0 d2)) (seq 0 d2)) (seq 0 d2)).

(* ---- mean-field field update on binary64 (C09, C15) ----------------------------------------- *)
From OQ Require Import Model.MeanField.
Definition fhalf (x : float) : float := (x / 2)%float.
Definition fnat (n : nat) : float := of_Z (Z.of_nat n).
(* field_eom(t, states, a) = alpha + beta*t + gamma*a, evaluated left to right *)
Definition feom (alpha beta gamma : float) (t : float) (k : nat) (a : float) : float :=
  ((alpha + beta * t) + gamma * a)%float.
Definition flat_calls (cs : list (float * nat * float)) : list Z :=
  flat_map (fun c => let '(t, k, a) := c in flat_fbits t ++ [Z.of_nat k] ++ flat_fbits a) cs.
Definition meanfield_flat (which : bool) (alpha beta gamma start dt a0 : float) (N : nat) : list Z :=
  let r := if which then mft float PrimFloat.add PrimFloat.mul fhalf fnat (feom alpha beta gamma) start dt N 0 a0
           else cdwf float PrimFloat.add PrimFloat.mul fhalf fnat (feom alpha beta gamma) start dt N a0 in
  flat_map flat_fbits (fst r) ++ [888%Z] ++ flat_calls (snd r).

(* ---- imaginary-time (Gibbs) path sum (C11) --------------------------------------------------- *)
(* TIBaseBackend with coefficients c_k = -m_k ln 2 and coupling eigenvalues o (non-negative
   integers): every weight exp(-c_k o_a o_b) is the integer 2^(m_k o_a o_b).  Column b of the
   un-normalised state after n slices is the path sum started from the unit vector e_b with
   identity basis change and half-step propagator P on both sides of every slice. *)
Definition zmat := list (list Z).
Definition pow2w (mk : Z) (oa ob : Z) : Z := (2 ^ (mk * oa * ob))%Z.
Definition gibbs_flat (d : nat) (P : zmat) (o ms : list Z) (n : nat) : list Z :=
  let W := fun dk => map (fun a => map (fun b => pow2w (nth dk ms 0%Z) (nth a o 0%Z) (nth b o 0%Z)) (seq 0 d)) (seq 0 d) in
  let col := fun b =>
    @state ZRing d (fun j => pow2w (nth 0 ms 0%Z) (nth j o 0%Z) (nth j o 0%Z))
           (fun kp k => Some (W (k - kp)%nat)) (@mid ZRing d) (@mid ZRing d) (fun _ => (P, P))
           (map (fun i => if Nat.eqb i b then 1%Z else 0%Z) (seq 0 d)) n in
  (* row-major: entry (a, b) = (col b)[a] *)
  flat_map (fun a => map (fun b => nth a (col b) 0%Z) (seq 0 d)) (seq 0 d).

(* ---- evaluation times of user callables (C15) ---------------------------------------------------- *)
From OQ Require Import Model.TimeGrid.
Definition prop_times_flat (start dt : float) (n : nat) : list Z :=
  flat_map flat_fbits (all_prop_times start dt n).
Definition float_steps_flat (dt start : float) (ts : list float) : list Z :=
  map (fun t => step_of_time dt start t) ts.
