(* Executable glue used by the generated case files: instantiation of the models
   at Gaussian integers and flat printers.  Definitions only. *)
From Coq Require Import ZArith List Bool PrimFloat.
From OQ Require Import Lib.RingSum Lib.Tensor Lib.Mat Lib.PyFloat Model.Dyn Model.PT Model.Control.
Import ListNotations.

Definition GK : Ring := GRing.
Definition gmat := list (list G).

Definition gS (z : G) : T GK := @Sc GK z.
Definition gV (l : list (T GK)) : T GK := @Vec GK l.
Definition mkmpo (da db : nat) (r4 : bool) (t : T GK) : mpo GK := @Build_mpo GK da db r4 t.
Definition mkpt (din dout : nat) (tin tout : option (T GK)) (ms : list (option (mpo GK)))
  (caps : list (list G)) : ptensor GK := @Build_ptensor GK din dout tin tout ms caps.

Definition flatG (l : list G) : list Z := flat_map (fun z => [fst z; snd z]) l.
Definition flatM (m : gmat) : list Z := flatG (concat m).
Definition flatOptM (m : option gmat) : list Z :=
  match m with None => [0%Z] | Some m => 1%Z :: flatM m end.

(* Control.get_controls as matrices *)
Definition ctl_pre (d2 : nat) (hist : list (add gmat)) dt start (step : Z) : option gmat :=
  eval_opt gmat (@mmul GK) (@mid GK d2) (pre_seq gmat hist dt start step).
Definition ctl_post (d2 : nat) (hist : list (add gmat)) dt start (step : Z) : option gmat :=
  eval_opt gmat (@mmul GK) (@mid GK d2) (post_seq gmat hist dt start step).

Definition ctl_query d2 hist dt start (steps : list Z) : list Z :=
  flat_map (fun s => flatOptM (ctl_pre d2 hist dt start s) ++ flatOptM (ctl_post d2 hist dt start s)) steps.

Definition chain_query d2 nsites (hist : list (cadd gmat)) (post : bool) (steps : list Z) : list Z :=
  flat_map (fun s => match chain_controls gmat (@mmul GK) (@mid GK d2) nsites hist post s with
                     | None => [0%Z]
                     | Some l => 1%Z :: flat_map flatOptM l
                     end) steps.

(* compute_dynamics with a Control object *)
Definition dyn_ctl (dsys : nat) (pts : list (ptensor GK)) (hist : list (add gmat)) dt start
    (props : list (gmat * gmat)) (record_all : bool) (N : nat) (rho0 : list G) : list Z :=
  let pr := fun k => nth k props ([], []) in
  flat_map flatG
    (compute_dynamics dsys pts
       (fun k => option_map (@matT GK) (ctl_pre dsys hist dt start (Z.of_nat k)))
       (fun k => option_map (@matT GK) (ctl_post dsys hist dt start (Z.of_nat k)))
       (fun k => @matT GK (fst (pr k))) (fun k => @matT GK (snd (pr k)))
       record_all N rho0).
