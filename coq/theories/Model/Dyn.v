(* The control flow of oqupy.system_dynamics.compute_dynamics, over an abstract
   augmented-state type V.  Mirrors the loop

     for step in range(num_steps+1):
         pre-control(step); if step == num_steps: break
         if record_all: record(step)
         post-control(step); first half propagator; PT-MPOs in list order; second half
     record(num_steps)

   No proofs here (see Proofs/DynSpec.v). *)
From Coq Require Import List.
Import ListNotations.

Section Dyn.
Variables V St : Type.
Variables pre post p1 p2 : nat -> V -> V.
Variable env : nat -> nat -> V -> V.      (* env j k : j-th process tensor, step k *)
Variable m : nat.                         (* number of process tensors *)
Variable readout : nat -> V -> St.

Definition apply_envs (k : nat) (v : V) : V :=
  fold_left (fun v j => env j k v) (seq 0 m) v.

Definition step (k : nat) (v : V) : V :=
  p2 k (apply_envs k (p1 k (post k v))).

(* record_all = True : n steps remaining, currently at step k *)
Fixpoint run_from (n k : nat) (v : V) : list St :=
  let v' := pre k v in
  match n with
  | O => [readout k v']
  | S n' => readout k v' :: run_from n' (S k) (step k v')
  end.

(* record_all = False *)
Fixpoint final_from (n k : nat) (v : V) : V :=
  let v' := pre k v in
  match n with
  | O => v'
  | S n' => final_from n' (S k) (step k v')
  end.

Definition run (record_all : bool) (N : nat) (v0 : V) : list St :=
  if record_all then run_from N 0 v0 else [readout N (final_from N 0 v0)].

(* specification: the augmented state the moment it is measured at step k *)
Fixpoint spec_state (v0 : V) (k : nat) : V :=
  match k with
  | O => pre 0 v0
  | S k' => pre k (step k' (spec_state v0 k'))
  end.

End Dyn.
