(* oqupy.operators: superoperator constructions on row-major vectorised density matrices,
   as executable list matrices (kron), plus the index-pair form used in proofs. *)
From Coq Require Import Arith List Bool.
From OQ Require Import Lib.RingSum Lib.Mat.
Import ListNotations.

Section SuperOps.
Variable K : Ring.
Open Scope rg_scope.
Local Notation mat := (list (list K)).

Definition kron (a b : mat) : mat :=
  flat_map (fun ra => map (fun rb => flat_map (fun x => map (fun y => x * y) rb) ra) b) a.
Definition madd (a b : mat) : mat := map (fun p => map (fun q => fst q + snd q) (combine (fst p) (snd p))) (combine a b).
Definition msub (a b : mat) : mat := map (fun p => map (fun q => fst q - snd q) (combine (fst p) (snd p))) (combine a b).
Definition mscale (c : K) (a : mat) : mat := map (map (fun x => c * x)) a.

Definition left_super (d : nat) (a : mat) : mat := kron a (mid d).
Definition right_super (d : nat) (a : mat) : mat := kron (mid d) (mtranspose a).
Definition left_right_super (l r : mat) : mat := kron l (mtranspose r).
Definition commutator (d : nat) (a : mat) : mat := msub (left_super d a) (right_super d a).
Definition acommutator (d : nat) (a : mat) : mat := madd (left_super d a) (right_super d a).

(* Tr(O rho) for rho given as a row-major vector *)
Definition expectation (d : nat) (o : mat) (rho : list K) : K :=
  sumn d (fun i => sumn d (fun j => nth j (nth i o []) r0 * nth (j * d + i) rho r0)).
End SuperOps.
Arguments kron {K}. Arguments left_super {K}. Arguments right_super {K}. Arguments left_right_super {K}.
Arguments commutator {K}. Arguments acommutator {K}. Arguments expectation {K}. Arguments madd {K}. Arguments msub {K}. Arguments mscale {K}.
