(* oqupy.operators: superoperator constructions on row-major vectorised density matrices,
   as executable list matrices (kron), plus the index-pair form used in proofs. *)
From Coq Require Import Arith List Bool.
From OQ Require Import Lib.RingSum Lib.Mat.
Import ListNotations.

Section SuperOps.
Variable K : Ring.
Open Scope rg_scope.
Local Notation mat := (list (list K)).

Definition kron (a b : mat) : mat :=
  flat_map (fun ra => map (fun rb => flat_map (fun x => map (fun y => x * y) rb) ra) b) a.
Definition madd (a b : mat) : mat := map (fun p => map (fun q => fst q + snd q) (combine (fst p) (snd p))) (combine a b).
Definition msub (a b : mat) : mat := map (fun p => map (fun q => fst q - snd q) (combine (fst p) (snd p))) (combine a b).
Definition mscale (c : K) (a : mat) : mat := map (map (fun x => c * x)) a.

Definition left_super (d : nat) (a : mat) : mat := kron a (mid d).
Definition right_super (d : nat) (a : mat) : mat := kron (mid d) (mtranspose a).
Definition left_right_super (l r : mat) : mat := kron l (mtranspose r).
Definition commutator (d : nat) (a : mat) : mat := msub (left_super d a) (right_super d a).
Definition acommutator (d : nat) (a : mat) : mat := madd (left_super d a) (right_super d a).

(* Tr(O rho) for rho given as a row-major vector *)
Definition expectation (d : nat) (o : mat) (rho : list K) : K :=
  sumn d (fun i => sumn d (fun j => nth j (nth i o []) r0 * nth (j * d + i) rho r0)).
End SuperOps.
Arguments kron {K}. Arguments left_super {K}. Arguments right_super {K}. Arguments left_right_super {K}.
Arguments commutator {K}. Arguments acommutator {K}. Arguments expectation {K}. Arguments madd {K}. Arguments msub {K}. Arguments mscale {K}.

(* ---- index-pair form: superoperators as functions of ((i,j),(k,l)) ------------------------
   Row-major vectorisation: row index i*d + j <-> (i,j), column index k*d + l <-> (k,l).
   These are the definitions the theorems are about; [tab_super] turns them into the matrix the
   code builds with np.kron, which is what the correspondence compares. *)
Section PairForm.
Variable K : Ring.
Open Scope rg_scope.
Variable conj : K -> K.
Variable iu : K.
Definition M2 := nat -> nat -> K.

Definition delta (a b : nat) : K := if Nat.eqb a b then r1 else r0.
Definition ls_f (A : M2) (i j k l : nat) : K := A i k * delta j l.            (* kron(A, 1)   *)
Definition rs_f (B : M2) (i j k l : nat) : K := delta i k * B l j.            (* kron(1, B^T) *)
Definition lrs_f (A B : M2) (i j k l : nat) : K := A i k * B l j.             (* kron(A, B^T) *)
Definition dag (A : M2) : M2 := fun i j => conj (A j i).
Definition mm (d : nat) (A B : M2) : M2 := fun i k => sumn d (fun x => A i x * B x k).

(* twice the Lindbladian of oqupy.system._liouvillian (no 1/2 needed in the ring):
   2L = -2i (H x 1 - 1 x H^T) + sum_n gamma_n (2 A_n x A_n^* - (A_n^+ A_n) x 1 - 1 x (A_n^+ A_n)^T) *)
Definition diss2 (d : nat) (A : M2) (i j k l : nat) : K :=
  let AdA := mm d (dag A) A in
  (r1 + r1) * lrs_f A (dag A) i j k l - (ls_f AdA i j k l + rs_f AdA i j k l).
Fixpoint liouv2_diss (d : nat) (terms : list (K * M2)) (i j k l : nat) : K :=
  match terms with
  | [] => r0
  | (g, A) :: t => g * diss2 d A i j k l + liouv2_diss d t i j k l
  end.
Definition liouv2 (d : nat) (H : M2) (terms : list (K * M2)) (i j k l : nat) : K :=
  - ((r1 + r1) * iu) * (ls_f H i j k l - rs_f H i j k l) + liouv2_diss d terms i j k l.

Definition tab_super (d : nat) (f : nat -> nat -> nat -> nat -> K) : list (list K) :=
  flat_map (fun i => map (fun j =>
     flat_map (fun k => map (fun l => f i j k l) (seq 0 d)) (seq 0 d)) (seq 0 d)) (seq 0 d).
Definition fun_of (m : list (list K)) : M2 := fun i j => nth j (nth i m []) r0.
End PairForm.
Arguments ls_f {K}. Arguments rs_f {K}. Arguments lrs_f {K}. Arguments dag {K}. Arguments mm {K}.
Arguments liouv2 {K}. Arguments diss2 {K}. Arguments liouv2_diss {K}. Arguments tab_super {K}. Arguments fun_of {K}. Arguments delta {K}.
