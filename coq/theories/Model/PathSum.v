(* The exact (uncompressed) value of the TEMPO / PT-TEMPO tensor network as a sum over paths.
   Time point k (k = 0 .. n-1) sits in the middle of step k:
       v_k = Uin . P1_k . cur_k ;  an index j_k of the coupling eigenbasis is picked ;
       cur_{k+1} = P2_k . Uout . e_{j_k}
   and the pair (kp, k), kp < k, contributes coef kp k evaluated at (j_kp, j_k), the pair (k, k)
   the diagonal entry of the dk = 0 influence.  [coef] is what Model/Schedule.v says the
   back-end uses ([None] = beyond the memory).  Paths are lists, newest index first.
   Executable over any ring; no proofs here. *)
From Coq Require Import ZArith List Bool Arith.
From OQ Require Import Lib.RingSum Lib.Mat.
Import ListNotations.

Section PathSum.
Variable K : Ring.
Open Scope rg_scope.
Local Notation mat := (list (list K)).

Variable d2 : nat.
Variable diag0 : nat -> K.                          (* diagonal of influence(0) *)
Variable coef : nat -> nat -> option mat.           (* kp k -> matrix [earlier][later] *)
Variables uin uout : mat.
Variable props : nat -> mat * mat.
Variable rho0 : list K.

Definition mcol (m : mat) (j : nat) : list K := map (fun r => nth j r r0) m.
Definition entry (m : mat) (i j : nat) : K := nth j (nth i m []) r0.

(* state entering step k, given the path so far (newest first) *)
Definition cur (k : nat) (path : list nat) : list K :=
  match k with
  | O => rho0
  | S k' => mvec (snd (props k')) (mcol uout (hd 0 path))
  end.

(* product of the coefficients coupling every earlier point of [path] to the new index j at point k *)
Fixpoint cells (k : nat) (j : nat) (kp : nat) (older_first : list nat) : K :=
  match older_first with
  | [] => r1
  | jp :: rest =>
    (match coef kp k with Some m => entry m jp j | None => r1 end) * cells k j (S kp) rest
  end.

Definition extend (k : nat) (pa : list nat * K) : list (list nat * K) :=
  let '(path, a) := pa in
  let v := mvec uin (mvec (fst (props k)) (cur k path)) in
  map (fun j => (j :: path, a * nth j v r0 * diag0 j * cells k j 0 (rev path))) (seq 0 d2).

Fixpoint amplitudes (n : nat) : list (list nat * K) :=
  match n with
  | O => [([], r1)]
  | S k => flat_map (extend k) (amplitudes k)
  end.

Definition vadd (u v : list K) : list K := map (fun p => fst p + snd p) (combine u v).
Definition vscale (c : K) (v : list K) : list K := map (fun x => c * x) v.
Definition vzero : list K := repeat r0 d2.

(* state after n steps *)
Definition state (n : nat) : list K :=
  match n with
  | O => rho0
  | S k => fold_left (fun acc pa => vadd acc (vscale (snd pa) (cur n (fst pa)))) (amplitudes n) vzero
  end.

Definition states (n : nat) : list (list K) := map state (seq 0 (S n)).
End PathSum.
Arguments states {K}. Arguments state {K}.
