(* The exact (uncompressed) value of the TEMPO / PT-TEMPO tensor network as a sum over paths.
   Time point k (k = 0 .. n-1) sits in the middle of step k:
       v_k = Uin . P1_k . cur_k ;  an index j_k of the coupling eigenbasis is picked ;
       cur_{k+1} = P2_k . Uout . e_{j_k}
   and the pair (kp, k), kp < k, contributes coef kp k evaluated at (j_kp, j_k), the pair (k, k)
   the diagonal entry of the dk = 0 influence.  [coef] is what Model/Schedule.v says the
   back-end uses ([None] = beyond the memory).  Paths are lists, newest index first.
   Executable over any ring; no proofs here. *)
From Coq Require Import ZArith List Bool Arith.
From OQ Require Import Lib.RingSum Lib.Mat.
Import ListNotations.

Section PathSum.
Variable K : Ring.
Open Scope rg_scope.
Local Notation mat := (list (list K)).

Variable d2 : nat.
Variable diag0 : nat -> K.                          (* diagonal of influence(0) *)
Variable coef : nat -> nat -> option mat.           (* kp k -> matrix [earlier][later] *)
Variables uin uout : mat.
Variable props : nat -> mat * mat.
Variable rho0 : list K.

Definition mcol (m : mat) (j : nat) : list K := map (fun r => nth j r r0) m.
Definition entry (m : mat) (i j : nat) : K := nth j (nth i m []) r0.

(* state entering step k, given the path so far (newest first) *)
Definition cur (k : nat) (path : list nat) : list K :=
  match k with
  | O => rho0
  | S k' => mvec (snd (props k')) (mcol uout (hd 0 path))
  end.

(* product of the coefficients coupling every earlier point of [path] to the new index j at point k *)
Fixpoint cells (k : nat) (j : nat) (kp : nat) (older_first : list nat) : K :=
  match older_first with
  | [] => r1
  | jp :: rest =>
    (match coef kp k with Some m => entry m jp j | None => r1 end) * cells k j (S kp) rest
  end.

(* amplitude of a path (newest index first); its length is the number of time points *)
Fixpoint amp (path : list nat) : K :=
  match path with
  | [] => r1
  | j :: older =>
    let k := length older in
    amp older * nth j (mvec uin (mvec (fst (props k)) (cur k older))) r0 * diag0 j * cells k j 0 (rev older)
  end.

Fixpoint all_paths (n : nat) : list (list nat) :=
  match n with
  | O => [[]]
  | S k => flat_map (fun p => map (fun j => j :: p) (seq 0 d2)) (all_paths k)
  end.

(* component s of the state after n >= 1 steps *)
Definition state_entry (n s : nat) : K :=
  suml (map (fun p => amp p * nth s (cur n p) r0) (all_paths n)).

Definition state (n : nat) : list K :=
  match n with
  | O => rho0
  | S _ => map (state_entry n) (seq 0 d2)
  end.

Definition states (n : nat) : list (list K) := map state (seq 0 (S n)).
End PathSum.
Arguments states {K}. Arguments state {K}. Arguments amp {K}. Arguments all_paths d2. Arguments state_entry {K}. Arguments cur {K}. Arguments cells {K}.
