(* oqupy.process_tensor: the HDF5 container of FileProcessTensor, export() and
   import_process_tensor(), as functions on an abstract file.  Values are
   [Some x] or [None] = NaN (the HDF5None sentinel is the 1-element NaN array).
   Also the writer protocol with the 'writing' flag (C17).  No proofs here. *)
From Coq Require Import Arith List Bool.
Import ListNotations.

Section PTFile.
Variable X : Type.            (* tensor entries (complex numbers) *)
Variable D : Type.            (* dt values *)
Variable S : Type.            (* strings *)

Definition val := option X.                        (* None = NaN *)
Definition tensor := (list nat * list val)%type.   (* shape, row-major data *)
Definition slot := option tensor.                  (* None = resized but never written *)

Definition hdf5_none : tensor := ([1], [None]).
Definition is_hdf5_none (t : tensor) : bool :=
  match t with
  | ([1], [None]) => true
  | _ => false
  end.

Inductive res (A : Type) := Ok (a : A) | IndexErr | ReshapeErr.
Arguments Ok {A}. Arguments IndexErr {A}. Arguments ReshapeErr {A}.

Fixpoint upd_slot (j : nat) (x : slot) (l : list slot) : list slot :=
  match l, j with
  | [], _ => []
  | _ :: t, O => x :: t
  | h :: t, Datatypes.S j' => h :: upd_slot j' x t
  end.

(* _set_data_and_shape *)
Definition set_slot (step : nat) (t : option tensor) (sl : list slot) : list slot :=
  let t' := match t with None => hdf5_none | Some t => t end in
  upd_slot step (Some t') (sl ++ repeat None (Datatypes.S step - length sl)).

(* _get_data_and_shape *)
Definition get_slot (step : nat) (sl : list slot) : res (option tensor) :=
  match nth_error sl step with
  | None => IndexErr
  | Some None => ReshapeErr
  | Some (Some t) => Ok (if is_hdf5_none t then None else Some t)
  end.

Record file := {
  f_writing : bool;
  f_hs : nat; f_dt : option D; f_tin : option tensor; f_tout : option tensor;
  f_name : S; f_desc : S;
  f_init : list slot; f_mpos : list slot; f_caps : list slot
}.

(* an in-memory (Simple) process tensor *)
Record spt := {
  s_hs : nat; s_dt : option D; s_tin : option tensor; s_tout : option tensor;
  s_name : S; s_desc : S;
  s_init : option tensor; s_mpos : list tensor; s_caps : list tensor
}.

(* FileProcessTensor(mode=write...) : _create_file *)
Definition create (p : spt) : file :=
  {| f_writing := true;
     f_hs := s_hs p; f_dt := s_dt p; f_tin := s_tin p; f_tout := s_tout p;
     f_name := s_name p; f_desc := s_desc p;
     f_init := set_slot 0 None [None]; f_mpos := []; f_caps := [] |}.

Definition set_initial (t : option tensor) (f : file) : file :=
  {| f_writing := f_writing f; f_hs := f_hs f; f_dt := f_dt f; f_tin := f_tin f; f_tout := f_tout f;
     f_name := f_name f; f_desc := f_desc f;
     f_init := set_slot 0 t (f_init f); f_mpos := f_mpos f; f_caps := f_caps f |}.
Definition set_mpo (step : nat) (t : option tensor) (f : file) : file :=
  {| f_writing := f_writing f; f_hs := f_hs f; f_dt := f_dt f; f_tin := f_tin f; f_tout := f_tout f;
     f_name := f_name f; f_desc := f_desc f;
     f_init := f_init f; f_mpos := set_slot step t (f_mpos f); f_caps := f_caps f |}.
Definition set_cap (step : nat) (t : option tensor) (f : file) : file :=
  {| f_writing := f_writing f; f_hs := f_hs f; f_dt := f_dt f; f_tin := f_tin f; f_tout := f_tout f;
     f_name := f_name f; f_desc := f_desc f;
     f_init := f_init f; f_mpos := f_mpos f; f_caps := set_slot step t (f_caps f) |}.
(* the name / description setters of a file object in write mode: the attribute is rewritten, nothing else *)
Definition set_name (n : S) (f : file) : file :=
  {| f_writing := f_writing f; f_hs := f_hs f; f_dt := f_dt f; f_tin := f_tin f; f_tout := f_tout f;
     f_name := n; f_desc := f_desc f;
     f_init := f_init f; f_mpos := f_mpos f; f_caps := f_caps f |}.
Definition set_desc (n : S) (f : file) : file :=
  {| f_writing := f_writing f; f_hs := f_hs f; f_dt := f_dt f; f_tin := f_tin f; f_tout := f_tout f;
     f_name := f_name f; f_desc := n;
     f_init := f_init f; f_mpos := f_mpos f; f_caps := f_caps f |}.
Definition close (f : file) : file :=
  {| f_writing := false; f_hs := f_hs f; f_dt := f_dt f; f_tin := f_tin f; f_tout := f_tout f;
     f_name := f_name f; f_desc := f_desc f;
     f_init := f_init f; f_mpos := f_mpos f; f_caps := f_caps f |}.

Fixpoint set_all (setter : nat -> option tensor -> file -> file) (k : nat) (ts : list tensor) (f : file) : file :=
  match ts with
  | [] => f
  | t :: ts' => set_all setter (Datatypes.S k) ts' (setter k (Some t) f)
  end.

(* the writer as a list of operations (C17 enumerates its prefixes) *)
Inductive wop := WInit (t : option tensor) | WMpo (k : nat) (t : tensor) | WCap (k : nat) (t : tensor) | WClose
                | WName (n : S) | WDesc (n : S).
Definition wstep (f : file) (o : wop) : file :=
  match o with
  | WInit t => set_initial t f
  | WMpo k t => set_mpo k (Some t) f
  | WCap k t => set_cap k (Some t) f
  | WClose => close f
  | WName n => set_name n f
  | WDesc n => set_desc n f
  end.
Fixpoint number_from {A} (k : nat) (l : list A) : list (nat * A) :=
  match l with [] => [] | x :: t => (k, x) :: number_from (Datatypes.S k) t end.
Definition export_ops (p : spt) : list wop :=
  WInit (s_init p) :: map (fun kt => WMpo (fst kt) (snd kt)) (number_from 0 (s_mpos p))
                  ++ map (fun kt => WCap (fst kt) (snd kt)) (number_from 0 (s_caps p)) ++ [WClose].
(* SimpleProcessTensor.export *)
Definition export (p : spt) : file := fold_left wstep (export_ops p) (create p).

(* import_process_tensor(filename, 'simple'): read loops *)
Fixpoint read_mpos (fuel k : nat) (sl : list slot) : res (list tensor) :=
  match fuel with
  | O => Ok []
  | Datatypes.S fuel' =>
    match get_slot k sl with
    | IndexErr => Ok []
    | ReshapeErr => ReshapeErr
    | Ok None => ReshapeErr            (* np.array(None) would be stored: not a tensor *)
    | Ok (Some t) => match read_mpos fuel' (Datatypes.S k) sl with
                     | Ok r => Ok (t :: r) | e => e end
    end
  end.
Fixpoint read_caps (fuel k : nat) (sl : list slot) : res (list tensor) :=
  match fuel with
  | O => Ok []
  | Datatypes.S fuel' =>
    match get_slot k sl with
    | IndexErr => Ok []                (* get_cap_tensor maps IndexError to None *)
    | ReshapeErr => ReshapeErr
    | Ok None => Ok []
    | Ok (Some t) => match read_caps fuel' (Datatypes.S k) sl with
                     | Ok r => Ok (t :: r) | e => e end
    end
  end.

Inductive opened (A : Type) := Clean (a : A) | Warned (a : A) | Failed.
Arguments Clean {A}. Arguments Warned {A}. Arguments Failed {A}.

Definition import_simple (f : file) : res spt :=
  match get_slot 0 (f_init f), read_mpos (Datatypes.S (length (f_mpos f))) 0 (f_mpos f),
        read_caps (Datatypes.S (length (f_caps f))) 0 (f_caps f) with
  | Ok i, Ok ms, Ok cs =>
    Ok {| s_hs := f_hs f; s_dt := f_dt f; s_tin := f_tin f; s_tout := f_tout f;
          s_name := f_name f; s_desc := f_desc f; s_init := i; s_mpos := ms; s_caps := cs |}
  | _, _, _ => ReshapeErr
  end.

(* what is on disk after the writer died: nothing usable, or some state whose flag is set *)
Inductive disk := Unreadable | Content (f : file).
Definition open_read (d : disk) : opened file :=
  match d with
  | Unreadable => Failed
  | Content f => if f_writing f then Warned f else Clean f
  end.

(* file-creation decision table *)
Inductive mode := MRead | MWrite | MOverwrite.
Inductive outcome := Created | Replaced | OpenedExisting | Refused.
Definition open_mode (m : mode) (exists_ : bool) : outcome :=
  match m, exists_ with
  | MRead, true => OpenedExisting
  | MRead, false => Refused
  | MWrite, true => Refused
  | MWrite, false => Created
  | MOverwrite, true => Replaced
  | MOverwrite, false => Created
  end.
(* _removeable *)
Definition removeable (m : mode) (filename_given : bool) : bool :=
  match m with
  | MRead => false
  | MWrite => negb filename_given
  | MOverwrite => true
  end.

(* the file object after it has been created / opened: close() and remove() in any order and number.
   remove() closes the handle first, then deletes the file if the object is entitled to (else it raises FileExistsError);
   the entitlement is fixed at construction and does not depend on whether the handle is still open.
   [late_check = true] is a variant in which the entitlement is looked at only while the handle is open. *)
Record fobj := { o_mode : mode; o_given : bool; o_open : bool; o_there : bool }.
Inductive fop := FClose | FRemove.
Definition fo_step (late_check : bool) (o : fobj) (op : fop) : fobj * bool :=
  match op with
  | FClose => ({| o_mode := o_mode o; o_given := o_given o; o_open := false; o_there := o_there o |}, false)
  | FRemove =>
    let checked := if late_check then o_open o else true in
    if checked && negb (removeable (o_mode o) (o_given o))
    then ({| o_mode := o_mode o; o_given := o_given o; o_open := false; o_there := o_there o |}, true)
    else ({| o_mode := o_mode o; o_given := o_given o; o_open := false; o_there := false |}, false)
  end.
(* the refusals and the existence of the file after every operation *)
Fixpoint fo_run (late_check : bool) (o : fobj) (ops : list fop) : list (bool * bool) :=
  match ops with
  | [] => []
  | op :: t => let '(o', refused) := fo_step late_check o op in (refused, o_there o') :: fo_run late_check o' t
  end.
Fixpoint fo_final (late_check : bool) (o : fobj) (ops : list fop) : fobj :=
  match ops with [] => o | op :: t => fo_final late_check (fst (fo_step late_check o op)) t end.

(* pt_tempo_compute / PtTempo(process_tensor_file=<name>, overwrite=..., unique=...): the mode the file is created in
   depends on the overwrite flag only *)
Definition api_mode (unique overwrite : bool) : mode := if overwrite then MOverwrite else MWrite.

End PTFile.


Arguments Ok {A}. Arguments IndexErr {A}. Arguments ReshapeErr {A}.
Arguments Clean {A}. Arguments Warned {A}. Arguments Failed {A}.
