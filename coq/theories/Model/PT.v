(* Concrete tensor semantics of oqupy.process_tensor (get_mpo_tensor, caps) and
   of the contraction primitives of oqupy.system_dynamics
   (_apply_system_superoperator, _apply_pt_mpos, _apply_caps), over any ring.
   The augmented state is a tensor indexed by  o :: bonds  (system leg first;
   the code keeps it last — leg *position* is not observable).  No proofs here. *)
From Coq Require Import Arith List Bool.
From OQ Require Import Lib.RingSum Lib.Tensor Model.Dyn.
Import ListNotations.

Section PT.
Variable K : Ring.
Open Scope rg_scope.
Local Notation T := (T K).

(* augmented state: bond dimensions (one per environment) and the tensor *)
Definition aug := (list nat * T)%type.

Definition init_aug (dsys m : nat) (rho : list K) : aug :=
  (repeat 1 m, tab (dsys :: repeat 1 m)
                   (fun idx => match idx with o :: _ => nth o rho r0 | [] => r0 end)).

(* _apply_system_superoperator: new[o] = sum_i S[o,i] cur[i];  None = skip *)
Definition apply_sys (dsys : nat) (So : option T) (v : aug) : aug :=
  match So with
  | None => v
  | Some Sm =>
    let '(bd, cur) := v in
    (bd, tab (dsys :: bd) (fun idx =>
       match idx with
       | o :: bs => sumn dsys (fun i => get [o; i] Sm * get (i :: bs) cur)
       | [] => r0
       end))
  end.

(* a stored MPO tensor: shape (da, db, in_dim[, out_dim]) *)
Record mpo := { m_da : nat; m_db : nat; m_rank4 : bool; m_t : T }.

Record ptensor := {
  pt_dim_in : nat;                       (* internal input dimension  *)
  pt_dim_out : nat;                      (* internal output dimension *)
  pt_tin : option T;                     (* transform_in  : rho_dim x in_dim  *)
  pt_tout : option T;                    (* transform_out : out_dim x rho_dim *)
  pt_mpos : list (option mpo);           (* None: TrivialProcessTensor        *)
  pt_caps : list (list K)
}.

(* get_mpo_tensor(step, transformed=True) as a function of (a, a', i', o') *)
Definition mpo_fun (p : ptensor) (M : mpo) (a a' i' o' : nat) : K :=
  let base := fun i o =>
    if m_rank4 M then get [a; a'; i; o] (m_t M)
    else if Nat.eqb i o then get [a; a'; i] (m_t M) else r0 in
  let with_in := fun i' o =>
    match pt_tin p with
    | None => base i' o
    | Some Tin => sumn (pt_dim_in p) (fun i => get [i'; i] Tin * base i o)
    end in
  match pt_tout p with
  | None => with_in i' o'
  | Some Tout => sumn (pt_dim_out p) (fun o => with_in i' o * get [o; o'] Tout)
  end.

(* _apply_pt_mpos, one tensor: contracts bond leg j and the system leg *)
Definition apply_mpo (dsys : nat) (j : nat) (p : ptensor) (M : option mpo) (v : aug) : aug :=
  match M with
  | None => v
  | Some M =>
    let '(bd, cur) := v in
    let bd' := upd j (m_db M) bd in
    (bd', tab (dsys :: bd') (fun idx =>
       match idx with
       | o :: bs =>
         let a' := nth j bs 0 in
         sumn (m_da M) (fun a => sumn dsys (fun i =>
           mpo_fun p M a a' i o * get (i :: upd j a bs) cur))
       | [] => r0
       end))
  end.

(* _apply_caps *)
Fixpoint cap_weight (caps : list (list K)) (bs : list nat) : K :=
  match caps, bs with
  | c :: caps', b :: bs' => nth b c r0 * cap_weight caps' bs'
  | _, _ => r1
  end.

Definition apply_caps (dsys : nat) (caps : list (list K)) (v : aug) : list K :=
  let '(bd, cur) := v in
  map (fun o => sum_idx bd (fun bs => cap_weight caps bs * get (o :: bs) cur)) (seq 0 dsys).

(* compute_dynamics *)
Definition compute_dynamics
    (dsys : nat) (pts : list ptensor)
    (pre post : nat -> option T) (p1 p2 : nat -> T)
    (record_all : bool) (N : nat) (rho0 : list K) : list (list K) :=
  let m := length pts in
  let dummy := Build_ptensor 0 0 None None [] [] in
  run aug (list K)
      (fun k => apply_sys dsys (pre k)) (fun k => apply_sys dsys (post k))
      (fun k => apply_sys dsys (Some (p1 k))) (fun k => apply_sys dsys (Some (p2 k)))
      (fun j k => let p := nth j pts dummy in
                  apply_mpo dsys j p (nth k (pt_mpos p) None))
      m
      (fun k => apply_caps dsys (map (fun p => nth k (pt_caps p) []) pts))
      record_all N (init_aug dsys m rho0).

End PT.

Arguments Build_mpo {K}. Arguments Build_ptensor {K}.
Arguments compute_dynamics {K}.
