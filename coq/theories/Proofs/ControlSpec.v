From Coq Require Import ZArith List Bool Lia PrimFloat.
From OQ Require Import Lib.PyFloat Model.Control.
Import ListNotations.

Section ControlSpec.
Variable A : Type.
Local Notation add := (add A).

(* ---- stable insertion sort ------------------------------------------- *)
Section Stable.
Variable B : Type.
Variable lt : B -> B -> bool.
Variable P : B -> bool.
(* nothing strictly below a P-element is itself a P-element *)
Hypothesis compat : forall x y, P x = true -> lt y x = true -> P y = false.

Lemma filter_insert x l :
  filter P (insert B lt x l) = if P x then x :: filter P l else filter P l.
Proof.
  induction l as [|y l IH]; cbn [insert filter].
  - destruct (P x); reflexivity.
  - destruct (lt y x) eqn:Hlt; cbn [filter].
    + rewrite IH. destruct (P x) eqn:Hx.
      * rewrite (compat x y Hx Hlt). reflexivity.
      * reflexivity.
    + destruct (P x); reflexivity.
Qed.

Lemma filter_isort l : filter P (isort B lt l) = filter P l.
Proof.
  induction l as [|x l IH]; [reflexivity|].
  change (isort B lt (x :: l)) with (insert B lt x (isort B lt l)).
  rewrite filter_insert, IH. cbn [filter]. destruct (P x); reflexivity.
Qed.
End Stable.

Lemma isort_id_when_unordered (B : Type) (lt : B -> B -> bool) l :
  (forall a b, In a l -> In b l -> lt a b = false) -> isort B lt l = l.
Proof.
  induction l as [|x l IH]; intros H; [reflexivity|].
  change (isort B lt (x :: l)) with (insert B lt x (isort B lt l)).
  rewrite IH by (intros; apply H; right; assumption).
  destruct l as [|y l]; [reflexivity|]. cbn [insert].
  rewrite (H y x) by (cbn; auto). reflexivity.
Qed.

(* ---- step-keyed controls ---------------------------------------------- *)
Lemma step_seq_app hist1 hist2 post step :
  step_seq A (hist1 ++ hist2) post step = step_seq A hist1 post step ++ step_seq A hist2 post step.
Proof. unfold step_seq. rewrite !filter_app. reflexivity. Qed.

Lemma step_seq_snoc hist a post step :
  step_seq A (hist ++ [a]) post step =
  step_seq A hist post step ++ (if side A post a && on_step A step a then [a] else []).
Proof.
  rewrite step_seq_app. f_equal. unfold step_seq. cbn [filter].
  destruct (side A post a); cbn [filter andb]; [|reflexivity].
  destruct (on_step A step a); reflexivity.
Qed.

Lemma step_seq_spec hist post step :
  step_seq A hist post step = filter (fun a => side A post a && on_step A step a) hist.
Proof.
  unfold step_seq. induction hist as [|a h IH]; [reflexivity|]. cbn [filter].
  destruct (side A post a); cbn [filter andb]; [|exact IH].
  destruct (on_step A step a); rewrite IH; reflexivity.
Qed.

(* ---- time-keyed controls ---------------------------------------------- *)
Definition same_time (t : float) (a : add) : bool :=
  match float_time A a with Some x => PrimFloat.eqb x t | None => false end.

(* stability: the controls keyed with one and the same float time keep their insertion order *)
Lemma time_sorted_stable (t : float) (l : list add) :
  (forall x y, same_time t x = true -> lt_time A y x = true -> same_time t y = false) ->
  filter (same_time t) (isort add (lt_time A) l) = filter (same_time t) l.
Proof. intros H. apply filter_isort. exact H. Qed.

Lemma time_seq_single_time hist post dt start step :
  (forall a b, In a hist -> In b hist -> lt_time A a b = false) ->
  time_seq A hist post dt start step =
  filter (fun a => side A post a && is_float A a && lands_on A dt start step a) hist.
Proof.
  intros H. unfold time_seq.
  rewrite isort_id_when_unordered.
  - induction hist as [|a h IH]; [reflexivity|]. cbn [filter].
    destruct (side A post a); cbn [filter andb].
    + destruct (is_float A a); cbn [filter andb].
      * destruct (lands_on A dt start step a); rewrite IH by (intros; apply H; right; assumption); reflexivity.
      * apply IH. intros; apply H; right; assumption.
    + apply IH. intros; apply H; right; assumption.
  - intros a b Ha Hb. apply filter_In in Ha, Hb. destruct Ha as [Ha _], Hb as [Hb _].
    apply filter_In in Ha, Hb. apply H; tauto.
Qed.

(* ---- products ---------------------------------------------------------- *)
Variable mul : A -> A -> A.
Variable one : A.

Lemma eval_seq_snoc l c : eval_seq A mul one (l ++ [c]) = mul c (eval_seq A mul one l).
Proof. unfold eval_seq. rewrite fold_left_app. reflexivity. Qed.

Section Action.
Variable V : Type.
Variable act : A -> V -> V.
Hypothesis act_mul : forall c b v, act (mul c b) v = act c (act b v).
Hypothesis act_one : forall v, act one v = v.

Lemma eval_seq_gen l : forall acc v,
  act (fold_left (fun acc c => mul c acc) l acc) v = fold_left (fun v c => act c v) l (act acc v).
Proof.
  induction l as [|c l IH]; intros acc v; cbn [fold_left]; [reflexivity|].
  rewrite IH, act_mul. reflexivity.
Qed.

(* the product returned for a step, applied to a state, is the controls applied one
   after the other in acting-sequence order *)
Lemma eval_seq_acts_in_order l v :
  act (eval_seq A mul one l) v = fold_left (fun v c => act c v) l v.
Proof. unfold eval_seq. rewrite eval_seq_gen, act_one. reflexivity. Qed.

Lemma identity_controls_noop l v :
  (forall c, In c l -> forall w, act c w = w) -> act (eval_seq A mul one l) v = v.
Proof.
  intros H. rewrite eval_seq_acts_in_order. revert v.
  induction l as [|c l IH]; intros v; cbn [fold_left]; [reflexivity|].
  rewrite (H c) by (left; reflexivity). apply IH. intros; apply H; right; assumption.
Qed.
End Action.

(* ---- the code's dictionary of step-keyed controls refines the history model ------------------ *)
Section Dict.
Hypothesis mul_one_r : forall x, mul x one = x.

Lemma assoc_get_add_same z c l :
  assoc_get A z (assoc_add A mul z c l) = Some (match assoc_get A z l with Some v => mul c v | None => c end).
Proof.
  induction l as [|[k v] t IH]; cbn [assoc_add assoc_get]; [rewrite Z.eqb_refl; reflexivity|].
  destruct (Z.eqb k z) eqn:E; cbn [assoc_get]; rewrite E; [reflexivity|exact IH].
Qed.

Lemma assoc_get_add_other z z' c l : z' <> z -> assoc_get A z' (assoc_add A mul z c l) = assoc_get A z' l.
Proof.
  intros H. induction l as [|[k v] t IH]; cbn [assoc_add assoc_get].
  - destruct (Z.eqb_spec z z'); [congruence|reflexivity].
  - destruct (Z.eqb k z) eqn:E; cbn [assoc_get].
    + apply Z.eqb_eq in E. subst k. destruct (Z.eqb_spec z z'); [congruence|reflexivity].
    + destruct (Z.eqb k z'); [reflexivity|exact IH].
Qed.

Lemma step_store_snoc hist a post :
  step_store A mul (hist ++ [a]) post =
  match a_key A a with
  | KInt z => if side A post a then assoc_add A mul z (a_op A a) (step_store A mul hist post) else step_store A mul hist post
  | KFloat _ => step_store A mul hist post
  end.
Proof. unfold step_store. rewrite fold_left_app. reflexivity. Qed.

(* the product stored for a step key (before get_controls multiplies it onto the identity) *)
Definition stored (l : list add) : option A :=
  match map (a_op A) l with
  | [] => None
  | c :: t => Some (fold_left (fun acc x => mul x acc) t c)
  end.

Lemma stored_snoc l a :
  stored (l ++ [a]) = Some (match stored l with Some v => mul (a_op A a) v | None => a_op A a end).
Proof.
  unfold stored. rewrite map_app. cbn [map]. destruct (map (a_op A) l) as [|c t]; cbn [app]; [reflexivity|].
  rewrite fold_left_app. reflexivity.
Qed.

Lemma store_is_stored hist post step :
  assoc_get A step (step_store A mul hist post) = stored (step_seq A hist post step).
Proof.
  induction hist as [|a hist IH] using rev_ind; [reflexivity|].
  rewrite step_store_snoc, step_seq_snoc.
  destruct (a_key A a) as [z|f] eqn:Ek.
  - unfold on_step, int_step. rewrite Ek. destruct (side A post a) eqn:Es; cbn [andb].
    + destruct (Z.eqb_spec z step) as [->|Hne].
      * rewrite assoc_get_add_same, stored_snoc, IH. reflexivity.
      * rewrite assoc_get_add_other by congruence. rewrite app_nil_r. exact IH.
    + rewrite app_nil_r. exact IH.
  - unfold on_step, int_step. rewrite Ek. rewrite andb_false_r, app_nil_r. exact IH.
Qed.

Lemma stored_eval l : option_map (fun v => mul v one) (stored l) = eval_opt A mul one (map (a_op A) l).
Proof.
  unfold stored, eval_opt, eval_seq. destruct (map (a_op A) l) as [|c t]; [reflexivity|].
  cbn [option_map fold_left]. f_equal. rewrite (mul_one_r c), mul_one_r. reflexivity.
Qed.

(* For EVERY history of add_single calls: what the code's dictionary yields for a step is the
   product of exactly the controls added for that (step, side), in insertion order *)
Theorem dict_refines_history hist post step :
  dict_step_control A mul one hist post step = eval_opt A mul one (map (a_op A) (step_seq A hist post step)).
Proof. unfold dict_step_control. rewrite store_is_stored. apply stored_eval. Qed.
End Dict.

(* ---- chain controls ----------------------------------------------------- *)
Lemma chain_seq_snoc (hist : list (cadd A)) c post step site :
  chain_seq A (hist ++ [c]) post step site =
  chain_seq A hist post step site ++
  (if Bool.eqb (c_post A c) post && Z.eqb (c_step A c) step && Nat.eqb (c_site A c) site
   then [c_op A c] else []).
Proof.
  unfold chain_seq. rewrite filter_app, map_app. f_equal. cbn [filter].
  destruct (Bool.eqb (c_post A c) post && Z.eqb (c_step A c) step && Nat.eqb (c_site A c) site); reflexivity.
Qed.

End ControlSpec.
