From Coq Require Import Arith List Bool Lia.
From OQ Require Import Model.History.
Import ListNotations.

Section HistorySpec.
Variable Net : Type.
Variable net_init : Net.
Variable net_step : Net -> nat -> Net.
Local Notation st := (st Net).
Local Notation compute := (compute Net net_init net_step).
Local Notation advance := (advance Net net_step).
Local Notation do_step := (do_step Net net_step).
Local Notation initialize := (initialize Net net_init).
Local Notation cur := (cur Net).

Lemma initialize_idem (s : st) : initialize (initialize s) = initialize s.
Proof. unfold History.initialize. destruct (step Net s) eqn:E; cbn; [rewrite E|]; reflexivity. Qed.

Definition started (s : st) : Prop := exists k, step Net s = Some k.

Lemma initialize_started s : started (initialize s).
Proof. unfold started, History.initialize. destruct (step Net s) eqn:E; cbn; eauto. Qed.

Lemma initialize_of_started s : started s -> initialize s = s.
Proof. intros [k H]. unfold History.initialize. rewrite H. reflexivity. Qed.

Lemma do_step_started s : started (do_step s).
Proof. unfold started. cbn. eauto. Qed.

Lemma cur_do_step s : cur (do_step s) = S (cur s).
Proof. reflexivity. Qed.

Lemma advance_started n : forall s, started s -> started (advance n s).
Proof. induction n as [|n IH]; intros s H; cbn; [exact H|]. apply IH, do_step_started. Qed.

Lemma cur_advance n : forall s, cur (advance n s) = cur s + n.
Proof. induction n as [|n IH]; intros s; cbn; [lia|]. rewrite IH, cur_do_step. lia. Qed.

Lemma advance_add a : forall b s, advance (a + b) s = advance b (advance a s).
Proof. induction a as [|a IH]; intros b s; cbn; [reflexivity|]. apply IH. Qed.

Lemma compute_started t s : started (compute t s).
Proof. unfold History.compute. apply advance_started, initialize_started. Qed.

Lemma cur_compute t s : cur (compute t s) = Nat.max (cur (initialize s)) t.
Proof. unfold History.compute. rewrite cur_advance. lia. Qed.

(* two calls = one call to the further target *)
Theorem compute_compose t1 t2 s : compute t2 (compute t1 s) = compute (Nat.max t1 t2) s.
Proof.
  unfold History.compute at 1.
  rewrite (initialize_of_started _ (compute_started t1 s)).
  rewrite cur_compute. unfold History.compute.
  set (s0 := initialize s). set (c := cur s0).
  rewrite <- advance_add. f_equal. lia.
Qed.

(* a call whose target has been reached changes nothing *)
Corollary compute_reached t1 t2 s : t2 <= t1 -> compute t2 (compute t1 s) = compute t1 s.
Proof. intros H. rewrite compute_compose. f_equal. lia. Qed.

Theorem split_eq_single (ts : list nat) t0 s :
  fold_left (fun s t => compute t s) ts (compute t0 s) = compute (fold_left Nat.max ts t0) s.
Proof.
  revert t0. induction ts as [|t ts IH]; intros t0; cbn [fold_left]; [reflexivity|].
  rewrite compute_compose. apply IH.
Qed.

(* the recorded dynamics of compute t from a fresh object: steps 0..t in order *)
Lemma dyn_advance n : forall s, map fst (dyn Net (advance n s)) = map fst (dyn Net s) ++ seq (S (cur s)) n.
Proof.
  induction n as [|n IH]; intros s; cbn [History.advance seq]; [rewrite app_nil_r; reflexivity|].
  rewrite IH. cbn [History.do_step dyn]. rewrite map_app, <- app_assoc. cbn. reflexivity.
Qed.

Theorem labels_complete t : map fst (dyn Net (compute t (fresh Net net_init))) = seq 0 (S t).
Proof.
  unfold History.compute. cbn [History.initialize fresh step]. rewrite dyn_advance. cbn.
  rewrite Nat.sub_0_r. reflexivity.
Qed.

(* ---- failures ---------------------------------------------------------------------- *)
Local Notation compute_f := (compute_f Net net_init net_step).
Local Notation advance_f := (advance_f Net net_step).

Lemma advance_f_atomic fails n : forall s,
  exists m, m <= n /\ fst (advance_f true fails n s) = advance m s /\
            (snd (advance_f true fails n s) = true -> m = n).
Proof.
  induction n as [|n IH]; intros s; cbn [History.advance_f].
  - exists 0. cbn. split; [lia|]. split; reflexivity.
  - unfold do_step_f. destruct (fails (S (cur s))) eqn:F.
    + exists 0. cbn. split; [lia|]. split; [reflexivity|discriminate].
    + destruct (IH (do_step s)) as [m (Hm & He & Hs)]. exists (S m). cbn [History.advance].
      split; [lia|]. split; [exact He|]. intros H. rewrite (Hs H). reflexivity.
Qed.

(* The repaired drivers: after a compute call in which a user callable raised, the object is
   in the state of a successful compute to some earlier step m <= target; hence repeating the
   call (with the failure gone) gives exactly the failure-free result. *)
Theorem failure_atomic fails t s :
  exists m, (m <= t \/ m = cur (initialize s)) /\
    fst (compute_f true fails t s) = compute m s /\
    compute t (fst (compute_f true fails t s)) = compute t s.
Proof.
  unfold History.compute_f.
  destruct (advance_f_atomic fails (t - cur (initialize s)) (initialize s)) as [m (Hm & He & _)].
  exists (cur (initialize s) + m). split; [|split].
  - lia.
  - rewrite He. unfold History.compute. f_equal. lia.
  - rewrite He.
    assert (Hst : started (advance m (initialize s))) by (apply advance_started, initialize_started).
    unfold History.compute at 1. rewrite (initialize_of_started _ Hst), cur_advance.
    unfold History.compute. rewrite <- advance_add. f_equal. lia.
Qed.
(* ---- restart ----------------------------------------------------------------------- *)
Lemma advance_depends_on_cur_net n : forall s1 s2 : st,
  cur s1 = cur s2 -> net Net s1 = net Net s2 ->
  cur (advance n s1) = cur (advance n s2) /\ net Net (advance n s1) = net Net (advance n s2).
Proof.
  induction n as [|n IH]; intros s1 s2 Hc Hn; cbn [History.advance]; [split; assumption|].
  apply IH; cbn; [rewrite Hc; reflexivity|rewrite Hc, Hn; reflexivity].
Qed.

Theorem restart_eq_continue t (s : st) : started s ->
  let r := restart_from Net s in
  cur (compute t r) = cur (compute t s) /\ net Net (compute t r) = net Net (compute t s) /\
  map fst (dyn Net (compute t r)) = seq (cur s) (S (t - cur s)).
Proof.
  intros Hs r.
  assert (Hr : started r) by (unfold started; cbn; eauto).
  unfold History.compute. rewrite (initialize_of_started _ Hs), (initialize_of_started _ Hr).
  change (cur r) with (cur s).
  destruct (advance_depends_on_cur_net (t - cur s) r s eq_refl eq_refl) as [H1 H2].
  split; [exact H1|]. split; [exact H2|].
  rewrite dyn_advance. reflexivity.
Qed.
End HistorySpec.

(* ---- fixed-end methods ------------------------------------------------------------- *)
Section Fixed.
Variable Net : Type.
Variable net_init : Net.
Variable net_step : Net -> nat -> Net.

Theorem fixed_end_idempotent first last (s : fst_ Net) : first <= last ->
  f_compute Net net_init net_step first last (f_compute Net net_init net_step first last s) =
  f_compute Net net_init net_step first last s.
Proof.
  intros H. unfold f_compute. destruct (fstep Net s) as [k|]; cbn [fstep fnet].
  - replace (last - Nat.max k last) with 0 by lia. cbn [f_advance]. f_equal. f_equal. lia.
  - replace (last - Nat.max first last) with 0 by lia. cbn [f_advance]. f_equal. f_equal. lia.
Qed.
End Fixed.

(* ---- several species within a step (mean-field back-end) ------------------------------ *)
Section SpeciesSpec.
Variable Sp : Type.
Variable sp_step : Sp -> nat -> Sp.

Lemma adv_upto_length k (l : list Sp) : adv_upto Sp sp_step (length l) k l = adv_all Sp sp_step k l.
Proof. induction l as [|x t IH]; [reflexivity|]. cbn [length adv_upto adv_all map]. f_equal. exact IH. Qed.

(* the failure-free step advances every species exactly once *)
Theorem mf_step_ok k (l : list Sp) rb : mf_step Sp sp_step rb None k l = (adv_all Sp sp_step k l, true).
Proof. unfold mf_step. rewrite adv_upto_length. reflexivity. Qed.

(* with the roll-back: wherever in the step the user function raises (after any number j of species, the field
   equation included), nothing has changed when the exception leaves, and the repeated step is the failure-free one *)
Theorem mf_failure_atomic k (l : list Sp) j :
  fst (mf_step Sp sp_step true (Some j) k l) = l /\
  mf_step Sp sp_step true None k (fst (mf_step Sp sp_step true (Some j) k l)) = (adv_all Sp sp_step k l, true).
Proof. split; [reflexivity|]. cbn [mf_step fst]. apply (mf_step_ok k l true). Qed.

(* without it the repeated step advances the first j species a second time *)
Theorem mf_failure_no_rollback k (l : list Sp) j :
  fst (mf_step Sp sp_step false None k (fst (mf_step Sp sp_step false (Some j) k l))) =
  adv_all Sp sp_step k (adv_upto Sp sp_step j k l).
Proof. cbn [mf_step fst]. apply adv_upto_length. Qed.
End SpeciesSpec.
