From Coq Require Import Arith List Bool Lia.
From OQ Require Import Model.Progress.
Import ListNotations.

(* status of a timer by index; helper lemmas on set_stat / cancel / append *)
Lemma stat_of_app_old i l t : i < length l -> stat_of i (l ++ [t]) = stat_of i l.
Proof. intros H. unfold stat_of. rewrite nth_error_app1 by exact H. reflexivity. Qed.

Lemma stat_of_app_new l t : stat_of (length l) (l ++ [t]) = t_stat t.
Proof. unfold stat_of. rewrite nth_error_app2 by lia. rewrite Nat.sub_diag. reflexivity. Qed.

Lemma stat_of_beyond i l : length l <= i -> stat_of i l = Cancelled.
Proof. intros H. unfold stat_of. rewrite (proj2 (nth_error_None l i) H). reflexivity. Qed.

Lemma set_stat_length i st l : length (set_stat i st l) = length l.
Proof. unfold set_stat. rewrite map_length, combine_length, seq_length. lia. Qed.

Lemma nth_error_combine_seq {A} (l : list A) : forall k j,
  nth_error (combine (seq k (length l)) l) j =
  match nth_error l j with Some x => Some (k + j, x) | None => None end.
Proof.
  induction l as [|a l IH]; intros k j; cbn [length seq combine].
  - destruct j; reflexivity.
  - destruct j as [|j]; cbn [nth_error]; [rewrite Nat.add_0_r; reflexivity|].
    rewrite IH. destruct (nth_error l j); [|reflexivity]. f_equal. f_equal. lia.
Qed.

Lemma stat_of_set_stat i j st l :
  stat_of j (set_stat i st l) = if Nat.eqb j i then (if Nat.ltb j (length l) then st else Cancelled) else stat_of j l.
Proof.
  unfold stat_of, set_stat. rewrite nth_error_map, nth_error_combine_seq. cbn [Nat.add].
  destruct (nth_error l j) as [t|] eqn:E; cbn [option_map fst snd].
  - assert (Hj : j < length l) by (apply nth_error_Some; congruence).
    apply Nat.ltb_lt in Hj. rewrite Hj. destruct (Nat.eqb_spec j i); reflexivity.
  - assert (Hj : length l <= j) by (apply nth_error_None; exact E).
    destruct (Nat.eqb_spec j i); [|reflexivity].
    destruct (Nat.ltb_spec j (length l)); [lia|reflexivity].
Qed.

Lemma cancel_length i l : length (cancel i l) = length l.
Proof. unfold cancel. destruct (stat_of i l); try reflexivity; apply set_stat_length. Qed.

Lemma stat_of_cancel_other i j l : j <> i -> stat_of j (cancel i l) = stat_of j l.
Proof.
  intros H. unfold cancel. destruct (stat_of i l); try reflexivity;
    rewrite stat_of_set_stat; destruct (Nat.eqb_spec j i); congruence.
Qed.

Lemma stat_of_cancel_same i l : stat_of i (cancel i l) <> Armed.
Proof.
  unfold cancel. destruct (stat_of i l) eqn:E; try (rewrite E; discriminate);
    rewrite stat_of_set_stat, Nat.eqb_refl; destruct (Nat.ltb i (length l)); discriminate.
Qed.

(* ---- the invariant --------------------------------------------------------------------- *)
Definition Inv (s : pst) : Prop :=
  forall i, stat_of i (timers s) = Armed -> i = tracked s /\ closed s = false.

Lemma Inv_init : Inv init.
Proof. intros i H. unfold init, stat_of in H. cbn in H. destruct i; discriminate. Qed.

Lemma Inv_locked_update s : Inv s -> Inv (locked_update s).
Proof.
  intros HI. unfold locked_update. destruct (closed s) eqn:Hc; [exact HI|].
  intros i Hi. cbn [timers tracked closed] in *.
  destruct (Nat.lt_ge_cases i (length (cancel (tracked s) (timers s)))) as [Hlt|Hge].
  - rewrite stat_of_app_old in Hi by exact Hlt.
    destruct (Nat.eq_dec i (tracked s)) as [->|Hne].
    + exfalso. exact (stat_of_cancel_same _ _ Hi).
    + rewrite stat_of_cancel_other in Hi by exact Hne. destruct (HI i Hi) as [H1 _]. congruence.
  - destruct (Nat.eq_dec i (length (cancel (tracked s) (timers s)))) as [->|Hne]; [split; reflexivity|].
    rewrite stat_of_beyond in Hi; [discriminate|]. rewrite app_length. cbn. lia.
Qed.

Lemma Inv_step s o : Inv s -> Inv (step s o).
Proof.
  intros HI. destruct o as [| | |i|]; cbn [step].
  - (* Enter *)
    destruct (closed s) eqn:Hc; [|exact HI].
    intros j Hj. cbn [timers tracked closed] in *.
    destruct (Nat.lt_ge_cases j (length (timers s))) as [Hlt|Hge].
    + rewrite stat_of_app_old in Hj by exact Hlt. destruct (HI j Hj) as [_ Hf]. congruence.
    + destruct (Nat.eq_dec j (length (timers s))) as [->|Hne]; [split; reflexivity|].
      rewrite stat_of_beyond in Hj; [discriminate|]. rewrite app_length. cbn. lia.
  - (* Update *) apply Inv_locked_update. exact HI.
  - (* Exit *)
    intros j Hj. cbn [timers tracked closed] in *. exfalso.
    destruct (Nat.eq_dec j (tracked s)) as [->|Hne].
    + exact (stat_of_cancel_same _ _ Hj).
    + rewrite stat_of_cancel_other in Hj by exact Hne. destruct (HI j Hj) as [H1 _]. congruence.
  - (* Fire *)
    destruct (nth_error (timers s) i) as [t|] eqn:E; [|exact HI].
    destruct (t_stat t) eqn:Et; try exact HI.
    intros j Hj. cbn [timers tracked closed] in *.
    rewrite stat_of_set_stat in Hj. destruct (Nat.eqb_spec j i).
    + destruct (Nat.ltb j (length (timers s))); discriminate.
    + exact (HI j Hj).
  - (* Run *)
    destruct (pending s) as [|p]; [exact HI|]. apply Inv_locked_update.
    intros j Hj. exact (HI j Hj).
Qed.

Theorem Inv_reachable (ops : list op) : Inv (fold_left step ops init).
Proof.
  assert (H : forall ops s, Inv s -> Inv (fold_left step ops s)).
  { clear ops. induction ops as [|o ops IH]; intros s Hs; [exact Hs|]. cbn. apply IH, Inv_step, Hs. }
  apply H, Inv_init.
Qed.

(* no armed timer whenever the bar is closed, in every reachable state *)
Theorem quiescent_after_exit (ops : list op) :
  let s := fold_left step ops init in
  closed s = true -> forall i, stat_of i (timers s) <> Armed.
Proof.
  cbv zeta. intros Hc i Hi. destruct (Inv_reachable ops i Hi) as [_ Hf]. congruence.
Qed.

(* at most one armed timer at any time, the one the object tracks *)
Theorem at_most_one_armed (ops : list op) :
  let s := fold_left step ops init in
  forall i j, stat_of i (timers s) = Armed -> stat_of j (timers s) = Armed -> i = j.
Proof.
  cbv zeta. intros i j Hi Hj.
  destruct (Inv_reachable ops i Hi) as [-> _]. destruct (Inv_reachable ops j Hj) as [-> _]. reflexivity.
Qed.

(* exit closes the bar, whatever happened before *)
Lemma exit_closes s : closed (step s Exit) = true.
Proof. reflexivity. Qed.

(* once closed, nothing but a new enter can re-open it: late callbacks do not re-arm *)
Lemma closed_stays s o : closed s = true -> o <> Enter -> closed (step s o) = true.
Proof.
  intros Hc Ho. destruct o as [| | |i|]; cbn [step]; try congruence.
  - unfold locked_update. rewrite Hc. exact Hc.
  - reflexivity.
  - destruct (nth_error (timers s) i) as [t|]; [|exact Hc]. destruct (t_stat t); exact Hc.
  - destruct (pending s); [exact Hc|]. unfold locked_update. cbn [closed]. rewrite Hc. reflexivity.
Qed.

(* ---- bracket discipline ------------------------------------------------------------------ *)
Theorem guarded_exit_always n k : In PExit (bracket_log true n k).
Proof.
  unfold bracket_log. destruct k as [k|]; right; apply in_or_app; right; left; reflexivity.
Qed.

Theorem unguarded_exit_skipped n k : ~ In PExit (bracket_log false n (Some k)).
Proof.
  unfold bracket_log. rewrite app_nil_r. intros [H|H]; [discriminate|].
  apply repeat_spec in H. discriminate.
Qed.

(* ---- every path of a call closes its bracket --------------------------------------------------------- *)
Lemma body_log_counts stmts : forall pos,
  pev_count PEnter (body_log 0 pos stmts) = 0 /\ pev_count PExit (body_log 0 pos stmts) = 1.
Proof.
  induction stmts as [|o r IH]; intros pos; [split; reflexivity|].
  destruct o; cbn [body_log Nat.leb]; [|split; reflexivity|split; reflexivity].
  destruct (IH (S pos)) as [H1 H2]. unfold pev_count in *. cbn [filter]. split; assumption.
Qed.

Lemma pev_count_app e a b : pev_count e (a ++ b) = pev_count e a + pev_count e b.
Proof. unfold pev_count. rewrite filter_app, app_length. reflexivity. Qed.

Theorem calls_balanced_lemma (calls : list (list outcome)) :
  pev_count PEnter (calls_log 0 calls) = length calls /\ pev_count PExit (calls_log 0 calls) = length calls.
Proof.
  induction calls as [|c r [IH1 IH2]]; [split; reflexivity|].
  unfold calls_log in *. cbn [map concat]. rewrite !pev_count_app, IH1, IH2.
  destruct (body_log_counts c 0) as [H1 H2]. unfold call_log.
  change (pev_count PEnter (PEnter :: body_log 0 0 c)) with (S (pev_count PEnter (body_log 0 0 c))).
  change (pev_count PExit (PEnter :: body_log 0 0 c)) with (pev_count PExit (body_log 0 0 c)).
  rewrite H1, H2. split; reflexivity.
Qed.

(* every call's own log ends with its exit, whatever path it takes *)
Theorem call_ends_with_exit_lemma stmts : exists l, call_log 0 stmts = l ++ [PExit].
Proof.
  unfold call_log. assert (H : forall pos, exists l, body_log 0 pos stmts = l ++ [PExit]).
  { induction stmts as [|o r IH]; intros pos; [exists []; reflexivity|].
    destruct o; cbn [body_log Nat.leb]; [|exists []; reflexivity|exists []; reflexivity].
    destruct (IH (S pos)) as [l Hl]. exists (PUpdate :: l). rewrite Hl. reflexivity. }
  destruct (H 0) as [l Hl]. exists (PEnter :: l). rewrite Hl. reflexivity.
Qed.
