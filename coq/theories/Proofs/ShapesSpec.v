From Coq Require Import Arith List Bool Lia Ring.
From OQ Require Import Lib.RingSum Model.Shapes.
Import ListNotations.

Section ShapesSpec.
Variable K : Ring.
Add Ring Kring2 : (rth K).
Open Scope rg_scope.
Variable G : nat -> K.

(* sum of the squares at distances 1..k telescopes *)
Lemma squares_telescope k :
  sumn k (fun i => sq_cell G (S i)) = (G (S k) - G k) - (G 1 - G 0).
Proof.
  induction k as [|k IH]; cbn [sumn]; [ring|]. rewrite IH. unfold sq_cell, two.
  replace (S k - 1)%nat with k by lia. ring.
Qed.

(* row k of the triangle: the cell on the diagonal plus the squares to all earlier points *)
Definition row_full (k : nat) : K := tri_cell G 0 + sumn k (fun i => sq_cell G (S i)).

Lemma row_full_value k : row_full k = G (S k) - G k.
Proof. unfold row_full. rewrite squares_telescope. unfold tri_cell. ring. Qed.

(* tiling: the cells of the first n steps at full memory sum to G(n) - G(0) *)
Theorem tiling_full n : sumn n row_full = G n - G 0.
Proof.
  induction n as [|n IH]; cbn [sumn]; [ring|]. rewrite IH, row_full_value. ring.
Qed.

(* the rectangle [m, m+w] is exactly the sum of the squares at distances m .. m+w-1 *)
Theorem rectangle_is_sum_of_squares m w : (1 <= m)%nat ->
  rect_cell G m (m + w)%nat = sumn w (fun i => sq_cell G (m + i)%nat).
Proof.
  intros Hm. induction w as [|w IH].
  - cbn [sumn]. unfold rect_cell. rewrite Nat.add_0_r. ring.
  - cbn [sumn]. rewrite <- IH. unfold rect_cell, sq_cell, two.
    replace (m + S w)%nat with (S (m + w)) by lia. replace (S (m + w) - 1)%nat with (m + w)%nat by lia.
    destruct w as [|w].
    + rewrite Nat.add_0_r. ring.
    + replace (m + S w - 1)%nat with (m + w)%nat by lia. replace (S (m + w)) with (m + S w)%nat by lia. ring.
Qed.

(* a rectangle of width one step is the square: influence(-1) = influence(dkmax) *)
Corollary rect_width_one_is_square m : (1 <= m)%nat -> rect_cell G m (m + 1)%nat = sq_cell G m.
Proof.
  intros Hm. rewrite rectangle_is_sum_of_squares by exact Hm. cbn [sumn]. rewrite Nat.add_0_r. ring.
Qed.

(* a rectangle splits additively *)
Theorem rectangle_splits t1 t2 t3 : rect_cell G t1 t3 = rect_cell G t1 t2 + rect_cell G t2 t3.
Proof. unfold rect_cell. ring. Qed.

(* row k with memory cut-off m and an infinite additional correlation time: squares up to
   distance m-1, and the rectangle from m covering every omitted source *)
Definition row_cut (m k : nat) : K :=
  if (k <? m)%nat then row_full k
  else tri_cell G 0 + sumn (m - 1)%nat (fun i => sq_cell G (S i)) + rect_cell G m (m + (k - m + 1))%nat.

Lemma sumn_split (a b : nat) (f : nat -> K) :
  sumn (a + b)%nat f = sumn a f + sumn b (fun i => f (a + i)%nat).
Proof.
  induction b as [|b IH]; [rewrite Nat.add_0_r; cbn; ring|].
  rewrite Nat.add_succ_r. cbn [sumn]. rewrite IH. ring.
Qed.

Lemma row_cut_eq_full m k : (1 <= m)%nat -> row_cut m k = row_full k.
Proof.
  intros Hm. unfold row_cut. destruct (Nat.ltb_spec k m) as [H|H]; [reflexivity|].
  rewrite rectangle_is_sum_of_squares by exact Hm. unfold row_full.
  pose proof (sumn_split (m - 1) (k - m + 1) (fun i => sq_cell G (S i))) as E.
  replace ((m - 1) + (k - m + 1))%nat with k in E by lia. rewrite E.
  rewrite (sumn_ext K (k - m + 1) (fun i => sq_cell G (m + i)%nat) (fun i => sq_cell G (S (m - 1 + i))))
    by (intros i _; f_equal; lia).
  ring.
Qed.

(* tiling with a memory cut-off and an unbounded additional correlation time *)
Theorem tiling_cutoff m n : (1 <= m)%nat -> sumn n (row_cut m) = G n - G 0.
Proof.
  intros Hm. rewrite <- tiling_full. apply sumn_ext. intros k _. apply row_cut_eq_full. exact Hm.
Qed.

(* ---- the exponent of the influence functional ----------------------------------------- *)
Variable iu : K.
Variable conj : K -> K.
Hypothesis conj_add : forall a b, conj (a + b) = conj a + conj b.
Hypothesis conj_mul : forall a b, conj (a * b) = conj a * conj b.
Hypothesis conj_opp : forall a, conj (- a) = - conj a.
Hypothesis conj_iu : conj iu = - iu.

(* the later index enters through the commutator only: for a trace index the exponent is 0 *)
Theorem exponent_trace er ei (m p : nat -> K) i j : m j = r0 -> exponent iu er ei m p i j = r0.
Proof. intros H. unfold exponent. rewrite H. ring. Qed.

(* exchanging forward and backward branch on both indices conjugates the exponent *)
Theorem exponent_herm er ei (m p : nat -> K) (sw : nat -> nat) i j :
  conj er = er -> conj ei = ei -> (forall x, conj (m x) = m x) -> (forall x, conj (p x) = p x) ->
  (forall x, m (sw x) = - m x) -> (forall x, p (sw x) = p x) ->
  exponent iu er ei m p (sw i) (sw j) = conj (exponent iu er ei m p i j).
Proof.
  intros Her Hei Hm Hp Hms Hps. unfold exponent.
  rewrite conj_opp, conj_mul, conj_add, !conj_mul, conj_iu, Her, Hei, !Hm, !Hp, !Hms, Hps. ring.
Qed.

(* row i depends only on (m i, p i), column j only on m j: degeneracy reduction is sound *)
Theorem exponent_classes er ei (m p : nat -> K) i i' j j' :
  m i = m i' -> p i = p i' -> m j = m j' ->
  exponent iu er ei m p i j = exponent iu er ei m p i' j'.
Proof. intros H1 H2 H3. unfold exponent. rewrite H1, H2, H3. reflexivity. Qed.

(* the exponent is additive in the coefficient: two baths with the same coupling = one bath with
   the summed coefficient (exp of a sum is the product of the exps) *)
Theorem exponent_additive er1 ei1 er2 ei2 (m p : nat -> K) i j :
  exponent iu (er1 + er2) (ei1 + ei2) m p i j =
  exponent iu er1 ei1 m p i j + exponent iu er2 ei2 m p i j.
Proof. unfold exponent. ring. Qed.
End ShapesSpec.
