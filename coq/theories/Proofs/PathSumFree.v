(* With all influence functions equal to 1 (zero coupling) the path sum is the free evolution:
   the product of the half-step propagators and basis changes applied to the initial state. *)
From Coq Require Import Arith List Bool Lia Ring.
From OQ Require Import Lib.RingSum Lib.Mat Model.PathSum Proofs.PathSumSpec Proofs.PathSumTrace.
Import ListNotations.

Section PathSumFree.
Variable K : Ring.
Add Ring Kring5 : (rth K).
Open Scope rg_scope.
Local Notation mat := (list (list K)).

Variable d2 : nat.
Variable diag0 : nat -> K.
Variable coef : nat -> nat -> option mat.
Variables uin uout : mat.
Variable props : nat -> mat * mat.
Variable rho0 : list K.

Local Notation amp := (amp diag0 coef uin uout props rho0).
Local Notation cur := (cur uout props rho0).
Local Notation state := (state d2 diag0 coef uin uout props rho0).
Local Notation square := (square K d2).

(* weighted sum of a family of vectors indexed by a list *)
Definition W {A} (a : A -> K) (v : A -> list K) (l : list A) : list K :=
  map (fun i => suml (map (fun p => a p * nth i (v p) r0) l)) (seq 0 d2).

Lemma W_length {A} (a : A -> K) v (l : list A) : length (W a v l) = d2.
Proof. unfold W. rewrite map_length, seq_length. reflexivity. Qed.

Lemma nth_W {A} (a : A -> K) v (l : list A) i : i < d2 ->
  nth i (W a v l) r0 = suml (map (fun p => a p * nth i (v p) r0) l).
Proof.
  intros Hi. unfold W.
  rewrite (nth_indep _ r0 ((fun i => suml (map (fun p => a p * nth i (v p) r0) l)) 0)) by (rewrite map_length, seq_length; exact Hi).
  rewrite (map_nth (fun i => suml (map (fun p => a p * nth i (v p) r0) l)) (seq 0 d2) 0 i).
  rewrite seq_nth by exact Hi. reflexivity.
Qed.

Lemma list_eq_nth (u v : list K) : length u = d2 -> length v = d2 ->
  (forall i, i < d2 -> nth i u r0 = nth i v r0) -> u = v.
Proof.
  intros Hu Hv H. apply (nth_ext u v r0 r0); [congruence|]. intros i Hi. apply H. lia.
Qed.

Lemma sumn_suml_exchange {A} (l : list A) (f : nat -> A -> K) n :
  sumn n (fun i => suml (map (f i) l)) = suml (map (fun p => sumn n (fun i => f i p)) l).
Proof.
  induction l as [|q l IH]; cbn [map suml]; [apply sumn_zero|]. rewrite sumn_add, IH. reflexivity.
Qed.

Lemma mvec_length' (m : mat) v : length (mvec m v) = length m.
Proof. unfold mvec. apply map_length. Qed.

(* a matrix commutes with weighted sums *)
Lemma mvec_W {A} (m : mat) (a : A -> K) v (l : list A) : square m -> (forall p, length (v p) = d2) ->
  mvec m (W a v l) = W a (fun p => mvec m (v p)) l.
Proof.
  intros Hm Hv. apply list_eq_nth; [rewrite mvec_length'; exact (proj1 Hm)|apply W_length|].
  intros j Hj. rewrite (nth_mvec K d2 m _ j Hm (W_length a v l) Hj). rewrite nth_W by exact Hj.
  rewrite (sumn_ext K d2 _ (fun i => suml (map (fun p => entry K m j i * (a p * nth i (v p) r0)) l))).
  2:{ intros i Hi. rewrite nth_W by exact Hi. generalize l. intros l0.
      induction l0 as [|q l0 IH]; cbn [map suml]; [ring|]. rewrite <- IH. ring. }
  rewrite (sumn_suml_exchange l (fun i p => entry K m j i * (a p * nth i (v p) r0)) d2).
  apply (suml_map_ext K). intros p _. rewrite (nth_mvec K d2 m (v p) j Hm (Hv p) Hj).
  rewrite <- sumn_mul_l. apply sumn_ext. intros i _. ring.
Qed.

(* a vector is the combination of the columns it selects *)
Lemma mvec_cols (m u : mat) x i : square m -> square u -> length x = d2 -> i < d2 ->
  nth i (mvec m (mvec u x)) r0 = sumn d2 (fun j => nth j x r0 * nth i (mvec m (mcol K u j)) r0).
Proof.
  intros Hm Hu Hx Hi.
  rewrite (nth_mvec K d2 m _ i Hm) by (rewrite ?mvec_length'; try exact (proj1 Hu); exact Hi).
  rewrite (sumn_ext K d2 _ (fun a => sumn d2 (fun j => nth j x r0 * (entry K m i a * entry K u a j)))).
  2:{ intros a Ha. rewrite (nth_mvec K d2 u x a Hu Hx Ha). rewrite <- sumn_mul_l. apply sumn_ext. intros j _. ring. }
  rewrite sumn_exchange. apply sumn_ext. intros j Hj.
  assert (Hc : length (mcol K u j) = d2) by (unfold mcol; rewrite map_length; exact (proj1 Hu)).
  rewrite (nth_mvec K d2 m _ i Hm Hc Hi). rewrite <- sumn_mul_l. apply sumn_ext. intros a _.
  rewrite nth_mcol. reflexivity.
Qed.

Hypothesis Huin : square uin.
Hypothesis Huout : square uout.
Hypothesis Hprops : forall k, square (fst (props k)) /\ square (snd (props k)).
Hypothesis Hrho : length rho0 = d2.
(* zero coupling: every influence function is identically one *)
Hypothesis Hdiag : forall j, j < d2 -> diag0 j = r1.
Hypothesis Hcoef : forall kp k m jp j, coef kp k = Some m -> entry K m jp j = r1.

Lemma cells_one k j : forall l kp, cells coef k j kp l = r1.
Proof.
  intros l. induction l as [|jp l IH]; intros kp; cbn [PathSum.cells]; [reflexivity|].
  rewrite IH. destruct (coef kp k) as [m|] eqn:Hc; [rewrite (Hcoef kp k m jp j Hc)|]; ring.
Qed.

Lemma cur_len k p : length (cur k p) = d2.
Proof.
  destruct k as [|k]; cbn [PathSum.cur]; [exact Hrho|]. rewrite mvec_length'. exact (proj1 (proj2 (Hprops k))).
Qed.

Definition free_step (k : nat) (v : list K) : list K :=
  mvec (snd (props k)) (mvec uout (mvec uin (mvec (fst (props k)) v))).

Fixpoint free (n : nat) : list K :=
  match n with O => rho0 | S k => free_step k (free k) end.

Definition sumstate (n : nat) : list K := W amp (cur n) (all_paths d2 n).

Lemma sumstate_0 : sumstate 0 = rho0.
Proof.
  unfold sumstate. apply list_eq_nth; [apply W_length|exact Hrho|]. intros i Hi.
  rewrite nth_W by exact Hi. cbn [all_paths map suml PathSum.amp PathSum.cur]. ring.
Qed.

Lemma sumstate_S n : sumstate (S n) = free_step n (sumstate n).
Proof.
  unfold free_step, sumstate.
  rewrite (mvec_W (fst (props n))) by (try exact (proj1 (Hprops n)); intros p; apply cur_len).
  rewrite (mvec_W uin) by (try exact Huin; intros p; rewrite mvec_length'; exact (proj1 (proj1 (Hprops n)))).
  rewrite (mvec_W uout) by (try exact Huout; intros p; rewrite mvec_length'; exact (proj1 Huin)).
  rewrite (mvec_W (snd (props n))) by (try exact (proj2 (Hprops n)); intros p; rewrite mvec_length'; exact (proj1 Huout)).
  apply list_eq_nth; [apply W_length|apply W_length|]. intros i Hi.
  rewrite !nth_W by exact Hi.
  change (all_paths d2 (S n)) with (flat_map (fun p => map (fun j => j :: p) (seq 0 d2)) (all_paths d2 n)).
  rewrite flat_map_concat_map, concat_map, map_map, <- flat_map_concat_map, (suml_flat_map K).
  apply (suml_map_ext K). intros p Hp.
  rewrite map_map, (suml_map_seq K _ d2 0). cbn [Nat.add].
  assert (Hlen : length p = n) by (eapply all_paths_length; exact Hp).
  set (x := mvec uin (mvec (fst (props n)) (cur n p))).
  assert (Hx : length x = d2) by (unfold x; rewrite mvec_length'; exact (proj1 Huin)).
  rewrite (mvec_cols (snd (props n)) uout x i (proj2 (Hprops n)) Huout Hx Hi).
  rewrite <- sumn_mul_l. apply sumn_ext. intros j Hj.
  rewrite (amp_cons K). rewrite Hlen. fold x. rewrite (Hdiag j Hj), cells_one.
  cbn [PathSum.cur hd]. ring.
Qed.

Lemma sumstate_free n : sumstate n = free n.
Proof. induction n as [|n IH]; [exact sumstate_0|]. rewrite sumstate_S, IH. reflexivity. Qed.

Theorem pathsum_free n : state n = free n.
Proof.
  destruct n as [|n]; [reflexivity|]. rewrite <- sumstate_free. reflexivity.
Qed.
End PathSumFree.
