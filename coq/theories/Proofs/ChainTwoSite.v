(* A chain of two sites has a single bond: one TEBD step is ONE evolution of the pair for the whole time step
   (order 1), or two evolutions for half the time step each (order 2) — with the semigroup law of the pair
   propagator (expm's contract, a section hypothesis) both are the exact evolution: no Trotter error. *)
From Coq Require Import Arith List Bool Lia.
From OQ Require Import Model.Chain.
Import ListNotations.

Section TwoSite.
Variables A B : Type.
Variables (da : A) (db : B).
(* evolution of the pair (Gamma_0, lambda_1, Gamma_1) between fixed outer bonds for t quarter-steps *)
Variable J : nat -> B -> A * B * A -> B -> A * B * A.
Hypothesis J_add : forall a b l0 x l2, J (a + b) l0 x l2 = J b l0 (J a l0 x l2) l2.

Definition pair_gate (frac : nat) (l : nat) (l0 : B) (g0 : A) (l1 : B) (g1 : A) (l2 : B) : A * B * A :=
  J frac l0 (g0, l1, g1) l2.
Definition pair_step (order : nat) (s : cstate A B) : cstate A B :=
  fold_left (fun acc ls => apply_layer_seq A B (pair_gate (gate_fraction order)) da db acc ls) (layers 2 order) s.

Theorem two_site_exact order g0 g1 l0 l1 l2 : order = 1 \/ order = 2 ->
  pair_step order ([g0; g1], [l0; l1; l2]) =
  let '(g0', l1', g1') := J 4 l0 (g0, l1, g1) l2 in ([g0'; g1'], [l0; l1'; l2]).
Proof.
  intros [-> | ->]; unfold pair_step, apply_layer_seq, apply_gate, gate_result, write, pair_gate; cbn.
  - destruct (J 4 l0 (g0, l1, g1) l2) as [[a b] c]. reflexivity.
  - change 4 with (2 + 2). rewrite J_add.
    destruct (J 2 l0 (g0, l1, g1) l2) as [[a b] c]. cbn.
    destruct (J 2 l0 (a, b, c) l2) as [[a' b'] c']. reflexivity.
Qed.
End TwoSite.
