(* Adjoint (back-propagation) identities behind oqupy.gradient, over any commutative ring.
   Vectors are functions on indices < d, linear maps are functional matrices (SuperOps.M2); a
   computation is a list of maps applied first to last (the half-step propagators and the
   process-tensor MPO tensors of every environment, on the augmented space). *)
From Coq Require Import Arith List Bool Lia Ring.
From OQ Require Import Lib.RingSum Model.SuperOps Proofs.SuperOpsSpec Proofs.CovarianceSpec.
Import ListNotations.

Section Gradient.
Variable K : Ring.
Add Ring Kring7 : (rth K).
Open Scope rg_scope.
Local Notation M2 := (M2 K).
Variable d : nat.
Local Notation mv := (mv K d).

Definition dot (u v : nat -> K) : K := sumn d (fun i => u i * v i).
Definition tr (A : M2) : M2 := fun i j => A j i.
Definition apply_all (Ms : list M2) (v : nat -> K) : nat -> K := fold_left (fun v M => mv M v) Ms v.

(* <b, A v> = <A^T b, v> *)
Lemma adjoint_identity (A : M2) b v : dot b (mv A v) = dot (mv (tr A) b) v.
Proof.
  unfold dot, CovarianceSpec.mv, tr.
  rewrite (sumn_ext K d (fun i => b i * sumn d (fun x => A i x * v x))
                        (fun i => sumn d (fun x => b i * A i x * v x)))
    by (intros; rewrite <- sumn_mul_l; apply sumn_ext; intros; ring).
  rewrite sumn_exchange. apply sumn_ext. intros x _.
  rewrite <- sumn_mul_r. apply sumn_ext. intros i _. ring.
Qed.

Lemma adjoint_identity_sym (A : M2) b v : dot (mv (tr A) b) v = dot b (mv A v).
Proof. symmetry. apply adjoint_identity. Qed.

Lemma dot_ext_r b v v' : (forall i, i < d -> v i = v' i) -> dot b v = dot b v'.
Proof. intros H. unfold dot. apply sumn_ext. intros i Hi. rewrite H by exact Hi. reflexivity. Qed.

(* back-propagating a covector through a chain: the transposes are applied in REVERSE order *)
Theorem backprop_chain (Ms : list M2) : forall b v,
  dot b (apply_all Ms v) = dot (apply_all (rev (map tr Ms)) b) v.
Proof.
  induction Ms as [|M Ms IH]; intros b v; [reflexivity|].
  change (apply_all (M :: Ms) v) with (apply_all Ms (mv M v)). rewrite IH.
  cbn [map rev]. unfold apply_all at 2. rewrite fold_left_app. cbn [fold_left].
  fold (apply_all (rev (map tr Ms)) b). symmetry. apply adjoint_identity_sym.
Qed.

Lemma apply_all_app l1 l2 v : apply_all (l1 ++ l2) v = apply_all l2 (apply_all l1 v).
Proof. unfold apply_all. apply fold_left_app. Qed.

(* the objective <target, final state> as a function of ONE map X of the chain is the forward
   state up to X, sandwiched with the back-propagated target: this is the adjoint tensor *)
Theorem adjoint_tensor_correct (l1 l2 : list M2) (X : M2) target v :
  dot target (apply_all (l1 ++ [X] ++ l2) v) =
  dot (apply_all (rev (map tr l2)) target) (mv X (apply_all l1 v)).
Proof. rewrite !apply_all_app. cbn [apply_all fold_left]. apply backprop_chain. Qed.

(* the objective is linear in every single map, so its derivative with respect to a parameter the
   map depends on is the objective evaluated at the map's derivative (chain rule) *)
Lemma mv_linear (X Y : M2) a b v i :
  mv (fun r c => a * X r c + b * Y r c) v i = a * mv X v i + b * mv Y v i.
Proof.
  unfold CovarianceSpec.mv.
  rewrite (sumn_ext K d _ (fun x => a * (X i x * v x) + b * (Y i x * v x))) by (intros; ring).
  rewrite sumn_add, !sumn_mul_l. reflexivity.
Qed.

Theorem objective_linear (l1 l2 : list M2) (X Y : M2) a b target v :
  dot target (apply_all (l1 ++ [fun r c => a * X r c + b * Y r c] ++ l2) v) =
  a * dot target (apply_all (l1 ++ [X] ++ l2) v) + b * dot target (apply_all (l1 ++ [Y] ++ l2) v).
Proof.
  rewrite !adjoint_tensor_correct. set (bk := apply_all (rev (map tr l2)) target).
  set (f := apply_all l1 v). unfold dot.
  rewrite (sumn_ext K d _ (fun i => a * (bk i * mv X f i) + b * (bk i * mv Y f i)))
    by (intros i _; rewrite mv_linear; ring).
  rewrite sumn_add, !sumn_mul_l. reflexivity.
Qed.
End Gradient.
