From Coq Require Import ZArith List Bool Lia ZifyBool PrimFloat.
From OQ Require Import Lib.PyFloat Lib.PySem Model.Corr.
Import ListNotations.
Local Open Scope Z_scope.

Lemma maxl_default_irrelevant a t d1 d2 : maxl (a :: t) d1 = maxl (a :: t) d2.
Proof. reflexivity. Qed.

Lemma maxl_ge_head a t d : a <= maxl (a :: t) d.
Proof. cbn [maxl]. lia. Qed.

Lemma nondecreasing_snoc t : forall a l,
  nondecreasing ((a :: t) ++ [l]) = nondecreasing (a :: t) && (maxl (a :: t) a <=? l).
Proof.
  induction t as [|b t IH]; intros a l.
  - cbn. lia.
  - change (nondecreasing ((a :: b :: t) ++ [l])) with ((a <=? b) && nondecreasing ((b :: t) ++ [l])).
    rewrite IH.
    change (nondecreasing (a :: b :: t)) with ((a <=? b) && nondecreasing (b :: t)).
    change (maxl (a :: b :: t) a) with (Z.max a (maxl (b :: t) a)).
    rewrite (maxl_default_irrelevant b t a b).
    pose proof (maxl_ge_head b t b) as Hge.
    destruct (a <=? b) eqn:Hab; cbn [andb]; [|reflexivity].
    destruct (nondecreasing (b :: t)); cbn [andb]; [|reflexivity].
    lia.
Qed.

Section Entries.
Variable V : Type.
Variable oracle : list Z -> V.

Theorem row_is_spec first last :
  row V oracle first last = map (fun l => entry_spec V oracle (first ++ [l])) last.
Proof.
  unfold row, entry_spec. destruct first as [|f0 t].
  - cbn. apply map_ext. intros l. reflexivity.
  - destruct (nondecreasing (f0 :: t)) eqn:Hs.
    + apply map_ext. intros l. rewrite nondecreasing_snoc, Hs. cbn [andb]. reflexivity.
    + apply map_ext. intros l. rewrite nondecreasing_snoc, Hs. reflexivity.
Qed.

Theorem correlations_nt_is_spec firsts last :
  correlations_nt V oracle (firsts ++ [last]) =
  flat_map (fun first => map (fun l => entry_spec V oracle (first ++ [l])) last) (product firsts).
Proof.
  unfold correlations_nt. rewrite rev_app_distr. cbn [rev app]. rewrite rev_involutive.
  induction (product firsts) as [|f fs IH]; [reflexivity|]. cbn [flat_map].
  rewrite row_is_spec, IH. reflexivity.
Qed.

(* "entries outside the requested time ordering, and only those, are NaN" *)
Theorem entry_nan_iff steps : entry_spec V oracle steps = None <-> nondecreasing steps = false.
Proof. unfold entry_spec. destruct (nondecreasing steps); split; intros H; congruence. Qed.
End Entries.

(* ---- ranges, intervals --------------------------------------------------------- *)
Lemma py_range_length a b s : length (py_range a b s) = Z.to_nat (range_len a b s).
Proof. unfold py_range. rewrite map_length, seq_length. reflexivity. Qed.

Lemma py_range_nth a b s k d : (k < Z.to_nat (range_len a b s))%nat ->
  nth k (py_range a b s) d = a + Z.of_nat k * s.
Proof.
  intros H. unfold py_range.
  rewrite (nth_indep _ d ((fun k => a + Z.of_nat k * s) 0%nat)) by (rewrite map_length, seq_length; exact H).
  rewrite (map_nth (fun k => a + Z.of_nat k * s)), seq_nth by exact H. reflexivity.
Qed.

Lemma range_len_up i0 i1 : i0 <= i1 -> range_len i0 (i1 + 1) 1 = i1 - i0 + 1.
Proof. intros H. unfold range_len. cbn. rewrite Z.div_1_r. destruct (i0 <? i1 + 1) eqn:E; lia. Qed.

Lemma range_len_down i0 i1 : i1 < i0 -> range_len i0 (i1 + -1) (-1) = i0 - i1 + 1.
Proof.
  intros H. unfold range_len. cbn. rewrite Z.div_1_r. destruct (i1 + -1 <? i0) eqn:E; lia.
Qed.

(* an interval (t0, t1) in either direction selects every step from the step of t0 to the
   step of t1 inclusive, in that order — also when it ends at step 0 *)
Theorem interval_spec max_step dt start t0 t1 :
  let i0 := step_of_time dt start t0 in
  let i1 := step_of_time dt start t1 in
  in_bounds max_step i0 = true -> in_bounds max_step i1 = true ->
  exists l, parse_times (TInterval t0 t1) max_step dt start = Some l /\
            length l = Z.to_nat (Z.abs (i1 - i0) + 1) /\
            (forall k d, (k < length l)%nat ->
               nth k l d = if i0 <=? i1 then i0 + Z.of_nat k else i0 - Z.of_nat k).
Proof.
  cbv zeta. intros H0 H1. cbn [parse_times]. rewrite H0, H1. cbn [andb].
  eexists. split; [reflexivity|].
  destruct (step_of_time dt start t0 <=? step_of_time dt start t1) eqn:Hd.
  - assert (Hle : step_of_time dt start t0 <= step_of_time dt start t1) by lia.
    rewrite py_range_length, range_len_up by exact Hle. split; [f_equal; lia|].
    intros k d Hk. rewrite py_range_nth by (rewrite range_len_up by exact Hle; exact Hk). lia.
  - assert (Hlt : step_of_time dt start t1 < step_of_time dt start t0) by lia.
    rewrite py_range_length, range_len_down by exact Hlt. split; [f_equal; lia|].
    intros k d Hk. rewrite py_range_nth by (rewrite range_len_down by exact Hlt; exact Hk). lia.
Qed.

(* list specifications keep the order given, wrap negative indices once and reject the rest *)
Theorem list_spec len l r :
  list_select len l = Some r ->
  length r = length l /\
  forall k, (k < length l)%nat ->
    let i := nth k l 0 in
    nth k r 0 = (if i <? 0 then i + len else i) /\ 0 <= nth k r 0 < len.
Proof.
  revert r. induction l as [|i t IH]; intros r H.
  - cbn in H. injection H as <-. split; [reflexivity|]. intros k Hk. cbn in Hk. lia.
  - cbn [list_select] in H. destruct (index_norm len i) as [j|] eqn:Hj; [|discriminate].
    destruct (list_select len t) as [r'|] eqn:Hr; [|discriminate]. injection H as <-.
    destruct (IH r' eq_refl) as [HL HN]. split; [cbn; lia|].
    intros [|k] Hk; cbn [nth length] in *.
    + unfold index_norm in Hj.
      destruct ((0 <=? i) && (i <? len)) eqn:E1; [injection Hj as <-; destruct (i <? 0) eqn:E0; lia|].
      destruct ((- len <=? i) && (i <? 0)) eqn:E2; [injection Hj as <-; destruct (i <? 0) eqn:E0; lia|discriminate].
    + apply HN. lia.
Qed.

(* ---- slices --------------------------------------------------------------------- *)
Ltac Zify.zify_post_hook ::= Z.div_mod_to_equations.

Lemma py_range_bounds a b s x : In x (py_range a b s) ->
  (s > 0 -> a <= x < b) /\ (s < 0 -> b < x <= a).
Proof.
  unfold py_range. intros H. apply in_map_iff in H. destruct H as [k [<- Hk]].
  apply in_seq in Hk. unfold range_len in Hk.
  destruct (s >? 0) eqn:E1.
  - destruct (a <? b) eqn:E2; [|cbn in Hk; lia].
    split; [|lia]. intros _.
    assert (Z.of_nat k <= (b - a - 1) / s) by lia.
    assert (s * ((b - a - 1) / s) <= b - a - 1) by (apply Z.mul_div_le; lia).
    nia.
  - destruct (s <? 0) eqn:E3; [|cbn in Hk; lia].
    destruct (b <? a) eqn:E2; [|cbn in Hk; lia].
    split; [lia|]. intros _.
    assert (Z.of_nat k <= (a - b - 1) / (- s)) by lia.
    assert ((- s) * ((a - b - 1) / (- s)) <= a - b - 1) by (apply Z.mul_div_le; lia).
    nia.
Qed.

Theorem slice_in_bounds a b c len l : 0 <= len ->
  slice_select a b c len = Some l -> Forall (fun x => 0 <= x < len) l.
Proof.
  intros Hlen H. unfold slice_select, slice_indices in H.
  destruct (match c with None => 1 | Some s => s end =? 0) eqn:E0; [discriminate|].
  injection H as <-. apply Forall_forall. intros x Hx. apply py_range_bounds in Hx.
  set (st := match c with None => 1 | Some s => s end) in *.
  destruct Hx as [Hp Hn].
  destruct (st <? 0) eqn:Es.
  - assert (Hst : st < 0) by lia. specialize (Hn Hst).
    destruct a as [a|], b as [b|]; try destruct (a <? 0) eqn:Ea; try destruct (b <? 0) eqn:Eb; lia.
  - assert (Hst : st > 0) by lia. specialize (Hp Hst).
    destruct a as [a|], b as [b|]; try destruct (a <? 0) eqn:Ea; try destruct (b <? 0) eqn:Eb; lia.
Qed.
