From Coq Require Import Arith List Bool Lia.
From OQ Require Import Model.Cache.
Import ListNotations.

Section CacheSpec.
Variables P V : Type.
Variable f : P -> nat -> V.
Local Notation st := (st P V).
Local Notation step := (step P V f).
Local Notation run := (run P V f).
Local Notation lookup := (lookup V).

(* every memo entry is what the method computes from the object's CURRENT parameters *)
Definition consistent (s : st) : Prop :=
  forall i a v, lookup i a (memo P V s) = Some v ->
    exists p, nth_error (objs P V s) i = Some p /\ v = f p a.

Lemma consistent_init : consistent (init P V).
Proof. intros i a v H. discriminate. Qed.

Lemma nth_error_app_l {A} (l l' : list A) i x : nth_error l i = Some x -> nth_error (l ++ l') i = Some x.
Proof. intros H. rewrite nth_error_app1; [exact H|]. apply nth_error_Some. congruence. Qed.

Lemma step_consistent s o : consistent s -> consistent (fst (step s o)).
Proof.
  intros HC. destruct o as [p|i p|i a|i]; cbn [Cache.step].
  - intros j b v H. cbn [fst memo objs] in *. destruct (HC j b v H) as [q [Hq Hv]].
    exists q. split; [apply nth_error_app_l; exact Hq|exact Hv].
  - intros j b v H. cbn in H. discriminate.
  - destruct (nth_error (objs P V s) i) as [p|] eqn:Ep; [|exact HC].
    destruct (lookup i a (memo P V s)) as [v0|] eqn:El; [exact HC|].
    intros j b v H. cbn [fst memo objs] in *. cbn [Cache.lookup] in H.
    destruct (Nat.eqb j i && Nat.eqb b a) eqn:E.
    + apply andb_true_iff in E. destruct E as [E1 E2].
      apply Nat.eqb_eq in E1, E2. subst. injection H as <-. exists p. split; [exact Ep|reflexivity].
    + exact (HC j b v H).
  - destruct (nth_error (objs P V s) i) as [p|] eqn:Ep; [|exact HC].
    intros j b v H. cbn [fst memo objs] in *. destruct (HC j b v H) as [q [Hq Hv]].
    exists q. split; [apply nth_error_app_l; exact Hq|exact Hv].
Qed.

(* one step answers like the memo-free specification and changes the objects alike *)
Lemma step_refines s o : consistent s ->
  snd (step s o) = snd (spec_step P V f (objs P V s) o) /\
  objs P V (fst (step s o)) = fst (spec_step P V f (objs P V s) o).
Proof.
  intros HC. destruct o as [p|i p|i a|i]; cbn [Cache.step spec_step]; try (split; reflexivity).
  - destruct (nth_error (objs P V s) i) as [p|] eqn:Ep; cbn [option_map]; [|split; reflexivity].
    destruct (lookup i a (memo P V s)) as [v0|] eqn:El; cbn [fst snd objs]; [|split; reflexivity].
    destruct (HC i a v0 El) as [q [Hq Hv]]. rewrite Ep in Hq. injection Hq as <-. subst. split; reflexivity.
  - destruct (nth_error (objs P V s) i) as [p|]; split; reflexivity.
Qed.

Theorem answers_current (ops : list (op P)) : forall s, consistent s ->
  snd (run s ops) = spec_run P V f (objs P V s) ops.
Proof.
  induction ops as [|o ops IH]; intros s HC; [reflexivity|].
  cbn [Cache.run spec_run].
  pose proof (step_refines s o HC) as [H1 H2]. pose proof (step_consistent s o HC) as HC'.
  destruct (step s o) as [s' r] eqn:Es. cbn [fst snd] in *.
  destruct (spec_step P V f (objs P V s) o) as [l' r'] eqn:El. cbn [fst snd] in *. subst.
  specialize (IH s' HC'). destruct (run s' ops) as [s'' rs] eqn:Er. cbn [snd] in *.
  rewrite IH. reflexivity.
Qed.

Corollary answers_current_from_init (ops : list (op P)) :
  snd (run (init P V) ops) = spec_run P V f [] ops.
Proof. apply answers_current, consistent_init. Qed.

(* in the specification, changing object i never changes what object j <> i answers *)
Lemma upd_other (l : list P) i j p : i <> j -> nth_error (upd P i p l) j = nth_error l j.
Proof.
  revert i j. induction l as [|h t IH]; intros [|i] [|j] H; cbn; try congruence; try lia; try reflexivity.
  apply IH. lia.
Qed.

Theorem derived_objects_unaffected (l : list P) i j p a : i <> j ->
  snd (spec_step P V f (fst (spec_step P V f l (Set_ P i p))) (Call P j a)) =
  snd (spec_step P V f l (Call P j a)).
Proof. intros H. cbn. rewrite upd_other by exact H. reflexivity. Qed.

(* a copy answers from the parameters the original had when it was copied *)
Theorem copy_is_independent (l : list P) i p q a : nth_error l i = Some q ->
  let l1 := fst (spec_step P V f l (Copy P i)) in
  let l2 := fst (spec_step P V f l1 (Set_ P i p)) in
  snd (spec_step P V f l2 (Call P (length l) a)) = Some (f q a).
Proof.
  intros Hq. cbn. rewrite Hq. cbn.
  assert (Hi : i < length l) by (apply nth_error_Some; congruence).
  rewrite upd_other by lia. rewrite nth_error_app2 by lia. rewrite Nat.sub_diag. reflexivity.
Qed.
End CacheSpec.
