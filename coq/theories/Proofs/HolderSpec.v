From Coq Require Import Arith List Bool Lia.
From OQ Require Import Model.Holder.
Import ListNotations.

Section HolderSpec.
Variables V R : Type.
Variable g : V -> R.
Local Notation hop := (hop V).
Local Notation hst := (hst V).

Lemma nth_error_snoc (l : list V) v a :
  nth_error (l ++ [v]) a = if Nat.eqb a (length l) then Some v else nth_error l a.
Proof.
  destruct (Nat.eqb_spec a (length l)) as [->|Hne].
  - rewrite nth_error_app2 by lia. rewrite Nat.sub_diag. reflexivity.
  - destruct (Nat.lt_ge_cases a (length l)) as [Hlt|Hge].
    + apply nth_error_app1. exact Hlt.
    + assert (Hn : nth_error l a = None) by (apply nth_error_None; lia). rewrite Hn.
      apply nth_error_None. rewrite app_length. cbn. lia.
Qed.

Lemma upd_length b (v : V) l : length (hupd V b v l) = length l.
Proof. revert b; induction l as [|h t IH]; intros [|b]; cbn; auto. Qed.

Lemma nth_error_upd b (v : V) l a :
  nth_error (hupd V b v l) a = if Nat.eqb a b && Nat.ltb b (length l) then Some v else nth_error l a.
Proof.
  revert b a; induction l as [|h t IH]; intros b a.
  - cbn. destruct b; cbn; rewrite andb_false_r; reflexivity.
  - destruct b as [|b]; destruct a as [|a]; cbn [hupd nth_error length]; try reflexivity.
    + rewrite IH. cbn [Nat.eqb]. change (S b <? S (length t)) with (b <? length t). reflexivity.
Qed.

(* the state after a history = what the history says *)
Definition Inv (hr : list hop) (s : hst) : Prop :=
  length (arrays V s) = n_arrays V hr /\
  (forall a, nth_error (arrays V s) a = value_rev V hr a) /\
  objs V s = rev (built_rev V hr).

Lemma inv_init : Inv [] (hinit V).
Proof. repeat split. intros a. destruct a; reflexivity. Qed.

Lemma step_inv hr s o : Inv hr s ->
  Inv (o :: hr) (fst (hstep V R g s o)) /\ snd (hstep V R g s o) = spec_answer V R g hr o.
Proof.
  intros (Hlen & Hval & Hobj). destruct o as [v|b v|b|i]; cbn [hstep fst snd spec_answer].
  - split; [|reflexivity]. repeat split; cbn [arrays objs n_arrays value_rev built_rev].
    + rewrite app_length. cbn. lia.
    + intros a. rewrite nth_error_snoc, Hlen. destruct (Nat.eqb a (n_arrays V hr)); [reflexivity|apply Hval].
    + exact Hobj.
  - split; [|reflexivity]. repeat split; cbn [arrays objs n_arrays value_rev built_rev].
    + rewrite upd_length. exact Hlen.
    + intros a. rewrite nth_error_upd, Hlen. destruct (Nat.eqb a b && Nat.ltb b (n_arrays V hr)); [reflexivity|apply Hval].
    + exact Hobj.
  - split; [|reflexivity]. rewrite (Hval b). unfold Inv. cbn [built_rev n_arrays value_rev].
    destruct (value_rev V hr b) as [v|] eqn:E.
    + repeat split; cbn [arrays objs]; try assumption. cbn [rev]. rewrite Hobj. reflexivity.
    + repeat split; assumption.
  - split.
    + repeat split; cbn [n_arrays value_rev built_rev]; assumption.
    + rewrite Hobj. reflexivity.
Qed.

Lemma run_from hr s ops : Inv hr s -> hrun V R g s ops = spec_from V R g hr ops.
Proof.
  revert hr s; induction ops as [|o t IH]; intros hr s H; [reflexivity|].
  cbn [hrun spec_from]. destruct (hstep V R g s o) as [s' r] eqn:E.
  destruct (step_inv hr s o H) as [H1 H2]. rewrite E in H1, H2. cbn [fst snd] in H1, H2.
  rewrite H2. f_equal. apply IH. exact H1.
Qed.

Theorem holders_snapshot ops : hrun V R g (hinit V) ops = spec_answers V R g ops.
Proof. apply run_from. apply inv_init. Qed.

(* corollary in words: a write after the constructor call does not change the answer *)
Corollary later_write_invisible (pre : list hop) a v i :
  let ops1 := pre ++ [Build V a; Compute V i] in
  let ops2 := pre ++ [Build V a; Write V a v; Compute V i] in
  last (hrun V R g (hinit V) ops1) None = last (hrun V R g (hinit V) ops2) None.
Proof.
  cbv zeta. rewrite !holders_snapshot. unfold spec_answers.
  assert (Hsplit : forall hr ops o, spec_from V R g hr (ops ++ [o]) = spec_from V R g hr ops ++ [spec_answer V R g (rev ops ++ hr) o]).
  { intros hr ops; revert hr; induction ops as [|x t IH]; intros hr o; [reflexivity|].
    cbn [app spec_from rev]. rewrite IH. rewrite <- app_assoc. reflexivity. }
  replace (pre ++ [Build V a; Compute V i]) with ((pre ++ [Build V a]) ++ [Compute V i]) by (rewrite <- app_assoc; reflexivity).
  replace (pre ++ [Build V a; Write V a v; Compute V i]) with ((pre ++ [Build V a; Write V a v]) ++ [Compute V i]) by (rewrite <- app_assoc; reflexivity).
  rewrite !Hsplit, !last_last. rewrite !rev_app_distr. cbn [rev app spec_answer built_rev]. reflexivity.
Qed.
End HolderSpec.

(* aliasing constructors violate the specification *)
Lemma alias_refuted :
  alias_run nat nat (fun v => v) (alias_init nat) [Alloc nat 1; Build nat 0; Write nat 0 2; Compute nat 0]
  <> spec_answers nat nat (fun v => v) [Alloc nat 1; Build nat 0; Write nat 0 2; Compute nat 0].
Proof. vm_compute. discriminate. Qed.
