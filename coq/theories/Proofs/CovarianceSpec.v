From Coq Require Import Arith List Bool Lia Ring.
From OQ Require Import Lib.RingSum Model.SuperOps Proofs.SuperOpsSpec.
Import ListNotations.

Section Covariance.
Variable K : Ring.
Add Ring Kring5 : (rth K).
Open Scope rg_scope.
Local Notation M2 := (M2 K).
Variable d : nat.

Definition mv (A : M2) (v : nat -> K) : nat -> K := fun i => sumn d (fun x => A i x * v x).
Definition eq_on (A B : M2) : Prop := forall i j, i < d -> j < d -> A i j = B i j.
Definition is_id (I : M2) : Prop := forall i j, i < d -> j < d -> I i j = delta i j.

Lemma mm_assoc (A B C : M2) i l : mm d (mm d A B) C i l = mm d A (mm d B C) i l.
Proof.
  unfold mm.
  rewrite (sumn_ext K d (fun x => sumn d (fun x0 => A i x0 * B x0 x) * C x l)
                        (fun x => sumn d (fun x0 => A i x0 * B x0 x * C x l)))
    by (intros; rewrite sumn_mul_r; reflexivity).
  rewrite sumn_exchange. apply sumn_ext. intros y _. rewrite <- sumn_mul_l.
  apply sumn_ext. intros x _. ring.
Qed.

Lemma mm_mv (A B : M2) v i : mv (mm d A B) v i = mv A (mv B v) i.
Proof.
  unfold mv, mm.
  rewrite (sumn_ext K d (fun x => sumn d (fun x0 => A i x0 * B x0 x) * v x)
                        (fun x => sumn d (fun x0 => A i x0 * B x0 x * v x)))
    by (intros; rewrite sumn_mul_r; reflexivity).
  rewrite sumn_exchange. apply sumn_ext. intros y _. rewrite <- sumn_mul_l.
  apply sumn_ext. intros x _. ring.
Qed.

Lemma mm_ext_r (A B B' : M2) i j : j < d -> (forall x, x < d -> B x j = B' x j) -> mm d A B i j = mm d A B' i j.
Proof. intros Hj H. unfold mm. apply sumn_ext. intros x Hx. rewrite H by exact Hx. reflexivity. Qed.

Lemma mm_id_r (A I : M2) i j : is_id I -> j < d -> mm d A I i j = A i j.
Proof.
  intros HI Hj. unfold mm.
  rewrite (sumn_ext K d _ (fun x => A i x * delta x j)) by (intros x Hx; rewrite HI by assumption; reflexivity).
  apply (sum_delta_r K d j (fun x => A i x) Hj).
Qed.

Lemma mv_id (I : M2) v i : is_id I -> i < d -> mv I v i = v i.
Proof.
  intros HI Hi. unfold mv.
  rewrite (sumn_ext K d _ (fun x => delta x i * v x)).
  - apply (sum_delta_l K d i v Hi).
  - intros x Hx. rewrite HI by assumption. unfold delta. rewrite Nat.eqb_sym. reflexivity.
Qed.

Lemma mv_ext (A : M2) v v' i : (forall x, x < d -> v x = v' x) -> mv A v i = mv A v' i.
Proof. intros H. unfold mv. apply sumn_ext. intros x Hx. rewrite H by exact Hx. reflexivity. Qed.

(* ---- change of basis --------------------------------------------------------------------
   W: the superoperator rho -> V rho V^dagger, Winv its inverse (Winv W = 1).  In the rotated
   problem: Uin' = Uin Winv, Uout' = W Uout, every propagator P' = W P Winv, rho0' = W rho0. *)
Variables W Winv : M2.
Hypothesis Winv_W : is_id (mm d Winv W).

Variables Uin Uout : M2.
Let Uin' : M2 := mm d Uin Winv.
Let Uout' : M2 := mm d W Uout.
Definition rot (P : M2) : M2 := mm d (mm d W P) Winv.

Lemma rot_mv (P : M2) v y : mv (rot P) v y = mv W (mv P (mv Winv v)) y.
Proof. unfold rot. rewrite !mm_mv. reflexivity. Qed.

Lemma cancel v x : x < d -> mv Winv (mv W v) x = v x.
Proof. intros Hx. rewrite <- mm_mv. apply mv_id; assumption. Qed.

(* what the path sum sees of the first half step *)
Theorem first_point_invariant (P1 : M2) (rho0 : nat -> K) i :
  mv (mm d Uin' (rot P1)) (mv W rho0) i = mv (mm d Uin P1) rho0 i.
Proof.
  unfold Uin'. rewrite !mm_mv. apply mv_ext. intros x Hx.
  etransitivity; [apply mv_ext; intros; apply rot_mv|].
  rewrite cancel by exact Hx. apply mv_ext. intros y Hy. apply cancel. exact Hy.
Qed.

(* ... of the propagation between consecutive time points (in the coupling eigenbasis),
   as an action on an arbitrary vector (column of Uout included) *)
Theorem transition_invariant (P1 P2 : M2) (v : nat -> K) i :
  mv (mm d (mm d (mm d Uin' (rot P1)) (rot P2)) Uout') v i = mv (mm d (mm d (mm d Uin P1) P2) Uout) v i.
Proof.
  unfold Uin', Uout'. rewrite !mm_mv. apply mv_ext. intros x Hx.
  etransitivity; [apply mv_ext; intros; apply rot_mv|].
  rewrite cancel by exact Hx. apply mv_ext. intros y Hy.
  etransitivity; [apply mv_ext; intros; apply rot_mv|].
  rewrite cancel by exact Hy. apply mv_ext. intros z Hz.
  etransitivity; [apply mv_ext; intros; apply mm_mv|]. apply cancel. exact Hz.
Qed.

(* ... and the read-out is rotated by W: the rotated problem returns W applied to the state *)
Theorem readout_covariant (P2 : M2) (v : nat -> K) i :
  mv (mm d (rot P2) Uout') v i = mv W (mv (mm d P2 Uout) v) i.
Proof.
  unfold Uout'. rewrite mm_mv. rewrite rot_mv. apply mv_ext. intros x Hx.
  rewrite mm_mv. apply mv_ext. intros y Hy.
  etransitivity; [apply mv_ext; intros; apply mm_mv|]. apply cancel. exact Hy.
Qed.
End Covariance.

(* ---- the basis-change superoperator of a unitary is invertible --------------------------- *)
Section SuperU.
Variable K : Ring.
Add Ring Kring6 : (rth K).
Open Scope rg_scope.
Variable conj : K -> K.
Hypothesis conj_mul : forall a b, conj (a * b) = conj a * conj b.
Hypothesis conj_delta : forall a b, conj (delta a b) = delta a b :> K.
Hypothesis conj_invol : forall a, conj (conj a) = a.
Hypothesis conj_sumn : forall n f, conj (sumn n f) = sumn n (fun i => conj (f i)).
Variable d : nat.
Variable U : M2 K.
(* U U^dagger = 1 *)
Hypothesis unitary : forall i m, i < d -> m < d -> sumn d (fun k => U i k * conj (U m k)) = delta i m.

Theorem super_u_inverse i j m n : i < d -> j < d -> m < d -> n < d ->
  sumn d (fun k => sumn d (fun l =>
     lrs_f U (dag conj U) i j k l * lrs_f (dag conj U) U k l m n)) = delta i m * delta j n.
Proof.
  intros Hi Hj Hm Hn. unfold lrs_f, dag.
  rewrite <- (unitary i m Hi Hm).
  assert (E : delta j n = sumn d (fun l => conj (U j l) * U n l) :> K).
  { rewrite <- (conj_delta j n), <- (unitary j n Hj Hn), conj_sumn. apply sumn_ext. intros l _.
    rewrite conj_mul, conj_invol. reflexivity. }
  rewrite E. rewrite <- sumn_mul_r. apply sumn_ext. intros k _. rewrite <- sumn_mul_l.
  apply sumn_ext. intros l _. ring.
Qed.
End SuperU.
