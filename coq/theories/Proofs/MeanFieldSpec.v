From Coq Require Import List Arith Lia.
From OQ Require Import Model.MeanField.
Import ListNotations.

Section Agree.
Variable T : Type.
Variables (add mul : T -> T -> T) (half : T -> T) (of_nat : nat -> T).
Variable f : T -> nat -> T -> T.
Variables start dt : T.
Local Notation mft := (mft T add mul half of_nat f start dt).
Local Notation cdwf := (cdwf T add mul half of_nat f start dt).
Local Notation cdwf_loop := (cdwf_loop T add mul half of_nat f start dt).
Local Notation heun := (heun T add mul half f dt).
Local Notation time := (time T add mul of_nat start dt).

Lemma cdwf_loop_mft n : forall s a,
  mft (S n) s a = (a :: fst (cdwf_loop n (S s) a), (time s, s, a) :: snd (cdwf_loop n (S s) a)).
Proof.
  induction n as [|n IH]; intros s a.
  - cbn [MeanField.mft MeanField.cdwf_loop]. replace (S s - 1) with s by lia.
    fold (time s). destruct (heun (time s) s a) as [a' calls]. cbn. rewrite app_nil_r. reflexivity.
  - change (mft (S (S n)) s a) with
      (let t := time s in
       let '(a', calls) := heun t s a in
       let '(fields, rest) := mft (S n) (S s) a' in (a :: fields, (t, s, a) :: calls ++ rest)).
    change (cdwf_loop (S n) (S s) a) with
      (let '(a0, calls) := heun (add start (mul (of_nat (S s - 1)) dt)) (S s - 1) a in
       let '(fields, rest) := cdwf_loop n (S (S s)) a0 in (a0 :: fields, calls ++ (time (S s), S s, a0) :: rest)).
    replace (S s - 1) with s by lia. fold (time s). cbv zeta.
    destruct (heun (time s) s a) as [a' calls]. rewrite IH.
    destruct (cdwf_loop n (S (S s)) a') as [fields rest]. reflexivity.
Qed.

(* the two drivers evaluate the field equation of motion at the same (time, states, field)
   triples in the same order and produce the same field sequence, for every number of steps,
   start time, time step, initial field and equation of motion *)
Theorem methods_agree N a0 : mft N 0 a0 = cdwf N a0.
Proof.
  destruct N as [|n]; [reflexivity|]. rewrite cdwf_loop_mft. unfold MeanField.cdwf.
  destruct (cdwf_loop n 1 a0) as [fields rest]. reflexivity.
Qed.

(* the stages of one step: stage 1 at (t_k, states_k, a_k), stage 2 at (t_k + dt, states_{k+1},
   a_k + dt*k1); the update is a_k + dt*(k1+k2)/2 *)
Theorem heun_args t k a :
  let k1 := f t k a in
  let k2 := f (add t dt) (S k) (add a (mul k1 dt)) in
  heun t k a = (add a (half (mul dt (add k1 k2))), [(t, k, a); (add t dt, S k, add a (mul k1 dt))]).
Proof. reflexivity. Qed.
End Agree.

From Coq Require Import QArith Qring Qfield.
(* ---- exactness for equations of motion linear in time (rationals) --------------------------- *)
Section Exact.
Variables alpha beta : Q.
Definition flin (t : Q) (k : nat) (a : Q) : Q := alpha + beta * t.
Definition qhalf (x : Q) : Q := x / 2.
Definition qnat (n : nat) : Q := inject_Z (Z.of_nat n).

Lemma heun_linear_step (dt t a : Q) k :
  fst (heun Q Qplus Qmult qhalf flin dt t k a) == a + alpha * dt + beta * ((t + dt) * (t + dt) - t * t) / 2.
Proof. unfold heun, flin, qhalf. cbn [fst]. field. Qed.

(* antiderivative of alpha + beta t *)
Definition F (t : Q) : Q := alpha * t + beta * t * t / 2.

Lemma qnat_S n : qnat (S n) == qnat n + 1.
Proof. unfold qnat. rewrite Nat2Z.inj_succ, <- Z.add_1_r, inject_Z_plus. reflexivity. Qed.

Theorem heun_exact_linear (start dt : Q) n : forall k a d,
  nth n (fst (mft Q Qplus Qmult qhalf qnat flin start dt n k a)) d ==
  a + (F (start + qnat (k + n) * dt) - F (start + qnat k * dt)).
Proof.
  induction n as [|n IH]; intros k a d.
  - cbn. rewrite Nat.add_0_r. unfold F. ring.
  - cbn [MeanField.mft].
    destruct (heun Q Qplus Qmult qhalf flin dt (time Q Qplus Qmult qnat start dt k) k a) as [a' calls] eqn:E.
    destruct (mft Q Qplus Qmult qhalf qnat flin start dt n (S k) a') as [fields rest] eqn:E2.
    cbn [fst nth]. specialize (IH (S k) a' d). rewrite E2 in IH. cbn [fst] in IH. rewrite IH.
    assert (Ha : a' == a + alpha * dt + beta * ((time Q Qplus Qmult qnat start dt k + dt) * (time Q Qplus Qmult qnat start dt k + dt)
                       - time Q Qplus Qmult qnat start dt k * time Q Qplus Qmult qnat start dt k) / 2).
    { rewrite <- heun_linear_step with (k := k). rewrite E. reflexivity. }
    rewrite Ha. unfold time, F. replace (S k + n)%nat with (k + S n)%nat by lia.
    rewrite (qnat_S k). field.
Qed.
End Exact.
