(* The path sum depends on the influence functions only through their entries at valid indices;
   hence evaluating them at class representatives (degeneracy reduction) changes nothing. *)
From Coq Require Import Arith List Bool Lia Ring.
From OQ Require Import Lib.RingSum Lib.Mat Model.PathSum Model.Degeneracy Proofs.PathSumSpec Proofs.DegeneracySpec.
Import ListNotations.

Section PathSumExt.
Variable K : Ring.
Add Ring Kring6 : (rth K).
Open Scope rg_scope.
Local Notation mat := (list (list K)).

Variable d2 : nat.
Variables uin uout : mat.
Variable props : nat -> mat * mat.
Variable rho0 : list K.
Variables diag0 diag0' : nat -> K.
Variables coef coef' : nat -> nat -> option mat.

Definition coef_agree : Prop :=
  forall kp k, match coef kp k, coef' kp k with
               | Some m, Some m' => forall jp j, jp < d2 -> j < d2 -> entry K m jp j = entry K m' jp j
               | None, None => True
               | _, _ => False
               end.

Hypothesis Hdiag : forall j, j < d2 -> diag0 j = diag0' j.
Hypothesis Hcoef : coef_agree.

Lemma cells_ext k j : j < d2 -> forall l kp, (forall x, In x l -> x < d2) ->
  cells coef k j kp l = cells coef' k j kp l.
Proof.
  intros Hj l. induction l as [|jp l IH]; intros kp Hl; cbn [PathSum.cells]; [reflexivity|].
  rewrite (IH (S kp)) by (intros x Hx; apply Hl; right; exact Hx).
  specialize (Hcoef kp k). destruct (coef kp k) as [m|], (coef' kp k) as [m'|]; try contradiction; [|reflexivity].
  rewrite (Hcoef jp j) by (try exact Hj; apply Hl; left; reflexivity). reflexivity.
Qed.

Lemma amp_ext p : (forall x, In x p -> x < d2) ->
  amp diag0 coef uin uout props rho0 p = amp diag0' coef' uin uout props rho0 p.
Proof.
  induction p as [|j p IH]; intros Hp; [reflexivity|]. cbn [PathSum.amp].
  rewrite IH by (intros x Hx; apply Hp; right; exact Hx).
  rewrite (Hdiag j) by (apply Hp; left; reflexivity).
  rewrite (cells_ext (length p) j) by (try (apply Hp; left; reflexivity); intros x Hx; apply in_rev in Hx; apply Hp; right; exact Hx).
  reflexivity.
Qed.

Theorem state_ext n :
  state d2 diag0 coef uin uout props rho0 n = state d2 diag0' coef' uin uout props rho0 n.
Proof.
  destruct n as [|n]; [reflexivity|]. unfold state. apply map_ext. intros s. unfold state_entry.
  f_equal. apply map_ext_in. intros p Hp. rewrite amp_ext; [reflexivity|].
  intros x Hx. eapply all_paths_bound; eassumption.
Qed.
End PathSumExt.

(* ---- degeneracy reduction ---------------------------------------------------------------------- *)
Section Unique.
Variable K : Ring.
Local Notation mat := (list (list K)).
Variables (KeyN KeyW : Type) (keqN : KeyN -> KeyN -> bool) (keqW : KeyW -> KeyW -> bool).
Hypothesis keqN_refl : forall x, keqN x x = true.
Hypothesis keqN_eq : forall x y, keqN x y = true -> x = y.
Hypothesis keqW_refl : forall x, keqW x x = true.
Hypothesis keqW_eq : forall x y, keqW x y = true -> x = y.
Variable d2 : nat.
Variables (keysN : list KeyN) (keysW : list KeyW) (dN : KeyN) (dW : KeyW).
Hypothesis HlenN : length keysN = d2.
Hypothesis HlenW : length keysW = d2.
Variables uin uout : mat.
Variable props : nat -> mat * mat.
Variable rho0 : list K.
Variable diag0 : nat -> K.
Variable full : nat -> nat -> option mat.

Local Notation repN := (fun i => rep_of KeyN keqN keysN i dN).
Local Notation repW := (fun i => rep_of KeyW keqW keysW i dW).

(* the influence functions see the earlier index through its north key (commutator and
   anti-commutator eigenvalue) and the later index through its west key (commutator eigenvalue) *)
Hypothesis full_keys : forall kp k m, full kp k = Some m ->
  forall jp jp' j j', jp < d2 -> jp' < d2 -> j < d2 -> j' < d2 ->
    nth jp keysN dN = nth jp' keysN dN -> nth j keysW dW = nth j' keysW dW -> entry K m jp j = entry K m jp' j'.
Hypothesis diag_keys : forall j j', j < d2 -> j' < d2 -> nth j keysN dN = nth j' keysN dN -> diag0 j = diag0 j'.

(* what the back-end uses with unique=True: the influence evaluated at class representatives only *)
Variable red : nat -> nat -> option mat.
Hypothesis red_spec : forall kp k,
  match full kp k, red kp k with
  | Some m, Some r => forall jp j, jp < d2 -> j < d2 -> entry K r jp j = entry K m (repN jp) (repW j)
  | None, None => True
  | _, _ => False
  end.

Theorem unique_eq_full n :
  state d2 (fun j => diag0 (repN j)) red uin uout props rho0 n = state d2 diag0 full uin uout props rho0 n.
Proof.
  apply state_ext.
  - intros j Hj. cbv beta.
    destruct (class_map_sound KeyN keqN keqN_refl keqN_eq keysN j dN) as [Hb He]; [lia|].
    apply diag_keys; [lia|exact Hj|exact He].
  - intros kp k. specialize (red_spec kp k). specialize (full_keys kp k).
    destruct (full kp k) as [m|], (red kp k) as [r|]; try contradiction; [|exact I].
    intros jp j Hjp Hj. rewrite (red_spec jp j Hjp Hj).
    destruct (class_map_sound KeyN keqN keqN_refl keqN_eq keysN jp dN) as [Hb He]; [lia|].
    destruct (class_map_sound KeyW keqW keqW_refl keqW_eq keysW j dW) as [Hb' He']; [lia|].
    apply (full_keys m eq_refl); try lia; assumption.
Qed.
End Unique.
