(* The whole TEMPO / PT-TEMPO path sum preserves Hermiticity: exchanging the forward and the backward
   branch index of every point of a path conjugates its amplitude, and the set of paths is invariant. *)
From Coq Require Import Arith List Bool Lia Ring.
From OQ Require Import Lib.RingSum Lib.Mat Model.PathSum Proofs.PathSumSpec Proofs.PathSumTrace.
Import ListNotations.

Section PathSumHerm.
Variable K : Ring.
Add Ring Kring7 : (rth K).
Open Scope rg_scope.
Local Notation mat := (list (list K)).

Variable conj : K -> K.
Hypothesis conj_add : forall a b, conj (a + b) = conj a + conj b.
Hypothesis conj_mul : forall a b, conj (a * b) = conj a * conj b.
Hypothesis conj_0 : conj r0 = r0.
Hypothesis conj_1 : conj r1 = r1.

Variable d2 : nat.
Variable sw : nat -> nat.                 (* (a,b) |-> (b,a) on the vectorised index *)
Hypothesis sw_lt : forall i, i < d2 -> sw i < d2.
Hypothesis sw_inv : forall i, i < d2 -> sw (sw i) = i.

Variable diag0 : nat -> K.
Variable coef : nat -> nat -> option mat.
Variables uin uout : mat.
Variable props : nat -> mat * mat.
Variable rho0 : list K.

Local Notation amp := (amp diag0 coef uin uout props rho0).
Local Notation cur := (cur uout props rho0).
Local Notation state_entry := (state_entry d2 diag0 coef uin uout props rho0).
Local Notation square := (square K d2).

Lemma conj_sumn n f : conj (sumn n f) = sumn n (fun i => conj (f i)).
Proof. induction n as [|n IH]; cbn [sumn]; [exact conj_0|]. rewrite conj_add, IH. reflexivity. Qed.

Lemma conj_suml l : conj (suml l) = suml (map conj l).
Proof. induction l as [|x l IH]; cbn [suml map]; [exact conj_0|]. rewrite conj_add, IH. reflexivity. Qed.

(* sums are invariant under the involution *)
Lemma sumn_involution (g : nat -> K) : sumn d2 (fun i => g (sw i)) = sumn d2 g.
Proof.
  rewrite (sumn_ext K d2 _ (fun i => sumn d2 (fun j => if Nat.eqb (sw i) j then g j else r0))).
  2:{ intros i Hi. rewrite (sumn_delta' K d2 (sw i) g) by (apply sw_lt; exact Hi). reflexivity. }
  rewrite sumn_exchange. apply sumn_ext. intros j Hj.
  rewrite (sumn_ext K d2 _ (fun i => if Nat.eqb i (sw j) then g j else r0)).
  - rewrite (sumn_delta K d2 (sw j) (fun _ => g j)) by (apply sw_lt; exact Hj). reflexivity.
  - intros i Hi. destruct (Nat.eqb_spec (sw i) j) as [E|E], (Nat.eqb_spec i (sw j)) as [E'|E']; try reflexivity.
    + exfalso. apply E'. rewrite <- E. symmetry. apply sw_inv. exact Hi.
    + exfalso. apply E. rewrite E'. apply sw_inv. exact Hj.
Qed.

(* v' is the "exchanged conjugate" of v *)
Definition rel (v' v : list K) : Prop := forall i, i < d2 -> nth (sw i) v' r0 = conj (nth i v r0).
Definition hmat (m : mat) : Prop := forall i j, i < d2 -> j < d2 -> entry K m (sw i) (sw j) = conj (entry K m i j).

Lemma rel_mvec (m : mat) v' v : square m -> hmat m -> length v' = d2 -> length v = d2 ->
  rel v' v -> rel (mvec m v') (mvec m v).
Proof.
  intros Hm Hh Hv' Hv Hr i Hi.
  rewrite (nth_mvec K d2 m v' (sw i) Hm Hv' (sw_lt i Hi)), (nth_mvec K d2 m v i Hm Hv Hi).
  rewrite conj_sumn. rewrite <- (sumn_involution (fun j => entry K m (sw i) j * nth j v' r0)).
  apply sumn_ext. intros j Hj. cbv beta. rewrite (Hh i j Hi Hj), (Hr j Hj), conj_mul. reflexivity.
Qed.

Lemma mvec_len (m : mat) v : length (mvec m v) = length m.
Proof. unfold mvec. apply map_length. Qed.

Hypothesis Huin : square uin.
Hypothesis Huout : square uout.
Hypothesis Hprops : forall k, square (fst (props k)) /\ square (snd (props k)).
Hypothesis Hrho : length rho0 = d2.
(* every factor maps Hermitian matrices to Hermitian matrices; the initial state is Hermitian *)
Hypothesis Cuin : hmat uin.
Hypothesis Cuout : hmat uout.
Hypothesis Cprops : forall k, hmat (fst (props k)) /\ hmat (snd (props k)).
Hypothesis Crho : rel rho0 rho0.
(* the influence functions: exchanging the branches of both indices conjugates them *)
Hypothesis Cdiag : forall j, j < d2 -> diag0 (sw j) = conj (diag0 j).
Hypothesis Ccoef : forall kp k m jp j, coef kp k = Some m -> jp < d2 -> j < d2 ->
  entry K m (sw jp) (sw j) = conj (entry K m jp j).

Definition bounded (p : list nat) : Prop := forall x, In x p -> x < d2.
Definition swp (p : list nat) : list nat := map sw p.

Lemma swp_bounded p : bounded p -> bounded (swp p).
Proof. intros H x Hx. apply in_map_iff in Hx. destruct Hx as [y [<- Hy]]. apply sw_lt. apply H. exact Hy. Qed.

Lemma cur_len k p : length (cur k p) = d2.
Proof.
  destruct k as [|k]; cbn [PathSum.cur]; [exact Hrho|]. rewrite mvec_len. exact (proj1 (proj2 (Hprops k))).
Qed.

Lemma rel_mcol j : j < d2 -> rel (mcol K uout (sw j)) (mcol K uout j).
Proof. intros Hj i Hi. rewrite !nth_mcol. apply Cuout; assumption. Qed.

Lemma mcol_len (m : mat) j : length (mcol K m j) = length m.
Proof. unfold mcol. apply map_length. Qed.

(* the state a path leads to *)
Lemma cur_sw k p : bounded p -> length p = k -> rel (cur k (swp p)) (cur k p).
Proof.
  intros Hb Hl. destruct k as [|k]; cbn [PathSum.cur]; [exact Crho|].
  destruct p as [|j p]; [discriminate|]. cbn [swp map hd].
  apply rel_mvec; try exact (proj2 (Hprops k)); try exact (proj2 (Cprops k));
    try (rewrite mcol_len; exact (proj1 Huout)).
  apply rel_mcol. apply Hb. left. reflexivity.
Qed.

Lemma cells_sw k j : j < d2 -> forall l kp, bounded l ->
  cells coef k (sw j) kp (map sw l) = conj (cells coef k j kp l).
Proof.
  intros Hj l. induction l as [|jp l IH]; intros kp Hl; cbn [PathSum.cells map]; [symmetry; exact conj_1|].
  rewrite conj_mul, <- (IH (S kp)) by (intros x Hx; apply Hl; right; exact Hx).
  f_equal. destruct (coef kp k) as [m|] eqn:Hc; [|symmetry; exact conj_1].
  apply (Ccoef kp k m jp j Hc); [apply Hl; left; reflexivity|exact Hj].
Qed.

Lemma amp_sw p : bounded p -> amp (swp p) = conj (amp p).
Proof.
  induction p as [|j p IH]; intros Hb; [symmetry; exact conj_1|].
  assert (Hbp : bounded p) by (intros x Hx; apply Hb; right; exact Hx).
  assert (Hj : j < d2) by (apply Hb; left; reflexivity).
  change (swp (j :: p)) with (sw j :: swp p). rewrite !(amp_cons K).
  assert (Hlen : length (swp p) = length p) by (unfold swp; apply map_length).
  rewrite !Hlen. change (rev (swp p)) with (rev (map sw p)).
  rewrite !conj_mul. rewrite (IH Hbp). rewrite (Cdiag j Hj).
  rewrite <- map_rev. rewrite (cells_sw (length p) j Hj (rev p) 0) by (intros x Hx; apply in_rev in Hx; apply Hbp; exact Hx).
  f_equal. f_equal. f_equal.
  assert (Hr : rel (mvec uin (mvec (fst (props (length p))) (cur (length p) (swp p))))
                   (mvec uin (mvec (fst (props (length p))) (cur (length p) p)))).
  { apply rel_mvec; try exact Huin; try exact Cuin; try (rewrite mvec_len; exact (proj1 (proj1 (Hprops (length p))))).
    apply rel_mvec; try exact (proj1 (Hprops (length p))); try exact (proj1 (Cprops (length p))); try apply cur_len.
    apply cur_sw; [exact Hbp|reflexivity]. }
  exact (Hr j Hj).
Qed.

(* the set of paths is invariant under exchanging the branches point by point *)
Lemma paths_reindex n : forall F : list nat -> K,
  suml (map F (all_paths d2 n)) = suml (map (fun p => F (swp p)) (all_paths d2 n)).
Proof.
  induction n as [|n IH]; intros F; [reflexivity|].
  change (all_paths d2 (S n)) with (flat_map (fun p => map (fun j => j :: p) (seq 0 d2)) (all_paths d2 n)).
  rewrite !flat_map_concat_map, !concat_map, !map_map, <- !flat_map_concat_map, !(suml_flat_map K).
  rewrite (suml_map_ext K _ (fun p => sumn d2 (fun j => F (j :: p)))).
  2:{ intros p _. rewrite map_map, (suml_map_seq K _ d2 0). reflexivity. }
  rewrite (suml_map_ext K (fun x => suml (map (fun p => F (swp p)) (map (fun j => j :: x) (seq 0 d2))))
                          (fun p => sumn d2 (fun j => F (j :: swp p)))).
  2:{ intros p _. rewrite map_map, (suml_map_seq K _ d2 0). cbn [Nat.add swp map].
      exact (sumn_involution (fun j => F (j :: swp p))). }
  exact (IH (fun p => sumn d2 (fun j => F (j :: p)))).
Qed.

Theorem pathsum_herm n s : s < d2 -> state_entry (S n) (sw s) = conj (state_entry (S n) s).
Proof.
  intros Hs. unfold PathSum.state_entry.
  rewrite (paths_reindex (S n) (fun p => amp p * nth (sw s) (cur (S n) p) r0)).
  rewrite conj_suml, map_map. apply (suml_map_ext K). intros p Hp.
  assert (Hb : bounded p) by (intros x Hx; eapply all_paths_bound; eassumption).
  assert (Hl : length p = S n) by (eapply all_paths_length; exact Hp).
  rewrite conj_mul, (amp_sw p Hb). f_equal. exact (cur_sw (S n) p Hb Hl s Hs).
Qed.
End PathSumHerm.
