(* Time bookkeeping of one PT-TEBD step: with the gates of Model/Chain.v carrying the site weights of
   get_nn_full_liouvillians and the layer fractions of compute_tebd_propagator, every site's own
   Liouvillian is applied for exactly one full time step per TEBD step — for every chain length >= 2,
   both Trotter orders.  (A gate that only adds its site weights to per-site clocks: the uncoupled
   chain, where the gates are products of single-site propagators.) *)
From Coq Require Import Arith List Bool Lia.
From OQ Require Import Model.Chain Proofs.ChainSpec.
Import ListNotations.

Section ChainTime.
Variable B : Type.
Variable db : B.
Variable n : nat.

(* a gate on bond l advances the clock of site l by weight(l, l) * frac and that of site l+1 by
   weight(l, l+1) * frac (units: 1/8 of a time step), and leaves the bond matrix alone *)
Definition clock_gate (frac : nat) (l : nat) (_ : B) (gl : nat) (lam : B) (gr : nat) (_ : B) : nat * B * nat :=
  (gl + weight2 n l l * frac, lam, gr + weight2 n l (S l) * frac).

Local Notation cstate := (cstate nat B).
Definition layer (frac : nat) (s : cstate) (ls : list nat) : cstate :=
  apply_layer_seq nat B (clock_gate frac) 0 db s ls.
Definition tebd_step (order : nat) (s : cstate) : cstate :=
  fold_left (layer (gate_fraction order)) (layers n order) s.

Definition wsum (ls : list nat) (i : nat) : nat := fold_right Nat.add 0 (map (fun b => weight2 n b i) ls).

Lemma upd_len {X} j (x : X) l : length (Chain.upd j x l) = length l.
Proof. revert j; induction l as [|h t IH]; intros [|j]; cbn; auto. Qed.

Lemma nth_upd_same {X} j (x d : X) l : j < length l -> nth j (Chain.upd j x l) d = x.
Proof. revert j; induction l as [|h t IH]; intros [|j] H; cbn in *; try lia; auto. apply IH; lia. Qed.

Lemma weight2_cases b i : weight2 n b i =
  if Nat.eqb i b then weight2 n b b else if Nat.eqb i (S b) then weight2 n b (S b) else 0.
Proof.
  unfold weight2. destruct (Nat.eqb_spec i b) as [->|H1].
  - rewrite Nat.eqb_refl. reflexivity.
  - destruct (Nat.eqb_spec i (S b)) as [->|H2]; [|reflexivity].
    destruct (Nat.eqb_spec (S b) b); [lia|]. rewrite Nat.eqb_refl. reflexivity.
Qed.

Lemma layer_clock frac ls : forall s : cstate, length (fst s) = n -> (forall b, In b ls -> S b < n) ->
  length (fst (layer frac s ls)) = n /\
  forall i, i < n -> nth i (fst (layer frac s ls)) 0 = nth i (fst s) 0 + wsum ls i * frac.
Proof.
  induction ls as [|l ls IH]; intros s Hlen Hb.
  - split; [exact Hlen|]. intros i _. cbn. lia.
  - unfold layer, apply_layer_seq. cbn [fold_left].
    set (s1 := apply_gate nat B (clock_gate frac) 0 db s l).
    assert (Hl : S l < n) by (apply Hb; left; reflexivity).
    assert (Hlen1 : length (fst s1) = n).
    { unfold s1, apply_gate, write, gate_result, clock_gate. cbn [fst]. rewrite !upd_len. exact Hlen. }
    assert (Hs1 : forall i, i < n -> nth i (fst s1) 0 = nth i (fst s) 0 + weight2 n l i * frac).
    { intros i Hi. unfold s1, apply_gate, write, gate_result, clock_gate. cbn [fst]. rewrite (weight2_cases l i).
      destruct (Nat.eqb_spec i l) as [->|H1].
      - rewrite (nth_upd_other (S l) l) by lia. rewrite nth_upd_same by lia. reflexivity.
      - destruct (Nat.eqb_spec i (S l)) as [->|H2].
        + rewrite nth_upd_same by (rewrite upd_len; lia). reflexivity.
        + rewrite (nth_upd_other (S l) i) by lia. rewrite (nth_upd_other l i) by lia. lia. }
    destruct (IH s1 Hlen1 (fun b Hb' => Hb b (or_intror Hb'))) as [IH1 IH2].
    split; [exact IH1|]. intros i Hi. fold (apply_layer_seq nat B (clock_gate frac) 0 db s1 ls). fold (layer frac s1 ls).
    rewrite (IH2 i Hi), (Hs1 i Hi). unfold wsum. cbn [map fold_right]. lia.
Qed.

(* the two layers together contain every bond once *)
Lemma wsum_partition i : wsum (evens n) i + wsum (odds n) i = total_weight2 n i.
Proof.
  unfold wsum, total_weight2, evens, odds. induction (bonds n) as [|b l IH]; [reflexivity|].
  cbn [filter map fold_right]. rewrite <- Nat.negb_even. destruct (Nat.even b); cbn [negb map fold_right]; lia.
Qed.

Lemma layer_bonds_ok ls : (forall b, In b ls -> In b (bonds n)) -> forall b, In b ls -> S b < n.
Proof. intros H b Hb. apply H in Hb. apply bonds_in in Hb. lia. Qed.

Lemma evens_ok b : In b (evens n) -> S b < n.
Proof. intros H. apply evens_in in H. lia. Qed.
Lemma odds_ok b : In b (odds n) -> S b < n.
Proof. intros H. apply odds_in in H. lia. Qed.

Theorem one_time_step_per_site order (s : cstate) : 2 <= n -> (order = 1 \/ order = 2) -> length (fst s) = n ->
  forall i, i < n -> nth i (fst (tebd_step order s)) 0 = nth i (fst s) 0 + 8.
Proof.
  intros Hn Ho Hlen i Hi. pose proof (site_factors n i Hn Hi) as Hw. rewrite <- wsum_partition in Hw.
  unfold tebd_step. destruct Ho as [-> | ->]; cbn [layers gate_fraction fold_left].
  - destruct (layer_clock 4 (evens n) s Hlen evens_ok) as [L1 E1].
    destruct (layer_clock 4 (odds n) _ L1 odds_ok) as [L2 E2].
    rewrite (E2 i Hi), (E1 i Hi). lia.
  - destruct (layer_clock 2 (evens n) s Hlen evens_ok) as [L1 E1].
    destruct (layer_clock 2 (odds n) _ L1 odds_ok) as [L2 E2].
    destruct (layer_clock 2 (odds n) _ L2 odds_ok) as [L3 E3].
    destruct (layer_clock 2 (evens n) _ L3 evens_ok) as [L4 E4].
    rewrite (E4 i Hi), (E3 i Hi), (E2 i Hi), (E1 i Hi). lia.
Qed.
End ChainTime.

(* The same with states instead of clocks: the uncoupled chain.  Every site i carries a state of some type S
   and a one-parameter family U i t of maps on it (t in eighths of a time step) with the semigroup law
   U i (a + b) = U i b . U i a  (the single-site propagators exp(t L_i): expm's contract, a section hypothesis).
   The gate of the uncoupled chain on bond l applies U l (weight * frac) to site l and U (l+1) (weight * frac) to
   site l+1.  After one TEBD step every site i is in the state U i 8 (one full time step of its own dynamics),
   for every chain length >= 2, both Trotter orders, every family U and every initial product state. *)
Section Uncoupled.
Variables (St B : Type) (ds : St) (db : B) (n : nat).
Variable U : nat -> nat -> St -> St.
Hypothesis U_add : forall i a b s, U i (a + b) s = U i b (U i a s).
Hypothesis U_zero : forall i s, U i 0 s = s.

Definition prod_gate (frac : nat) (l : nat) (_ : B) (gl : St) (lam : B) (gr : St) (_ : B) : St * B * St :=
  (U l (weight2 n l l * frac) gl, lam, U (S l) (weight2 n l (S l) * frac) gr).
Definition prod_layer (frac : nat) (s : Chain.cstate St B) (ls : list nat) : Chain.cstate St B :=
  apply_layer_seq St B (prod_gate frac) ds db s ls.
Definition prod_step (order : nat) (s : Chain.cstate St B) : Chain.cstate St B :=
  fold_left (prod_layer (gate_fraction order)) (layers n order) s.

(* simulation by the clock chain: site i of the product chain is U i (clock i) of its initial state *)
Definition sim (init : list St) (c : Chain.cstate nat B) (s : Chain.cstate St B) : Prop :=
  length (fst c) = n /\ length (fst s) = n /\ snd c = snd s /\
  forall i, i < n -> nth i (fst s) ds = U i (nth i (fst c) 0) (nth i init ds).

Lemma sim_gate init frac l c s : S l < n -> sim init c s ->
  sim init (apply_gate nat B (clock_gate B n frac) 0 db c l) (apply_gate St B (prod_gate frac) ds db s l).
Proof.
  intros Hl (Hc & Hs & Hlam & Hst). unfold sim, apply_gate, write, gate_result, clock_gate, prod_gate. cbn [fst snd].
  rewrite !upd_len. repeat split; try assumption.
  - rewrite Hlam. reflexivity.
  - intros i Hi. destruct (Nat.eq_dec i (S l)) as [->|H2].
    + rewrite !nth_upd_same by (rewrite upd_len; lia). rewrite U_add. rewrite <- Hst by lia. reflexivity.
    + rewrite !(nth_upd_other (S l) i) by lia. destruct (Nat.eq_dec i l) as [->|H1].
      * rewrite !nth_upd_same by lia. rewrite U_add. rewrite <- Hst by lia. reflexivity.
      * rewrite !(nth_upd_other l i) by lia. apply Hst. exact Hi.
Qed.

Lemma sim_layer init frac ls : (forall b, In b ls -> S b < n) -> forall c s, sim init c s ->
  sim init (layer B db n frac c ls) (prod_layer frac s ls).
Proof.
  induction ls as [|l ls IH]; intros Hb c s H; [exact H|].
  unfold layer, prod_layer, apply_layer_seq. cbn [fold_left].
  apply (IH (fun b Hb' => Hb b (or_intror Hb'))). apply sim_gate; [apply Hb; left; reflexivity|exact H].
Qed.

Theorem uncoupled_factorises order (s : Chain.cstate St B) : 2 <= n -> (order = 1 \/ order = 2) -> length (fst s) = n ->
  forall i, i < n -> nth i (fst (prod_step order s)) ds = U i 8 (nth i (fst s) ds).
Proof.
  intros Hn Ho Hlen i Hi.
  set (c0 := (repeat 0 n, snd s) : Chain.cstate nat B).
  assert (H0 : sim (fst s) c0 s).
  { unfold sim, c0. cbn [fst snd]. rewrite repeat_length. repeat split; try assumption; try reflexivity.
    intros j Hj. rewrite nth_repeat. rewrite U_zero. reflexivity. }
  assert (Hstep : sim (fst s) (tebd_step B db n order c0) (prod_step order s)).
  { unfold tebd_step, prod_step. destruct Ho as [-> | ->]; cbn [layers gate_fraction fold_left];
      repeat (apply sim_layer; [first [exact (evens_ok n) | exact (odds_ok n)]|]); exact H0. }
  destruct Hstep as (_ & _ & _ & Hst). rewrite (Hst i Hi).
  rewrite (one_time_step_per_site B db n order c0 Hn Ho) by (unfold c0; cbn [fst]; try apply repeat_length; exact Hi).
  unfold c0. cbn [fst]. rewrite nth_repeat. reflexivity.
Qed.
End Uncoupled.
