From Coq Require Import ZArith List Bool Arith Lia.
From OQ Require Import Model.Degeneracy.
Import ListNotations.

Section DegeneracySpec.
Variable Key : Type.
Variable keq : Key -> Key -> bool.
Hypothesis keq_refl : forall x, keq x x = true.
Hypothesis keq_eq : forall x y, keq x y = true -> x = y.

Lemma first_index_found x l : In x l ->
  first_index Key keq x l < length l /\ forall d, nth (first_index Key keq x l) l d = x.
Proof.
  induction l as [|y t IH]; intros H; [destruct H|]. cbn [first_index].
  destruct (keq y x) eqn:E.
  - split; [cbn; lia|]. intros d. cbn. apply keq_eq. exact E.
  - destruct H as [->|H]; [rewrite keq_refl in E; discriminate|].
    destruct (IH H) as [H1 H2]. split; [cbn; lia|]. intros d. cbn. apply H2.
Qed.

(* the representative of an index carries the same key: replacing an index by its class
   representative never changes a quantity that depends on the key only *)
Theorem class_map_sound keys i d : i < length keys ->
  rep_of Key keq keys i d < length keys /\
  nth (rep_of Key keq keys i d) keys d = nth i keys d.
Proof.
  intros Hi. unfold rep_of.
  destruct (first_index_found (nth i keys d) keys (nth_In keys d Hi)) as [H1 H2].
  split; [exact H1|apply H2].
Qed.

Lemma first_index_le x l i d : i < length l -> nth i l d = x -> first_index Key keq x l <= i.
Proof.
  revert i. induction l as [|y t IH]; intros i Hi Hx; [cbn in Hi; lia|]. cbn [first_index].
  destruct (keq y x) eqn:E; [lia|]. destruct i as [|i].
  - cbn in Hx. subst. rewrite keq_refl in E. discriminate.
  - cbn in Hi, Hx. specialize (IH i ltac:(lia) Hx). lia.
Qed.

(* the representative is the FIRST index of its class (what np.where(map == c)[0][0] returns) *)
Theorem rep_is_first keys i j d : i < length keys -> j < length keys ->
  nth j keys d = nth i keys d -> rep_of Key keq keys i d <= j.
Proof. intros Hi Hj H. unfold rep_of. eapply first_index_le; eassumption. Qed.

(* two indices are in the same class iff they carry the same key *)
Theorem same_class_iff keys i j d : i < length keys -> j < length keys ->
  (rep_of Key keq keys i d = rep_of Key keq keys j d <-> nth i keys d = nth j keys d).
Proof.
  intros Hi Hj. split; intros H.
  - destruct (class_map_sound keys i d Hi) as [_ H1]. destruct (class_map_sound keys j d Hj) as [_ H2].
    rewrite <- H1, <- H2, H. reflexivity.
  - unfold rep_of. rewrite H. reflexivity.
Qed.
End DegeneracySpec.
