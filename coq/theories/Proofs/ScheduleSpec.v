From Coq Require Import ZArith List Bool Arith Lia.
From OQ Require Import Model.Schedule.
Import ListNotations.
Local Open Scope Z_scope.

(* ---- list facts ------------------------------------------------------------------- *)
Lemma down_from_length n : length (down_from n) = n.
Proof. induction n; cbn; congruence. Qed.

Lemma nth_error_down_from n : forall i, (i < n)%nat ->
  nth_error (down_from n) i = Some (Z.of_nat (n - 1 - i)).
Proof.
  induction n as [|n IH]; intros i Hi; [lia|]. destruct i as [|i]; cbn [down_from nth_error].
  - f_equal. f_equal. lia.
  - rewrite IH by lia. f_equal. f_equal. lia.
Qed.

Lemma skipn_down_from a : forall b, skipn a (down_from (a + b)) = down_from b.
Proof. induction a as [|a IH]; intros b; [reflexivity|]. cbn [Nat.add down_from skipn]. apply IH. Qed.

Lemma skipn_down_from' a n : (a <= n)%nat -> skipn a (down_from n) = down_from (n - a).
Proof. intros H. replace n with (a + (n - a))%nat at 1 by lia. apply skipn_down_from. Qed.

Lemma up_to_length n : length (up_to n) = n.
Proof. unfold up_to. rewrite map_length, seq_length. reflexivity. Qed.

Lemma nth_error_up_to n i : (i < n)%nat -> nth_error (up_to n) i = Some (Z.of_nat i).
Proof.
  intros H. unfold up_to. rewrite nth_error_map.
  rewrite (nth_error_nth' _ 0%nat) by (rewrite seq_length; exact H). rewrite seq_nth by exact H. reflexivity.
Qed.

Lemma nth_error_up_to_none n i : (n <= i)%nat -> nth_error (up_to n) i = None.
Proof. intros H. apply nth_error_None. rewrite up_to_length. exact H. Qed.

Lemma up_to_S n : up_to (S n) = up_to n ++ [Z.of_nat n].
Proof. unfold up_to. rewrite seq_S, map_app. reflexivity. Qed.

Lemma removelast_up_to n : removelast (up_to (S n)) = up_to n.
Proof. rewrite up_to_S. apply removelast_last. Qed.

Lemma removelast_up_to_pred n : removelast (up_to n) = up_to (n - 1).
Proof.
  destruct n as [|n]; [reflexivity|]. rewrite removelast_up_to. f_equal. lia.
Qed.

Lemma norm_key_nat m x : norm_key m (Some (Z.of_nat x)) = Some (Z.of_nat x).
Proof. destruct x; reflexivity. Qed.

(* ---- TEMPO ------------------------------------------------------------------------- *)
Theorem tempo_key_spec (m : nat) (rect : bool) (kp k : nat) :
  (1 <= m)%nat -> (kp <= k)%nat ->
  norm_key m (tempo_key (Some m) rect kp k) = norm_key m (cell_spec (Some m) rect kp k).
Proof.
  intros Hm Hk. unfold tempo_key, tempo_used, tempo_stored, cell_spec.
  set (dk := (k - kp)%nat).
  destruct (Nat.leb_spec (S k) m) as [Hs|Hs].
  - (* step within the memory: the last s influences *)
    rewrite skipn_down_from' by lia. replace (S m - (S m - S k))%nat with (S k) by lia.
    rewrite down_from_length.
    destruct (Nat.ltb_spec dk (S k)) as [Hd|Hd]; [|lia].
    rewrite nth_error_down_from by lia.
    destruct (Nat.ltb_spec dk m) as [Hd2|Hd2]; [|lia].
    f_equal. f_equal. f_equal. lia.
  - destruct rect.
    + (* furthest influence replaced by the rectangle requested as dkmax - s *)
      cbn [down_from tl length]. rewrite down_from_length.
      destruct (Nat.ltb_spec dk (S m)) as [Hd|Hd].
      * destruct (Nat.ltb_spec dk m) as [Hd2|Hd2].
        -- replace (S m - 1 - dk)%nat with (S (m - 1 - dk)) by lia. cbn [nth_error].
           rewrite nth_error_down_from by lia. f_equal. f_equal. f_equal. lia.
        -- assert (dk = m) by lia.
           replace (S m - 1 - dk)%nat with 0%nat by lia. cbn [nth_error].
           destruct (Nat.ltb_spec m dk) as [Hd3|Hd3]; [lia|].
           destruct (Nat.leb_spec 1 kp) as [Hkp|Hkp]; cbn [andb].
           ++ replace (Z.of_nat m - Z.of_nat (S k)) with (- Z.of_nat (S kp)) by lia. reflexivity.
           ++ replace (Z.of_nat m - Z.of_nat (S k)) with (-1) by lia. rewrite norm_key_nat. reflexivity.
      * destruct (Nat.ltb_spec dk m) as [Hd2|Hd2]; [lia|].
        destruct (Nat.ltb_spec m dk) as [Hd3|Hd3]; [reflexivity|lia].
    + cbn [length]. rewrite down_from_length.
      destruct (Nat.ltb_spec dk (S m)) as [Hd|Hd].
      * change (Z.of_nat m :: down_from m) with (down_from (S m)).
        rewrite nth_error_down_from by lia.
        destruct (Nat.ltb_spec dk m) as [Hd2|Hd2]; [f_equal; f_equal; f_equal; lia|].
        destruct (Nat.ltb_spec m dk) as [Hd3|Hd3]; [lia|]. cbn [andb].
        f_equal. f_equal. f_equal. lia.
      * destruct (Nat.ltb_spec dk m) as [Hd2|Hd2]; [lia|].
        destruct (Nat.ltb_spec m dk) as [Hd3|Hd3]; [reflexivity|lia].
Qed.

Theorem tempo_key_spec_full (rect : bool) (kp k : nat) : (kp <= k)%nat ->
  tempo_key None rect kp k = cell_spec None rect kp k.
Proof.
  intros Hk. unfold tempo_key, tempo_used, tempo_stored, cell_spec. rewrite down_from_length.
  destruct (Nat.ltb_spec (k - kp) (S k)) as [Hd|Hd]; [|lia].
  rewrite nth_error_down_from by lia. f_equal. f_equal. lia.
Qed.

(* ---- PT-TEMPO ---------------------------------------------------------------------- *)
Lemma pt_col_closed (N m : nat) (rect : bool) : forall s, (1 <= s)%nat ->
  let ni := pt_num_infl N m in
  let E := (N - ni + 1)%nat in
  pt_col N m rect s =
  if (s <=? E)%nat then
    (if rect && (2 <=? s)%nat then up_to (ni - 1) ++ [- Z.of_nat s] else up_to ni)
  else up_to (ni + E - s).
Proof.
  cbv zeta. induction s as [|s IH]; intros Hs; [lia|].
  destruct s as [|s].
  - cbn [pt_col]. destruct (Nat.leb_spec 1 (N - pt_num_infl N m + 1)) as [H|H]; [|lia].
    rewrite andb_false_r. reflexivity.
  - change (pt_col N m rect (S (S s))) with
      (let prev := pt_col N m rect (S s) in
       if (N - pt_num_infl N m + 1 <? S (S s))%nat then removelast prev
       else if rect then removelast prev ++ [- Z.of_nat (S (S s))] else prev).
    cbv zeta. rewrite IH by lia.
    set (ni := pt_num_infl N m) in *. set (E := (N - ni + 1)%nat) in *.
    assert (Hni : (1 <= ni)%nat \/ ni = 0%nat) by lia.
    destruct (Nat.ltb_spec E (S (S s))) as [Hend|Hgrow].
    + (* end phase *)
      destruct (Nat.leb_spec (S (S s)) E) as [H1|H1]; [lia|].
      destruct (Nat.leb_spec (S s) E) as [H2|H2].
      * (* first end-phase step: the (possibly replaced) last element is dropped *)
        assert (S s = E) by lia.
        destruct (rect && (2 <=? S s)%nat).
        -- rewrite removelast_last. f_equal. lia.
        -- rewrite removelast_up_to_pred. f_equal. lia.
      * rewrite removelast_up_to_pred. f_equal. lia.
    + (* grow phase *)
      destruct (Nat.leb_spec (S (S s)) E) as [H1|H1]; [|lia].
      destruct (Nat.leb_spec (S s) E) as [H2|H2]; [|lia].
      destruct rect; cbn [andb].
      * destruct (Nat.leb_spec 2 (S s)) as [H3|H3].
        -- rewrite removelast_last. reflexivity.
        -- rewrite removelast_up_to_pred. reflexivity.
      * reflexivity.
Qed.

Theorem pt_key_spec (N m : nat) (rect : bool) (kp k : nat) :
  (1 <= m)%nat -> (kp <= k)%nat -> (k < N)%nat ->
  pt_key N m rect kp k = cell_spec (Some m) rect kp k.
Proof.
  intros Hm Hk HN. unfold pt_key. rewrite pt_col_closed by lia. cbv zeta.
  unfold cell_spec, pt_num_infl. set (dk := (k - kp)%nat).
  destruct (Nat.le_gt_cases (S m) N) as [Hc|Hc].
  - (* the memory is shorter than the computation *)
    rewrite (Nat.min_r N (S m)) by exact Hc.
    destruct (Nat.leb_spec (S kp) (N - S m + 1)) as [Hg|Hg].
    + (* grow phase: the target at distance dkmax exists *)
      destruct (Nat.ltb_spec dk m) as [Hd|Hd].
      * destruct (rect && (2 <=? S kp)%nat).
        -- rewrite nth_error_app1 by (rewrite up_to_length; lia). apply nth_error_up_to. lia.
        -- apply nth_error_up_to. lia.
      * destruct (Nat.ltb_spec m dk) as [Hd2|Hd2].
        -- destruct (rect && (2 <=? S kp)%nat).
           ++ apply nth_error_None. rewrite app_length, up_to_length. cbn. lia.
           ++ apply nth_error_up_to_none. lia.
        -- assert (dk = m) by lia.
           replace (2 <=? S kp)%nat with (1 <=? kp)%nat
             by (destruct (Nat.leb_spec 1 kp), (Nat.leb_spec 2 (S kp)); try reflexivity; lia).
           destruct (rect && (1 <=? kp)%nat).
           ++ rewrite nth_error_app2 by (rewrite up_to_length; lia).
              rewrite up_to_length. replace (dk - (S m - 1))%nat with 0%nat by lia. reflexivity.
           ++ rewrite nth_error_up_to by lia. f_equal. f_equal. lia.
    + (* end phase: the column has been shortened to the remaining targets *)
      destruct (Nat.ltb_spec dk m) as [Hd|Hd]; [|lia].
      apply nth_error_up_to. lia.
  - (* memory at least as long as the computation: every distance is kept *)
    rewrite (Nat.min_l N (S m)) by lia. rewrite Nat.sub_diag.
    destruct (Nat.ltb_spec dk m) as [Hd|Hd]; [|lia].
    destruct (Nat.leb_spec (S kp) (0 + 1)) as [Hg|Hg].
    + assert (kp = 0%nat) by lia. subst kp. rewrite andb_false_r. apply nth_error_up_to. lia.
    + apply nth_error_up_to. lia.
Qed.

(* ---- rows = columns ------------------------------------------------------------------- *)
Theorem rows_eq_columns (N m : nat) (rect : bool) (kp k : nat) :
  (1 <= m)%nat -> (kp <= k)%nat -> (k < N)%nat ->
  norm_key m (tempo_key (Some m) rect kp k) = norm_key m (pt_key N m rect kp k).
Proof.
  intros Hm Hk HN. rewrite tempo_key_spec by assumption. rewrite pt_key_spec by assumption. reflexivity.
Qed.

(* full memory: dkmax >= N - 1 behaves as dkmax = None *)
Theorem long_memory_is_full (m : nat) (rect : bool) (kp k : nat) :
  (kp <= k)%nat -> (k < m)%nat ->
  cell_spec (Some m) rect kp k = cell_spec None rect kp k.
Proof.
  intros Hk Hm. unfold cell_spec. destruct (Nat.ltb_spec (k - kp) m); [reflexivity|lia].
Qed.
