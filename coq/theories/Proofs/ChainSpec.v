From Coq Require Import Arith List Bool Lia Permutation.
From OQ Require Import Model.Chain.
Import ListNotations.

(* ---- layers ---------------------------------------------------------------------------------- *)
Lemma bonds_in n b : In b (bonds n) <-> b + 2 <= n.
Proof. unfold bonds. rewrite in_seq. lia. Qed.

Lemma evens_in n b : In b (evens n) <-> (b + 2 <= n /\ Nat.even b = true).
Proof. unfold evens. rewrite filter_In, bonds_in. tauto. Qed.
Lemma odds_in n b : In b (odds n) <-> (b + 2 <= n /\ Nat.odd b = true).
Proof. unfold odds. rewrite filter_In, bonds_in. tauto. Qed.

(* every bond of the chain is in exactly one of the two layers *)
Theorem every_bond_once n b : b + 2 <= n ->
  (In b (evens n) /\ ~ In b (odds n)) \/ (In b (odds n) /\ ~ In b (evens n)).
Proof.
  intros H. rewrite evens_in, odds_in. unfold Nat.odd. destruct (Nat.even b) eqn:E; cbn.
  - left. split; [tauto|]. intros [_ C]. discriminate.
  - right. split; [tauto|]. intros [_ C]. discriminate.
Qed.

Lemma NoDup_filter {A} (f : A -> bool) l : NoDup l -> NoDup (filter f l).
Proof.
  induction 1 as [|x l Hx Hl IH]; cbn; [constructor|]. destruct (f x); [|exact IH].
  constructor; [|exact IH]. intros C. apply filter_In in C. tauto.
Qed.

Theorem layers_no_duplicates n : NoDup (evens n) /\ NoDup (odds n).
Proof. split; apply NoDup_filter, seq_NoDup. Qed.

(* two gates of one layer act on left sites at least two apart (they share at most a lambda that
   neither of them writes) *)
Theorem layer_separated n a b :
  (In a (evens n) /\ In b (evens n)) \/ (In a (odds n) /\ In b (odds n)) -> a <> b -> a + 2 <= b \/ b + 2 <= a.
Proof.
  intros H Hne.
  assert (Hp : Nat.even a = Nat.even b).
  { destruct H as [[Ha Hb]|[Ha Hb]].
    - apply evens_in in Ha, Hb. destruct Ha as [_ ->], Hb as [_ ->]. reflexivity.
    - apply odds_in in Ha, Hb. unfold Nat.odd in *. destruct Ha as [_ Ha], Hb as [_ Hb].
      destruct (Nat.even a), (Nat.even b); cbn in *; congruence. }
  destruct (Nat.lt_trichotomy a b) as [Hlt|[Heq|Hgt]]; [|contradiction|].
  - left. destruct (Nat.eq_dec b (S a)) as [->|]; [|lia].
    rewrite Nat.even_succ in Hp. unfold Nat.odd in Hp. destruct (Nat.even a); discriminate.
  - right. destruct (Nat.eq_dec a (S b)) as [->|]; [|lia].
    rewrite Nat.even_succ in Hp. unfold Nat.odd in Hp. destruct (Nat.even b); discriminate.
Qed.

Theorem layers_spec n :
  layers n 1 = [evens n; odds n] /\ layers n 2 = [evens n; odds n; odds n; evens n] /\
  gate_fraction 1 = 4 /\ gate_fraction 2 = 2.
Proof. repeat split. Qed.

(* ---- site weights ------------------------------------------------------------------------------ *)
Lemma sum_map_zero (f : nat -> nat) (l : list nat) :
  (forall b, In b l -> f b = 0) -> fold_right Nat.add 0 (map f l) = 0.
Proof.
  induction l as [|x l IH]; intros H; [reflexivity|]. cbn [map fold_right].
  rewrite (H x) by (left; reflexivity). rewrite IH; [reflexivity|]. intros b Hb. apply H. right. exact Hb.
Qed.

Lemma sum_map_single (f : nat -> nat) (l : list nat) k v :
  NoDup l -> In k l -> f k = v -> (forall b, In b l -> b <> k -> f b = 0) ->
  fold_right Nat.add 0 (map f l) = v.
Proof.
  induction l as [|x l IH]; intros Hnd Hin Hk Hz; [destruct Hin|].
  inversion Hnd as [|x0 l0 Hx Hl E0]. clear E0. cbn [map fold_right]. destruct Hin as [Hin|Hin].
  - rewrite Hin in *. rewrite Hk. rewrite sum_map_zero; [lia|].
    intros b Hb. apply Hz; [right; exact Hb|]. intros E. rewrite E in Hb. contradiction.
  - rewrite (Hz x); [|left; reflexivity|intros E; rewrite E in Hx; contradiction].
    cbn. apply IH; try assumption. intros b Hb Hne. apply Hz; [right; exact Hb|exact Hne].
Qed.

Lemma sum_map_two (f : nat -> nat) (l : list nat) k1 k2 v1 v2 :
  NoDup l -> In k1 l -> In k2 l -> k1 <> k2 -> f k1 = v1 -> f k2 = v2 ->
  (forall b, In b l -> b <> k1 -> b <> k2 -> f b = 0) ->
  fold_right Nat.add 0 (map f l) = v1 + v2.
Proof.
  induction l as [|x l IH]; intros Hnd H1 H2 Hne E1 E2 Hz; [destruct H1|].
  inversion Hnd as [|x0 l0 Hx Hl E0]. clear E0. cbn [map fold_right].
  destruct H1 as [H1|H1], H2 as [H2|H2].
  - exfalso. apply Hne. rewrite <- H1, <- H2. reflexivity.
  - rewrite H1. rewrite E1. f_equal. apply (sum_map_single f l k2 v2 Hl H2 E2).
    intros b Hb Hb2. apply Hz; [right; exact Hb| intros E; rewrite E, <- H1 in Hb; contradiction|exact Hb2].
  - rewrite H2. rewrite E2. rewrite Nat.add_comm. f_equal. apply (sum_map_single f l k1 v1 Hl H1 E1).
    intros b Hb Hb1. apply Hz; [right; exact Hb|exact Hb1|intros E; rewrite E, <- H2 in Hb; contradiction].
  - rewrite (Hz x); [|left; reflexivity|intros E; rewrite E in Hx; contradiction|intros E; rewrite E in Hx; contradiction].
    cbn. apply IH; try assumption. intros b Hb. apply Hz. right. exact Hb.
Qed.

(* every site's own Liouvillian is counted with total weight one (two halves), for every chain
   length >= 2 and every site *)
Theorem site_factors n i : 2 <= n -> i < n -> total_weight2 n i = 2.
Proof.
  intros Hn Hi. unfold total_weight2.
  assert (Hnd : NoDup (bonds n)) by apply seq_NoDup.
  destruct (Nat.eq_dec i 0) as [->|Hi0].
  - (* first site: left site of bond 0 only *)
    apply (sum_map_single _ _ 0 2 Hnd); [apply bonds_in; lia|reflexivity|].
    intros b Hb Hne. unfold weight2. destruct (Nat.eqb_spec 0 b); [lia|]. destruct (Nat.eqb_spec 0 (S b)); [lia|reflexivity].
  - destruct (Nat.eq_dec i (n - 1)) as [->|Hil].
    + (* last site: right site of bond n-2 only *)
      apply (sum_map_single _ _ (n - 2) 2 Hnd); [apply bonds_in; lia| |].
      * unfold weight2. destruct (Nat.eqb_spec (n - 1) (n - 2)); [lia|].
        destruct (Nat.eqb_spec (n - 1) (S (n - 2))); [|lia]. rewrite Nat.eqb_refl. reflexivity.
      * intros b Hb Hne. apply bonds_in in Hb. unfold weight2.
        destruct (Nat.eqb_spec (n - 1) b); [lia|]. destruct (Nat.eqb_spec (n - 1) (S b)); [lia|reflexivity].
    + (* interior site: left site of bond i and right site of bond i-1, half each *)
      replace 2 with (1 + 1) at 2 by reflexivity.
      apply (sum_map_two _ _ i (i - 1) 1 1 Hnd); [apply bonds_in; lia|apply bonds_in; lia|lia| | |].
      * unfold weight2. rewrite Nat.eqb_refl. destruct (Nat.eqb_spec i 0); [lia|reflexivity].
      * unfold weight2. destruct (Nat.eqb_spec i (i - 1)); [lia|].
        destruct (Nat.eqb_spec i (S (i - 1))); [|lia]. destruct (Nat.eqb_spec (i - 1) (n - 2)); [lia|reflexivity].
      * intros b Hb H1 H2. unfold weight2. destruct (Nat.eqb_spec i b); [lia|].
        destruct (Nat.eqb_spec i (S b)); [lia|reflexivity].
Qed.

(* ---- gates of one layer commute; any completion order; snapshot = sequential ------------------ *)
Section FootprintSpec.
Variables A B : Type.
Variable gate : nat -> B -> A -> B -> A -> B -> A * B * A.
Variables (da : A) (db : B).
Local Notation cstate := (cstate A B).
Local Notation write := (write A B).
Local Notation gate_result := (gate_result A B gate da db).
Local Notation apply_gate := (apply_gate A B gate da db).

Lemma nth_upd_other {X} j k (x d : X) l : j <> k -> nth k (upd j x l) d = nth k l d.
Proof. revert j k; induction l as [|h t IH]; intros [|j] [|k] H; cbn; try lia; auto. Qed.

Lemma upd_upd_comm {X} j k (x y : X) l : j <> k -> upd j x (upd k y l) = upd k y (upd j x l).
Proof.
  revert j k; induction l as [|h t IH]; intros [|j] [|k] H; cbn; try lia; auto.
  f_equal. apply IH. lia.
Qed.

Definition sep (a b : nat) : Prop := a + 2 <= b \/ b + 2 <= a.

Lemma write_comm (s : cstate) a b ra rb : sep a b ->
  write (write s a ra) b rb = write (write s b rb) a ra.
Proof.
  intros H. destruct ra as [[ga la] ga'], rb as [[gb lb] gb']. destruct s as [g l]. unfold Chain.write. cbn [fst snd].
  f_equal.
  - rewrite (upd_upd_comm b (S a)) by (destruct H; lia).
    rewrite (upd_upd_comm b a) by (destruct H; lia).
    rewrite (upd_upd_comm (S b) (S a)) by (destruct H; lia).
    rewrite (upd_upd_comm (S b) a) by (destruct H; lia). reflexivity.
  - apply upd_upd_comm. destruct H; lia.
Qed.

Lemma gate_result_write (s : cstate) a b rb : sep a b ->
  gate_result (write s b rb) a = gate_result s a.
Proof.
  intros H. destruct rb as [[gb lb] gb']. destruct s as [g l]. unfold Chain.gate_result, Chain.write. cbn [fst snd].
  rewrite !(nth_upd_other (S b)) by (destruct H; lia).
  rewrite !(nth_upd_other b) by (destruct H; lia). reflexivity.
Qed.

Fixpoint all_sep (ls : list nat) : Prop :=
  match ls with
  | [] => True
  | a :: t => (forall b, In b t -> sep a b) /\ all_sep t
  end.

(* sequential application = every gate computed from the pre-layer snapshot, written in list order *)
Lemma seq_eq_par_gen ls : forall (s0 cur : cstate),
  all_sep ls -> (forall g, In g ls -> gate_result cur g = gate_result s0 g) ->
  fold_left apply_gate ls cur = fold_left (fun acc l => write acc l (gate_result s0 l)) ls cur.
Proof.
  induction ls as [|a t IH]; intros s0 cur Hs Hr; [reflexivity|]. cbn [fold_left].
  destruct Hs as [Ha Ht]. unfold Chain.apply_gate at 2. rewrite (Hr a) by (left; reflexivity).
  apply IH; [exact Ht|]. intros g Hg.
  rewrite gate_result_write; [apply Hr; right; exact Hg|].
  destruct (Ha g Hg) as [H|H]; [right|left]; exact H.
Qed.

Theorem snapshot_eq_sequential (s : cstate) ls : all_sep ls ->
  apply_layer_seq A B gate da db s ls = apply_layer_par A B gate da db s ls ls.
Proof. intros H. unfold apply_layer_seq, apply_layer_par. apply seq_eq_par_gen; [exact H|reflexivity]. Qed.

(* writing the results back in ANY order gives the same chain state *)
Lemma par_swap (s0 acc : cstate) a b : sep a b ->
  write (write acc a (gate_result s0 a)) b (gate_result s0 b) =
  write (write acc b (gate_result s0 b)) a (gate_result s0 a).
Proof. intros H. apply write_comm. exact H. Qed.

Lemma all_sep_in ls : all_sep ls -> forall a b, In a ls -> In b ls -> a <> b -> sep a b.
Proof.
  induction ls as [|x t IH]; intros Hs a b Ha Hb Hne; [destruct Ha|]. destruct Hs as [Hx Ht].
  destruct Ha as [->|Ha], Hb as [->|Hb].
  - contradiction.
  - apply Hx. exact Hb.
  - destruct (Hx a Ha) as [H|H]; [right|left]; exact H.
  - apply IH; assumption.
Qed.

Theorem any_completion_order (s : cstate) ls order :
  NoDup ls -> all_sep ls -> Permutation ls order ->
  apply_layer_par A B gate da db s ls order = apply_layer_par A B gate da db s ls ls.
Proof.
  intros Hnd Hs HP. unfold apply_layer_par.
  assert (Hpair : forall a b, In a ls -> In b ls -> a <> b -> sep a b) by (apply all_sep_in; exact Hs).
  clear Hs. symmetry. generalize s at 2 4. revert Hnd Hpair.
  induction HP as [|x l l' HP IH|x y l|l l' l'' HP1 IH1 HP2 IH2]; intros Hnd Hpair acc.
  - reflexivity.
  - cbn [fold_left]. apply IH.
    + inversion Hnd; assumption.
    + intros a b Ha Hb. apply Hpair; right; assumption.
  - cbn [fold_left]. f_equal. apply par_swap. apply Hpair; cbn; auto.
    inversion Hnd as [|? ? Hy _]; subst. intros ->. apply Hy. left. reflexivity.
  - rewrite IH1 by assumption. apply IH2.
    + eapply Permutation_NoDup; eassumption.
    + intros a b Ha Hb. apply Hpair; eapply Permutation_in; try (apply Permutation_sym; exact HP1); assumption.
Qed.
End FootprintSpec.

Lemma all_sep_intro ls : NoDup ls -> (forall a b, In a ls -> In b ls -> a <> b -> sep a b) -> all_sep ls.
Proof.
  induction ls as [|x t IH]; intros Hnd H; [exact I|]. inversion Hnd as [|? ? Hx Ht]; subst. split.
  - intros b Hb. apply H; [left; reflexivity|right; exact Hb|]. intros ->. contradiction.
  - apply IH; [exact Ht|]. intros a b Ha Hb. apply H; right; assumption.
Qed.

Theorem trotter_layers_separated n : all_sep (evens n) /\ all_sep (odds n).
Proof.
  destruct (layers_no_duplicates n) as [H1 H2]. split; apply all_sep_intro; try assumption.
  - intros a b Ha Hb Hne. apply (layer_separated n a b); [left; split; assumption|exact Hne].
  - intros a b Ha Hb Hne. apply (layer_separated n a b); [right; split; assumption|exact Hne].
Qed.
