From Coq Require Import Arith List Bool Lia Ring.
From OQ Require Import Lib.RingSum Lib.Mat Model.PathSum.
Import ListNotations.

Section PathSumSpec.
Variable K : Ring.
Add Ring Kring3 : (rth K).
Open Scope rg_scope.
Local Notation mat := (list (list K)).

Variable d2 : nat.
Variable diag0 : nat -> K.
Variable coef : nat -> nat -> option mat.
Variables uin uout : mat.
Variable props : nat -> mat * mat.
Variable rho0 : list K.

Local Notation amp := (amp diag0 coef uin uout props rho0).
Local Notation cur := (cur uout props rho0).
Local Notation state_entry := (state_entry d2 diag0 coef uin uout props rho0).

(* ---- sums over lists ------------------------------------------------------------------ *)
Lemma suml_flat_map {A} (f : A -> list K) (l : list A) :
  suml (flat_map f l) = suml (map (fun x => suml (f x)) l).
Proof. induction l as [|x l IH]; cbn; [reflexivity|]. rewrite suml_app, IH. reflexivity. Qed.

Lemma suml_map_seq (g : nat -> K) n : forall a, suml (map g (seq a n)) = sumn n (fun i => g (a + i)%nat).
Proof.
  induction n as [|n IH]; intros a; [reflexivity|]. cbn [seq map suml].
  rewrite IH, (sumn_S_first K n (fun i => g (a + i)%nat)). rewrite Nat.add_0_r.
  f_equal. apply sumn_ext. intros i _. f_equal. lia.
Qed.

Lemma suml_map_ext {A} (f g : A -> K) l : (forall x, In x l -> f x = g x) -> suml (map f l) = suml (map g l).
Proof.
  induction l as [|x l IH]; intros H; cbn; [reflexivity|].
  rewrite (H x) by (left; reflexivity). rewrite IH by (intros; apply H; right; assumption). reflexivity.
Qed.

(* ---- constant paths -------------------------------------------------------------------- *)
Fixpoint constb (p : list nat) : bool :=
  match p with
  | a :: ((b :: _) as t) => Nat.eqb a b && constb t
  | _ => true
  end.

Lemma constb_repeat s n : constb (repeat s n) = true.
Proof.
  induction n as [|n IH]; [reflexivity|]. destruct n as [|n]; [reflexivity|].
  change (repeat s (S (S n))) with (s :: s :: repeat s n).
  change (constb (s :: s :: repeat s n)) with (Nat.eqb s s && constb (s :: repeat s n)).
  rewrite Nat.eqb_refl. exact IH.
Qed.

Lemma constb_is_repeat p : constb p = true -> forall s, hd s p = s -> p = repeat s (length p).
Proof.
  induction p as [|a p IH]; intros H s Hs; [reflexivity|]. cbn [hd] in Hs. subst a.
  destruct p as [|b p]; [reflexivity|].
  change (constb (s :: b :: p)) with (Nat.eqb s b && constb (b :: p)) in H.
  apply andb_true_iff in H. destruct H as [H1 H2]. apply Nat.eqb_eq in H1. subst b.
  cbn [length repeat]. f_equal. apply (IH H2 s). reflexivity.
Qed.

Lemma all_paths_length n : forall p, In p (all_paths d2 n) -> length p = n.
Proof.
  induction n as [|n IH]; intros p H; cbn in H.
  - destruct H as [<-|[]]. reflexivity.
  - apply in_flat_map in H. destruct H as [q [Hq H]]. apply in_map_iff in H.
    destruct H as [j [<- _]]. cbn. f_equal. apply IH. exact Hq.
Qed.

Lemma all_paths_bound n : forall p, In p (all_paths d2 n) -> forall s, In s p -> s < d2.
Proof.
  induction n as [|n IH]; intros p H s Hs; cbn in H.
  - destruct H as [<-|[]]. destruct Hs.
  - apply in_flat_map in H. destruct H as [q [Hq H]]. apply in_map_iff in H.
    destruct H as [j [<- Hj]]. apply in_seq in Hj. destruct Hs as [<-|Hs]; [lia|]. eapply IH; eassumption.
Qed.

(* a function of paths that vanishes on non-constant paths sums to its values on the constant ones *)
Lemma sum_over_paths_constant n : forall (f : list nat -> K),
  (forall p, constb p = false -> f p = r0) ->
  suml (map f (all_paths d2 (S n))) = sumn d2 (fun s => f (repeat s (S n))).
Proof.
  induction n as [|n IH]; intros f Hf.
  - cbn [all_paths flat_map]. rewrite app_nil_r, map_map. rewrite (suml_map_seq (fun j => f [j]) d2 0).
    apply sumn_ext. intros i _. reflexivity.
  - change (all_paths d2 (S (S n))) with
      (flat_map (fun p => map (fun j => j :: p) (seq 0 d2)) (all_paths d2 (S n))).
    rewrite flat_map_concat_map, concat_map, map_map, <- flat_map_concat_map, suml_flat_map.
    set (g := fun p : list nat => sumn d2 (fun j => f (j :: p))).
    rewrite (suml_map_ext _ g).
    2:{ intros p _. rewrite map_map. rewrite (suml_map_seq (fun j => f (j :: p)) d2 0). reflexivity. }
    rewrite IH.
    + apply sumn_ext. intros s Hs. unfold g.
      rewrite (sumn_ext K d2 _ (fun j => if Nat.eqb j s then f (j :: repeat s (S n)) else r0)).
      * rewrite sumn_delta by exact Hs. reflexivity.
      * intros j _. destruct (Nat.eqb_spec j s) as [->|Hne]; [reflexivity|].
        apply Hf. cbn [repeat]. change (constb (j :: s :: repeat s n)) with (Nat.eqb j s && constb (s :: repeat s n)).
        destruct (Nat.eqb_spec j s); [contradiction|reflexivity].
    + intros p Hp. unfold g. apply sumn_zero_ext. intros j _. apply Hf.
      destruct p as [|b p]; [discriminate|].
      change (constb (j :: b :: p)) with (Nat.eqb j b && constb (b :: p)). rewrite Hp. apply andb_false_r.
Qed.

(* ---- commuting system Hamiltonian -------------------------------------------------------- *)
(* the propagator from one time point to the next, seen in the coupling eigenbasis *)
Definition trans (k jp j : nat) : K :=
  nth j (mvec uin (mvec (fst (props k)) (mvec (snd (props (k - 1)%nat)) (mcol K uout jp)))) r0.

(* hypothesis "H_S commutes with the coupling operator": that propagator is diagonal *)
Hypothesis commuting : forall k jp j, (1 <= k)%nat -> j <> jp -> trans k jp j = r0.

Lemma amp_cons j older : amp (j :: older) =
  amp older * nth j (mvec uin (mvec (fst (props (length older))) (cur (length older) older))) r0
  * diag0 j * cells coef (length older) j 0 (rev older).
Proof. reflexivity. Qed.

Lemma amp_nonconstant_zero p : constb p = false -> amp p = r0.
Proof.
  induction p as [|a p IH]; intros H; [discriminate|]. destruct p as [|b p]; [discriminate|].
  change (constb (a :: b :: p)) with (Nat.eqb a b && constb (b :: p)) in H.
  rewrite amp_cons. destruct (constb (b :: p)) eqn:Hc.
  - rewrite andb_true_r in H. apply Nat.eqb_neq in H.
    assert (Ht : nth a (mvec uin (mvec (fst (props (length (b :: p)))) (cur (length (b :: p)) (b :: p)))) r0 = r0).
    { cbn [length PathSum.cur hd]. specialize (commuting (S (length p)) b a).
      unfold trans in commuting. replace (S (length p) - 1)%nat with (length p) in commuting by lia.
      apply commuting; [lia|exact H]. }
    rewrite Ht. ring.
  - rewrite (IH eq_refl). ring.
Qed.

(* the independent-boson collapse: only the constant paths survive, one per basis index *)
Theorem commuting_single_path n s :
  state_entry (S n) s = sumn d2 (fun j => amp (repeat j (S n)) * nth s (cur (S n) (repeat j (S n))) r0).
Proof.
  unfold PathSum.state_entry.
  apply (sum_over_paths_constant n (fun p => amp p * nth s (cur (S n) p) r0)).
  intros p Hp. rewrite amp_nonconstant_zero by exact Hp. ring.
Qed.

(* and the amplitude of the constant path of index j is the product, over the time points, of the
   diagonal propagator entry, the dk = 0 coefficient and the coefficients to all earlier points *)
Theorem constant_path_amplitude j n :
  amp (repeat j (S n)) =
  amp (repeat j n)
  * nth j (mvec uin (mvec (fst (props n)) (cur n (repeat j n)))) r0
  * diag0 j * cells coef n j 0 (repeat j n).
Proof.
  cbn [repeat]. rewrite amp_cons, repeat_length.
  assert (Hr : rev (repeat j n) = repeat j n).
  { induction n as [|m IHm]; [reflexivity|]. cbn [repeat rev]. rewrite IHm. clear.
    induction m as [|m IH]; [reflexivity|]. cbn [repeat app]. f_equal. exact IH. }
  rewrite Hr. reflexivity.
Qed.
End PathSumSpec.
