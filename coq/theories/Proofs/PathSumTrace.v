(* The whole TEMPO / PT-TEMPO path sum preserves the trace, composed from the two local facts
   "every propagator half and basis change preserves the trace functional" and "the influence
   function is 1 whenever its later index is a population" (Props/C04 influence_trace). *)
From Coq Require Import Arith List Bool Lia Ring.
From OQ Require Import Lib.RingSum Lib.Mat Model.PathSum Proofs.PathSumSpec.
Import ListNotations.

Section PathSumTrace.
Variable K : Ring.
Add Ring Kring4 : (rth K).
Open Scope rg_scope.
Local Notation mat := (list (list K)).

Variable d2 : nat.
Variable diag0 : nat -> K.
Variable coef : nat -> nat -> option mat.
Variables uin uout : mat.
Variable props : nat -> mat * mat.
Variable rho0 : list K.
Variable t : nat -> K.                     (* the trace functional in the working basis *)

Local Notation amp := (amp diag0 coef uin uout props rho0).
Local Notation cur := (cur uout props rho0).
Local Notation state_entry := (state_entry d2 diag0 coef uin uout props rho0).

Definition trace (v : list K) : K := sumn d2 (fun s => t s * nth s v r0).
Definition square (m : mat) : Prop := length m = d2 /\ forall r, In r m -> length r = d2.
(* column-wise: tr . M = tr *)
Definition col_tp (m : mat) : Prop := forall i, i < d2 -> sumn d2 (fun j => t j * entry K m j i) = t i.

(* ---- list matrices as index sums --------------------------------------------------------- *)
Lemma dot_sumn n : forall u v : list K, length u = n -> length v = n ->
  dot u v = sumn n (fun i => nth i u r0 * nth i v r0).
Proof.
  induction n as [|n IH]; intros u v Hu Hv.
  - destruct u; [|discriminate]. reflexivity.
  - destruct u as [|a u]; [discriminate|]. destruct v as [|b v]; [discriminate|].
    injection Hu as Hu. injection Hv as Hv.
    rewrite (sumn_S_first K n). cbn [nth]. rewrite <- (IH u v Hu Hv). reflexivity.
Qed.

Lemma nth_mvec (m : mat) v j : square m -> length v = d2 -> j < d2 ->
  nth j (mvec m v) r0 = sumn d2 (fun i => entry K m j i * nth i v r0).
Proof.
  intros [Hm Hr] Hv Hj. unfold mvec.
  rewrite (nth_indep _ r0 (dot (@nil K) v)) by (rewrite map_length; lia).
  rewrite (map_nth (fun r => dot r v) m [] j).
  apply dot_sumn; [|exact Hv]. apply Hr. apply nth_In. lia.
Qed.

Lemma mvec_length (m : mat) v : length (mvec m v) = length m.
Proof. unfold mvec. apply map_length. Qed.

Lemma trace_mvec (m : mat) v : square m -> col_tp m -> length v = d2 -> trace (mvec m v) = trace v.
Proof.
  intros Hm Hc Hv. unfold trace.
  rewrite (sumn_ext K d2 _ (fun s => sumn d2 (fun i => t s * entry K m s i * nth i v r0))).
  2:{ intros s Hs. rewrite (nth_mvec m v s Hm Hv Hs). rewrite <- sumn_mul_l.
      apply sumn_ext. intros i _. ring. }
  rewrite sumn_exchange. apply sumn_ext. intros i Hi.
  rewrite sumn_mul_r. rewrite (Hc i Hi). reflexivity.
Qed.

Lemma nth_mcol (m : mat) j s : nth s (mcol K m j) r0 = entry K m s j.
Proof.
  unfold mcol, entry. destruct (Nat.lt_ge_cases s (length m)) as [Hs|Hs].
  - rewrite (nth_indep _ r0 (nth j (@nil K) r0)) by (rewrite map_length; exact Hs).
    apply (map_nth (fun r => nth j r r0) m [] s).
  - rewrite nth_overflow by (rewrite map_length; exact Hs).
    rewrite (nth_overflow m) by exact Hs. destruct j; reflexivity.
Qed.

(* ---- hypotheses ------------------------------------------------------------------------------ *)
Hypothesis Huin : square uin.
Hypothesis Huout : square uout.
Hypothesis Hprops : forall k, square (fst (props k)) /\ square (snd (props k)).
Hypothesis Hrho : length rho0 = d2.
Hypothesis Tuin : col_tp uin.
Hypothesis Tuout : col_tp uout.
Hypothesis Tprops : forall k, col_tp (fst (props k)) /\ col_tp (snd (props k)).
(* the influence functions are 1 where the later index is a population: stated ring-generally as
   "multiplied by the trace functional of the later index they disappear" *)
Hypothesis Tdiag : forall j, j < d2 -> t j * diag0 j = t j.
Hypothesis Tcoef : forall kp k m jp j, coef kp k = Some m -> j < d2 -> t j * entry K m jp j = t j.

Lemma cur_length k p : length (cur k p) = d2.
Proof.
  destruct k as [|k]; cbn [PathSum.cur]; [exact Hrho|].
  rewrite mvec_length. exact (proj1 (proj2 (Hprops k))).
Qed.

Lemma mcol_length (m : mat) j : length (mcol K m j) = length m.
Proof. unfold mcol. apply map_length. Qed.

(* reading out the trace right after picking index j gives t j *)
Lemma trace_cur_S k j p : j < d2 -> trace (cur (S k) (j :: p)) = t j.
Proof.
  intros Hj. cbn [PathSum.cur hd].
  rewrite (trace_mvec _ _ (proj2 (Hprops k)) (proj2 (Tprops k))).
  2:{ rewrite mcol_length. exact (proj1 Huout). }
  unfold trace. rewrite (sumn_ext K d2 _ (fun s => t s * entry K uout s j)).
  - exact (Tuout j Hj).
  - intros s _. rewrite nth_mcol. reflexivity.
Qed.

Lemma cells_traced k j : j < d2 -> forall l kp, t j * cells coef k j kp l = t j.
Proof.
  intros Hj l. induction l as [|jp l IH]; intros kp; cbn [PathSum.cells]; [ring|].
  destruct (coef kp k) as [m|] eqn:Hc.
  - transitivity (t j * entry K m jp j * cells coef k j (S kp) l); [ring|].
    rewrite (Tcoef kp k m jp j Hc Hj). apply IH.
  - transitivity (t j * cells coef k j (S kp) l); [ring|]. apply IH.
Qed.

(* the vector entering the index choice of point k has the trace of the state before it *)
Lemma trace_pre k p :
  sumn d2 (fun j => t j * nth j (mvec uin (mvec (fst (props k)) (cur k p))) r0) = trace (cur k p).
Proof.
  change (trace (mvec uin (mvec (fst (props k)) (cur k p))) = trace (cur k p)).
  rewrite (trace_mvec _ _ Huin Tuin).
  2:{ rewrite mvec_length. exact (proj1 (proj1 (Hprops k))). }
  apply (trace_mvec _ _ (proj1 (Hprops k)) (proj1 (Tprops k))). apply cur_length.
Qed.

Definition traced (n : nat) : K := sumn d2 (fun s => t s * state_entry n s).

(* summing out the newest index: the trace after n+1 points is the sum over the paths of length n
   of amplitude times the trace of the state they lead to *)
Lemma traced_S n :
  traced (S n) = suml (map (fun p => amp p * trace (cur n p)) (all_paths d2 n)).
Proof.
  unfold traced, PathSum.state_entry.
  change (all_paths d2 (S n)) with (flat_map (fun p => map (fun j => j :: p) (seq 0 d2)) (all_paths d2 n)).
  (* move t s inside the sum over paths *)
  rewrite (sumn_ext K d2 _ (fun s => suml (map (fun q => t s * (amp q * nth s (cur (S n) q) r0))
                     (flat_map (fun p => map (fun j => j :: p) (seq 0 d2)) (all_paths d2 n))))).
  2:{ intros s _. generalize (flat_map (fun p => map (fun j => j :: p) (seq 0 d2)) (all_paths d2 n)).
      intros l. induction l as [|q l IH]; cbn [map suml]; [ring|]. rewrite <- IH. ring. }
  (* exchange sum over s and sum over paths *)
  assert (Hex : forall (l : list (list nat)) (f : nat -> list nat -> K),
             sumn d2 (fun s => suml (map (f s) l)) = suml (map (fun q => sumn d2 (fun s => f s q)) l)).
  { intros l f. induction l as [|q l IH]; cbn [map suml]; [apply sumn_zero|].
    rewrite sumn_add, IH. reflexivity. }
  rewrite (Hex _ (fun s q => t s * (amp q * nth s (cur (S n) q) r0))).
  rewrite flat_map_concat_map, concat_map, map_map, <- flat_map_concat_map, (suml_flat_map K).
  apply (suml_map_ext K). intros p Hp.
  rewrite map_map, (suml_map_seq K _ d2 0). cbn [Nat.add].
  assert (Hlen : length p = n) by (eapply all_paths_length; exact Hp).
  rewrite (sumn_ext K d2 _ (fun j => amp p * (t j * nth j (mvec uin (mvec (fst (props n)) (cur n p))) r0))).
  - rewrite sumn_mul_l. rewrite trace_pre. reflexivity.
  - intros j Hj.
    transitivity (amp (j :: p) * trace (cur (S n) (j :: p))).
    { unfold trace. rewrite <- sumn_mul_l. apply sumn_ext. intros s _. ring. }
    rewrite (trace_cur_S n j p Hj). rewrite (amp_cons K). rewrite Hlen.
    set (x := nth j (mvec uin (mvec (fst (props n)) (cur n p))) r0).
    transitivity (amp p * x * (t j * diag0 j * cells coef n j 0 (rev p))); [ring|].
    rewrite (Tdiag j Hj). rewrite (cells_traced n j Hj). ring.
Qed.

Theorem pathsum_trace_step n : traced (S (S n)) = traced (S n).
Proof.
  rewrite (traced_S (S n)). unfold traced at 1. unfold PathSum.state_entry.
  assert (Hex : forall (l : list (list nat)),
     sumn d2 (fun s => t s * suml (map (fun p => amp p * nth s (cur (S n) p) r0) l)) =
     suml (map (fun p => amp p * trace (cur (S n) p)) l)).
  { intros l. induction l as [|q l IH]; cbn [map suml].
    - rewrite (sumn_ext K d2 _ (fun _ => r0)) by (intros; ring). apply sumn_zero.
    - rewrite <- IH. unfold trace. rewrite <- sumn_mul_l, <- sumn_add. apply sumn_ext. intros s _. ring. }
  symmetry. apply Hex.
Qed.

Theorem pathsum_trace n : traced (S n) = trace rho0.
Proof.
  induction n as [|n IH].
  - rewrite traced_S. cbn [all_paths map suml PathSum.amp PathSum.cur]. ring.
  - rewrite pathsum_trace_step. exact IH.
Qed.
End PathSumTrace.
