From Coq Require Import Arith List Lia.
From OQ Require Import Model.BathTable.
Import ListNotations.

Lemma bt_ask_inv t dim : rows t = filled t -> rows (bt_ask t dim) = filled (bt_ask t dim).
Proof. intros H. unfold bt_ask. destruct (rows t <? dim); [reflexivity|exact H]. Qed.

Lemma bt_run_inv qs : forall t, rows t = filled t -> rows (fold_left bt_ask qs t) = filled (fold_left bt_ask qs t).
Proof. induction qs as [|q r IH]; intros t H; [exact H|]. cbn [fold_left]. apply IH, bt_ask_inv, H. Qed.

Lemma bt_ask_covers t dim : rows t = filled t -> bt_answerable (bt_ask t dim) dim = true.
Proof.
  intros H. unfold bt_ask, bt_answerable. destruct (rows t <? dim) eqn:E; cbn [filled].
  - apply Nat.leb_le. lia.
  - apply Nat.ltb_ge in E. apply Nat.leb_le. lia.
Qed.

Theorem every_question_answerable_lemma (qs : list nat) (dim : nat) :
  bt_answerable (bt_ask (bt_run false qs) dim) dim = true.
Proof. apply bt_ask_covers. unfold bt_run. apply bt_run_inv. reflexivity. Qed.

(* the table never shrinks: an earlier question stays answerable *)
Lemma bt_ask_mono t dim d : bt_answerable t d = true -> rows t = filled t -> bt_answerable (bt_ask t dim) d = true.
Proof.
  unfold bt_ask, bt_answerable. intros H Hr. destruct (rows t <? dim) eqn:E; [|exact H].
  cbn [filled]. apply Nat.ltb_lt in E. apply Nat.leb_le in H. apply Nat.leb_le. lia.
Qed.
